"""Parser for TLA+ values as printed by TLC (-dump files, simulation trace files)."""
import re

TOK = re.compile(r'\s*(<<|>>|\|->|:>|@@|\[|\]|\{|\}|\(|\)|,|"(?:[^"\\]|\\.)*"|-?\d+|[A-Za-z_][A-Za-z0-9_]*)')


class MV(str):
    """A TLC model value (e.g. NaN)."""
    def __repr__(self):
        return "MV(%s)" % str.__str__(self)


def tokenize(s):
    pos, out, n = 0, [], len(s)
    match = TOK.match
    while pos < n:
        m = match(s, pos)
        if not m:
            if s[pos:].strip() == "":
                break
            raise ValueError("bad token at " + s[pos:pos + 40])
        out.append(m.group(1))
        pos = m.end()
    return out


def parse(s):
    toks = tokenize(s)
    v, i = _p(toks, 0)
    if i != len(toks):
        raise ValueError("trailing tokens %r" % toks[i:i + 5])
    return v


def _p(t, i):
    x = t[i]
    if x == '<<':
        i += 1
        out = []
        while t[i] != '>>':
            v, i = _p(t, i)
            out.append(v)
            if t[i] == ',':
                i += 1
        return tuple(out), i + 1
    if x == '{':
        i += 1
        out = []
        while t[i] != '}':
            v, i = _p(t, i)
            out.append(v)
            if t[i] == ',':
                i += 1
        return frozenset(out), i + 1
    if x == '[':
        i += 1
        out = {}
        while t[i] != ']':
            k = t[i]
            assert t[i + 1] == '|->', t[i:i + 3]
            v, i = _p(t, i + 2)
            out[k] = v
            if t[i] == ',':
                i += 1
        return _Rec(out), i + 1
    if x == '(':
        i += 1
        out = {}
        while t[i] != ')':
            k, i = _p(t, i)
            assert t[i] == ':>', t[i:i + 3]
            v, i = _p(t, i + 1)
            out[k] = v
            if t[i] == '@@':
                i += 1
        return _Fun(out), i + 1
    c = x[0]
    if c == '"':
        return x[1:-1].replace('\\"', '"').replace('\\\\', '\\'), i + 1
    if x == 'TRUE':
        return True, i + 1
    if x == 'FALSE':
        return False, i + 1
    if c.isdigit() or c == '-':
        return int(x), i + 1
    return MV(x), i + 1


class _Rec(dict):
    """TLA+ record; hashable so that it may appear inside sets."""
    def __hash__(self):
        return hash(tuple(sorted((k, _h(v)) for k, v in self.items())))

    def __getattr__(self, k):
        try:
            return self[k]
        except KeyError:
            raise AttributeError(k)


class _Fun(dict):
    def __hash__(self):
        return hash(tuple(sorted(((_h(k), _h(v)) for k, v in self.items()), key=repr)))


def _h(v):
    try:
        return hash(v)
    except TypeError:
        return hash(repr(v))


_STATE_SPLIT = re.compile(r'\nState \d+:\n')
_VAR = re.compile(r'/\\ (\w+) = (.*?)(?=\n/\\ |\Z)', re.S)


def parse_dump(path, want=None):
    """Yield one dict per state of a TLC -dump file. `want(text)` may pre-filter on raw text."""
    with open(path) as f:
        txt = f.read()
    for block in _STATE_SPLIT.split('\n' + txt)[1:]:
        if want is not None and not want(block):
            continue
        st = {}
        for m in _VAR.finditer(block):
            st[m.group(1)] = parse(m.group(2))
        if not st:
            # single-variable modules print "var = value" without the conjunction bullet
            m = re.match(r'\s*(\w+) = (.*)\Z', block, re.S)
            if m:
                st[m.group(1)] = parse(m.group(2))
        yield st


_STATE_LINE = re.compile(r'^State \d+:$')


def iter_dump(path, want=None, shard=None):
    """Streaming variant of parse_dump (constant memory). shard = (i, n): only the blocks whose index is i modulo n."""
    def emit(block):
        st = {}
        for m in _VAR.finditer(block):
            st[m.group(1)] = parse(m.group(2))
        if not st:
            m = re.match(r'\s*(\w+) = (.*)\Z', block, re.S)
            if m:
                st[m.group(1)] = parse(m.group(2))
        return st
    idx = -1
    lines = None
    with open(path) as f:
        for line in f:
            if _STATE_LINE.match(line.rstrip("\n")):
                if lines is not None:
                    block = "".join(lines).rstrip("\n")
                    if (shard is None or idx % shard[1] == shard[0]) and (want is None or want(block)):
                        yield emit(block)
                idx += 1
                lines = []
            elif lines is not None:
                lines.append(line)
    if lines is not None:
        block = "".join(lines).rstrip("\n")
        if (shard is None or idx % shard[1] == shard[0]) and (want is None or want(block)):
            yield emit(block)


_SIM_STATE = re.compile(r'STATE_(\d+) ==\s*\n(.*?)(?=\n\n|\Z)', re.S)


def parse_sim_file(path):
    """Parse one behaviour file written by `tlc -simulate file=...`: list of state dicts."""
    with open(path) as f:
        txt = f.read()
    states = []
    for m in _SIM_STATE.finditer(txt):
        st = {}
        body = m.group(2)
        for v in _VAR.finditer(body):
            st[v.group(1)] = parse(v.group(2))
        if not st:
            mm = re.match(r'\s*(\w+) = (.*)\Z', body, re.S)
            if mm:
                st[mm.group(1)] = parse(mm.group(2))
        states.append(st)
    return states


def to_tla(v):
    """Python value -> TLA+ text (ints, strings, bools, tuples/lists, sets, dicts as records)."""
    if isinstance(v, MV):
        return str.__str__(v)
    if isinstance(v, bool):
        return "TRUE" if v else "FALSE"
    if isinstance(v, int):
        return str(v)
    if isinstance(v, str):
        return '"' + v.replace('\\', '\\\\').replace('"', '\\"') + '"'
    if isinstance(v, (tuple, list)):
        return "<<" + ", ".join(to_tla(x) for x in v) + ">>"
    if isinstance(v, (set, frozenset)):
        return "{" + ", ".join(sorted(to_tla(x) for x in v)) + "}"
    if isinstance(v, dict):
        return "[" + ", ".join("%s |-> %s" % (k, to_tla(x)) for k, x in v.items()) + "]"
    raise TypeError(type(v))
