"""Setup: nothing is compiled; verify that the tools the checks need are present (offline)."""
import subprocess, sys, os

def main():
    ok = True
    try:
        out = subprocess.run(["java", "-cp", "/opt/veriftools/tla/tla2tools.jar", "tlc2.TLC", "-h"],
                             stdout=subprocess.PIPE, stderr=subprocess.STDOUT, text=True, timeout=60).stdout
        if "TLC" not in out:
            ok = False
            print("TLC not runnable")
    except Exception as ex:
        ok = False
        print("TLC not runnable:", ex)
    try:
        import numpy, irispie  # noqa
    except Exception as ex:
        ok = False
        print("irispie not importable:", ex)
    os.makedirs(os.path.join(os.path.dirname(os.path.dirname(os.path.abspath(__file__))), ".work"), exist_ok=True)
    print("setup ok" if ok else "setup FAILED")
    return 0 if ok else 1

if __name__ == "__main__":
    sys.exit(main())
