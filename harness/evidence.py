"""Write /verif/evidence/<id>.json (schema: /root/.vp/EVIDENCE.schema.json)."""
import json, os
from .common import EVIDENCE


def write(pid, tier, seed, *, states, transitions, traces, samples, wall, violations=0, exhaustive=False,
          rule="", assumptions=(), extra=None, evaluations=None, distinct_nontrivial=None):
    cov = {
        "states": int(states),
        "transitions": int(transitions),
        "traces_validated_against_impl": int(traces),
        "samples": _clip(samples),
        "exhaustive": bool(exhaustive),
        "rule": rule,
    }
    if evaluations is not None:
        cov["evaluations"] = int(evaluations)
    if distinct_nontrivial is not None:
        cov["distinct_nontrivial"] = int(distinct_nontrivial)
    if extra:
        cov.update(extra)
    doc = {
        "property_id": pid,
        "tier": tier,
        "seed": int(seed),
        "level": "model_checking",
        "coverage": cov,
        "assumptions": list(assumptions),
        "wall_s": round(float(wall), 2),
        "violations": int(violations),
    }
    os.makedirs(EVIDENCE, exist_ok=True)
    path = os.path.join(EVIDENCE, pid + ".json")
    tmp = path + ".tmp"
    with open(tmp, "w") as f:
        json.dump(doc, f, indent=1, default=str, sort_keys=False)
        f.write("\n")
    os.replace(tmp, path)
    return path


def _clip(samples, n=6, width=1500):
    out = []
    for s in list(samples)[:n]:
        txt = json.dumps(s, default=str)
        if len(txt) > width:
            s = {"truncated": txt[:width]}
        else:
            s = json.loads(txt)
        out.append(s)
    if not out:
        out = ["(no sample recorded)"]
    return out
