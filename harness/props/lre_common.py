"""Shared by C01 / C07 / C15 / C03 / C08: build irispie models from the source text emitted by ModelLib.tla, feed scenarios."""
import io, math, contextlib
from fractions import Fraction
import numpy as np
import irispie as ir

T1 = lambda: ir.qq(2020, 1)       # period number 1
_MODELS = {}


def quiet(f, *a, **k):
    with contextlib.redirect_stdout(io.StringIO()), contextlib.redirect_stderr(io.StringIO()):
        return f(*a, **k)


def fr(q):
    return Fraction(q[0], q[1])


def model(src, linear, fresh=False, deterministic=False):
    key = (tuple(src), bool(linear), bool(deterministic))
    if fresh or key not in _MODELS:
        m = ir.Simultaneous.from_string("\n".join(src) + "\n", linear=bool(linear), **({"deterministic": True} if deterministic else {}))
        quiet(m.steady)
        m.solve()
        if fresh:
            return m
        _MODELS[key] = m
    return _MODELS[key]


def per(t):
    return T1() + (t - 1)


def level_of(name, logv, state_value, dev):
    """Value to put in / expect from a databox for a state value of the spec (log-variables are kept in logs in the spec)."""
    v = float(state_value)
    return math.exp(v) if name in logv else v


def state_of(name, logv, data_value):
    return math.log(data_value) if name in logv else data_value
