"""C15 - model-implied autocovariances solve the solved model's Lyapunov equation.

Spec: GaussSS.tla (stationary covariance = exact solution of the Lyapunov equation of the library's reduced form, C(k) = T^k Omega,
measurement block incl. lagged states and measurement shocks, NaN for variables loaded on a unit root), AcovMC.tla (models x standard
deviations; Inv_Lyapunov, Inv_Scale checked by TLC). Binding: get_acov / get_acorr / get_acov_dimension_names / rescale_stds.
"""
import os, math
import numpy as np
import irispie as ir
from .. import tlc, tlaval
from ..common import MachineryError
from .C09 import _plain
from .lre_common import model, fr, quiet

K = 2      # replaced per scenario by the number of orders the spec computed


def nanv(v):
    return isinstance(v, tlaval.MV)


def check(chk, sc, out):
    global K
    K = len(dict(out["cov"])) - 1
    payload = {"kind": "acov", "sc": _plain(sc), "src": list(out["src"])}
    tag = "acov:%s" % sc["id"]
    desc = "model %s stds %s measurement std %s" % (sc["id"], _plain(sc["sd"]), _plain(sc["sdw"]))
    try:
        m = model(out["src"], True, fresh=True)
        stds = {"std_" + n: float(fr(s)) for n, s in zip(out["shocks"], sc["sd"])}
        stds.update({"std_" + n: float(fr(sc["sdw"])) for n in out["mshocks"]})
        m.assign(**stds)
        acov = np.stack([np.asarray(x, dtype=float) for x in m.get_acov(up_to_order=K)])
        acorr = np.stack([np.asarray(x, dtype=float) for x in m.get_acorr(up_to_order=K)])
        names = m.get_acov_dimension_names()
    except Exception as ex:
        chk.mismatch(tag + ":raised:" + type(ex).__name__, desc + ": raised %r" % (ex,), payload)
        return
    rows = [str(x) for x in names.rows]
    if tuple(names.rows) != tuple(names.columns):
        chk.mismatch(tag + ":names", desc + ": row and column names differ: %r" % (names,), payload)
        return
    # bring the array to shape (order, n, n)
    n = len(rows)
    arr = acov
    if arr.ndim != 3 or arr.shape[1:] != (n, n) or arr.shape[0] < K + 1:
        chk.mismatch(tag + ":shape", desc + ": get_acov has shape %r for dimension names %r" % (acov.shape, rows), payload)
        return
    spec_names = list(out["names"])
    if sorted(rows) != sorted(spec_names):
        chk.mismatch(tag + ":names", desc + ": dimension names %r, spec %r" % (rows, spec_names), payload)
        return
    pos = {nme: i for i, nme in enumerate(rows)}
    cov = dict(out["cov"])
    for j in range(K + 1):
        for a, na in enumerate(spec_names):
            for b, nb in enumerate(spec_names):
                e = cov[j][a][b]
                g = float(arr[j, pos[na], pos[nb]])
                if nanv(e):
                    if not math.isnan(g):
                        chk.mismatch(tag + ":unit-root-not-nan", desc + ": cov(%s_t, %s_{t-%d}) is %r but a unit-root variable is involved (NaN expected)" % (na, nb, j, g), payload)
                        return
                    continue
                e = float(fr(e))
                if math.isnan(g) or not abs(g - e) <= 1e-8 * max(1.0, abs(e)):
                    chk.mismatch(tag + ":value", desc + ": cov(%s_t, %s_{t-%d}) is %r, Lyapunov solution gives %r" % (na, nb, j, g, e), payload)
                    return
                va, vb = cov[0][a][a], cov[0][b][b]
                if not nanv(va) and not nanv(vb) and float(fr(va)) > 0 and float(fr(vb)) > 0:
                    ec = e / math.sqrt(float(fr(va)) * float(fr(vb)))
                    gc = float(acorr[j, pos[na], pos[nb]])
                    if math.isnan(gc) or not abs(gc - ec) <= 1e-8:
                        chk.mismatch(tag + ":acorr", desc + ": corr(%s_t, %s_{t-%d}) is %r, acov scaled by the order-0 standard deviations gives %r" % (na, nb, j, gc, ec), payload)
                        return
    # the scale law (Inv_Scale, checked by TLC for s = 2) at very small scales: acov scales by s^2, acorr does not change
    for scale in (1e-3, 1e-7):
        try:
            ms = model(out["src"], True, fresh=True)
            ms.assign(**{k: v * scale for k, v in stds.items()})
            a_s = np.stack([np.asarray(x, dtype=float) for x in ms.get_acov(up_to_order=K)])
            c_s = np.stack([np.asarray(x, dtype=float) for x in ms.get_acorr(up_to_order=K)])
        except Exception as ex:
            chk.mismatch(tag + ":scaled:raised:" + type(ex).__name__, desc + ": with stds scaled by %g raised %r" % (scale, ex), payload)
            return
        if not np.allclose(a_s, scale * scale * arr, rtol=1e-7, atol=0.0, equal_nan=True):
            chk.mismatch(tag + ":scale-law:acov", desc + ": with all stds scaled by %g the autocovariances are not scaled by its square" % scale, payload)
            return
        if not np.allclose(c_s, acorr, rtol=1e-7, atol=1e-9, equal_nan=True):
            chk.mismatch(tag + ":scale-law:acorr", desc + ": with all stds scaled by %g the autocorrelations change:\n%s\nvs\n%s" % (scale, c_s[0], acorr[0]), payload)
            return
    # scaling all standard deviations by s scales every autocovariance by s^2 (also through rescale_stds)
    try:
        m2 = model(out["src"], True, fresh=True)
        m2.assign(**stds)
        m2.rescale_stds(3.0)
        arr2 = np.stack([np.asarray(x, dtype=float) for x in m2.get_acov(up_to_order=K)])
        if arr2.shape != acov.shape or not np.allclose(arr2, 9.0 * acov, rtol=1e-9, atol=1e-10, equal_nan=True):
            chk.mismatch(tag + ":rescale", desc + ": after rescale_stds(3) the autocovariances are not 9 times the original ones", payload)
    except Exception as ex:
        chk.mismatch(tag + ":rescale:raised:" + type(ex).__name__, desc + ": rescale_stds raised %r" % (ex,), payload)


def spec_array(out):
    cov = dict(out["cov"])
    n = len(out["names"])
    return np.array([[[math.nan if nanv(cov[j][a][b]) else float(fr(cov[j][a][b])) for b in range(n)] for a in range(n)] for j in range(len(cov))], dtype=float)


def check_variants(chk, items):
    """Several std vectors of one model as the variants of ONE model object: variant k has the autocovariances of its own scenario, before and
    after rescale_stds (which must reach every variant)."""
    scs, outs = [it[0] for it in items], [it[1] for it in items]
    sc, out = scs[0], outs[0]
    payload = {"kind": "acov-variants", "scs": [_plain(s) for s in scs], "src": list(out["src"])}
    tag = "acov-variants:%s" % sc["id"]
    desc = "model %s with %d variants (stds %s, measurement stds %s)" % (sc["id"], len(scs), [_plain(s["sd"]) for s in scs], [_plain(s["sdw"]) for s in scs])
    try:
        m = model(out["src"], True, fresh=True)
        m.alter_num_variants(len(scs))
        stds = {"std_" + n: [float(fr(s["sd"][i])) for s in scs] for i, n in enumerate(out["shocks"])}
        stds.update({"std_" + n: [float(fr(s["sdw"])) for s in scs] for n in out["mshocks"]})
        m.assign(**stds)
        names = [str(x) for x in m.get_acov_dimension_names().rows]
        order = [names.index(n) for n in out["names"]]
        kk = len(dict(out["cov"])) - 1
        def observed():
            res = m.get_acov(up_to_order=kk, unpack_singleton=False)
            return [np.stack([np.asarray(x, dtype=float) for x in per_variant])[:, order][:, :, order] for per_variant in res]
        before = observed()
        m.rescale_stds(3.0)
        after = observed()
    except Exception as ex:
        chk.mismatch(tag + ":raised:" + type(ex).__name__, desc + ": raised %r" % (ex,), payload)
        return
    for v, o in enumerate(outs):
        e = spec_array(o)
        if before[v].shape != e.shape or not np.allclose(before[v], e, rtol=1e-8, atol=1e-10, equal_nan=True):
            chk.mismatch(tag + ":value", desc + ": the autocovariances of variant %d are not those of its own standard deviations" % v, payload)
            return
        if not np.allclose(after[v], 9.0 * e, rtol=1e-8, atol=1e-10, equal_nan=True):
            chk.mismatch(tag + ":rescale", desc + ": after rescale_stds(3) the autocovariances of variant %d are not 9 times the original ones (order-0 diagonal %s, expected %s)" % (
                v, np.diag(after[v][0]).tolist(), (9.0 * np.diag(e[0])).tolist()), payload)
            return


def run(chk):
    dump = chk.scratch.file("acov.dump")
    r = tlc.must_pass(tlc.run("AcovMC", "AcovMC.thorough.cfg" if chk.tier == "thorough" else "AcovMC.cfg", chk.scratch, dump=dump, timeout=1800), "AcovMC")
    chk.add_tlc(r, "AcovMC")
    n = units = 0
    groups = {}
    for st in tlaval.parse_dump(dump, want=lambda b: "done = TRUE" in b):
        sc, out = st["sc"], st["out"]
        if not (out["ok"] and out["scale_law"]):
            raise MachineryError("AcovMC: law false in dump")
        check(chk, sc, out)
        groups.setdefault(sc["id"], []).append((sc, out))
        n += 1
        units += sc["id"] == "L5"
        if n in (3, 15):
            chk.sample({"scenario": _plain(sc), "names": list(out["names"]), "spec_acov_order0": _plain(dict(out["cov"])[0])})
    os.remove(dump)
    if not units:
        raise MachineryError("AcovMC: no unit-root scenario")
    nvar = 0
    for ident, lst in sorted(groups.items()):
        lst.sort(key=lambda so: repr(_plain(so[0])))
        if len(lst) >= 3:
            check_variants(chk, lst[:3])
            check_variants(chk, lst[-2:])
            nvar += 2
    if not nvar:
        raise MachineryError("AcovMC: no multi-variant group")
    n += nvar
    chk.notes["multi_variant_models"] = nvar
    chk.replayed += n
    chk.exhaustive = True
    chk.rule = ("library models L1, L2, L3, L9 and the unit-root model L5 x 2 shock-std vectors x 2 measurement stds, orders 0..2, all pairs of "
                "current-dated transition and measurement variables (measurement equations with lagged states and shared measurement shocks); a case is one scenario")
    chk.assumptions = ["models of the library only (rational roots); scipy Lyapunov solver and numpy trusted; tolerance 1e-8"]


def replay(chk, s):
    raise MachineryError("re-run ./check C15 (scenarios are regenerated deterministically)")
