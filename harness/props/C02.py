"""C02 - Jacobians from algorithmic differentiation equal the true derivatives.

Spec: Aldi.tla (expression trees, derivative trees by the textbook rules, exact evaluation and forward-mode dual numbers on the
rational fragment; Inv_RulesAgree checked by TLC on every enumerated tree), AldiMC.tla (all leaves, depth-1 trees and depth-2
trees built from a depth-1 tree and a leaf or a function). Binding: each tree becomes the equation z_i = <tree> of a model (source text
emitted by the spec); systemize() is evaluated at x = 2, y = 3 (a log-variable), p = 1/4 and, for every dated occurrence, the sum of the
A and B cells that refer to it in the row of that equation is compared with the spec's derivative tree evaluated by the harness
(times y for occurrences of the log-variable). A function is either differentiated to that value or rejected (an exception).
"""
import os, math, random
import numpy as np
import scipy.stats, scipy.special
import irispie as ir
from .. import tlc, tlaval
from ..common import MachineryError
from .C09 import _plain
from .lre_common import quiet

X, Y, P = 2.0, 3.0, 0.25
WRTS = (("x", 0), ("x", -1), ("x", 1), ("y", 0), ("y", -1))


class Domain(Exception):
    pass


def ev(e):
    k = e[0]
    if k == "num":
        return e[1][0] / e[1][1]
    if k == "par":
        return P
    if k == "var":
        return X if e[1] == "x" else Y
    if k == "neg":
        return -ev(e[1])
    if k in ("add", "sub", "mul", "div"):
        a, b = ev(e[1]), ev(e[2])
        if k == "add":
            return a + b
        if k == "sub":
            return a - b
        if k == "mul":
            return a * b
        if abs(b) < 1e-9:
            raise Domain()
        return a / b
    if k == "pow":
        a, b = ev(e[1]), ev(e[2])
        if a <= 1e-9:
            raise Domain()           # keep to positive bases: a^b with a <= 0 is outside the domain of the general rule
        return a ** b
    if k == "fn":
        a = ev(e[2])
        f = e[1]
        if f == "log":
            if a <= 1e-9:
                raise Domain()
            return math.log(a)
        if f == "exp":
            if a > 50:
                raise Domain()
            return math.exp(a)
        if f == "sqrt":
            if a <= 1e-9:
                raise Domain()
            return math.sqrt(a)
        if f == "logistic":
            return float(scipy.special.expit(a))
        if f == "abs":
            if abs(a) < 1e-9:
                raise Domain()
            return abs(a)
        if f == "normal_cdf":
            return float(scipy.stats.norm.cdf(a))
        if f == "normal_pdf":
            return float(scipy.stats.norm.pdf(a))
        raise MachineryError("unknown function " + f)
    if k == "fn2":
        a, b = ev(e[2]), ev(e[3])
        if abs(a - b) < 1e-9:
            raise Domain()           # kink
        return max(a, b) if e[1] == "maximum" else min(a, b)
    if k == "ifge":
        a, b = ev(e[1]), ev(e[2])
        if abs(a - b) < 1e-9:
            raise Domain()
        return ev(e[3]) if a >= b else ev(e[4])
    raise MachineryError("unknown node %r" % (k,))


def build(texts):
    lines = ["!transition_variables", "x, y, " + ", ".join("z%d" % i for i in range(len(texts))), "!log-variables", "y", "!parameters", "p",
             "!transition_equations"]
    lines += ["z%d = %s;" % (i, t) for i, t in enumerate(texts)]
    lines += ["x = 0.5*x{-1} + 1;", "y = 2*y{-1}^0.5;"]
    m = ir.Simultaneous.from_string("\n".join(lines) + "\n")
    m.assign(x=X, y=Y, p=P, **{"z%d" % i: 1.0 for i in range(len(texts))})
    s = quiet(m.systemize)
    vec = m._invariant.dynamic_descriptor.system_vectors.transition_variables
    q2n = m.create_qid_to_name()
    cols = {(q2n[t.qid], t.shift): j for j, t in enumerate(vec)}
    return np.asarray(s.A, dtype=float), np.asarray(s.B, dtype=float), cols


def derivative_cells(A, B, cols, row, name, shift):
    """Sum of the cells of A (vector at t) and B (vector at t-1) that refer to the dated occurrence name{shift}."""
    total, found = 0.0, False
    if (name, shift) in cols:
        total += A[row, cols[(name, shift)]]
        found = True
    if (name, shift + 1) in cols:
        total += B[row, cols[(name, shift + 1)]]
        found = True
    return total, found


def check_batch(chk, batch, stats):
    texts = [o["text"] for _, o in batch]
    try:
        A, B, cols = build(texts)
    except Exception as ex:
        if len(batch) == 1:
            stats["rejected"] += 1            # the function / construct is rejected: allowed
            stats["rejected_examples"].setdefault(type(ex).__name__, texts[0])
            return
        for item in batch:
            check_batch(chk, [item], stats)
        return
    for row, (sc, out) in enumerate(batch):
        payload = {"kind": "aldi", "text": out["text"], "tree": _plain(sc["e"])}
        d = dict(out["d"])
        try:
            ev(sc["e"])
        except Domain:
            stats["domain"] += 1
            continue
        for (name, shift) in WRTS:
            try:
                e = ev(d[(name, shift)]) * (Y if name == "y" else 1.0)
            except Domain:
                stats["domain"] += 1
                continue
            g, found = derivative_cells(A, B, cols, row, name, shift)
            if not found and abs(e) > 1e-12:
                chk.mismatch("aldi:no-cell", "z = %s: no cell of A or B refers to %s{%d} although the derivative is %r" % (out["text"], name, shift, e), payload)
                break
            if math.isnan(g) or abs(g - e) > 1e-7 * max(1.0, abs(e)):
                fns = sorted({n[1] for n in _nodes(sc["e"]) if n[0] in ("fn", "fn2")}) or ["rational"]
                chk.mismatch("aldi:" + "+".join(fns), "z = %s: derivative with respect to %s%s{%d} at x=2, y=3, p=1/4 is %r in systemize(), true value %r" % (
                    out["text"], "log " if name == "y" else "", name, shift, g, e), payload)
                break
        stats["checked"] += 1


def _nodes(e):
    yield e
    for c in e[1:]:
        if isinstance(c, tuple) and c and isinstance(c[0], str) and c[0] in ("num", "par", "var", "neg", "add", "sub", "mul", "div", "pow", "fn", "fn2", "ifge"):
            yield from _nodes(c)


def run(chk):
    rnd = random.Random(chk.seed)
    thorough = chk.tier == "thorough"
    dump = chk.scratch.file("aldi.dump")
    r = tlc.must_pass(tlc.run("AldiMC", "AldiMC.cfg", chk.scratch, dump=dump, timeout=3600, heap="12g"), "AldiMC")
    chk.add_tlc(r, "AldiMC")
    keep_p = 1.0 if thorough else 0.06
    items, total, rational = [], 0, 0
    for st in tlaval.parse_dump(dump, want=lambda b: "done = TRUE" in b and (thorough or rnd.random() < keep_p or "kind |-> \"d2\"" not in b)):
        if not st["out"]["law"]:
            raise MachineryError("AldiMC: law false in dump")
        total += 1
        rational += bool(st["out"]["rational"])
        if st["out"]["rational"] and not st["out"]["safe"]:
            continue
        items.append((st["sc"], st["out"]))
    os.remove(dump)
    stats = {"checked": 0, "rejected": 0, "domain": 0, "rejected_examples": {}}
    items.sort(key=lambda so: so[1]["text"])
    for i in range(0, len(items), 20):
        check_batch(chk, items[i:i + 20], stats)
    if stats["checked"] < len(items) // 3:
        raise MachineryError("AldiMC: only %d of %d trees could be checked" % (stats["checked"], len(items)))
    chk.sample({"tree": items[len(items) // 2][1]["text"], "spec_derivatives": {"%s{%d}" % k: _plain(v) for k, v in dict(items[len(items) // 2][1]["d"]).items()}})
    chk.replayed += stats["checked"]
    chk.no_claim += stats["rejected"] + stats["domain"]
    chk.notes.update({"trees_checked": stats["checked"], "trees_rejected_by_irispie": stats["rejected"], "outside_domain_or_at_kink": stats["domain"],
                      "rejected_examples": stats["rejected_examples"], "trees_in_spec_run": total})
    chk.exhaustive = thorough
    chk.rule = ("all leaves and depth-1 trees over + - * / ^, unary minus, log exp sqrt logistic abs normal_cdf normal_pdf maximum minimum on leaves "
                "{x, x{-1}, x{+1}, y (log-variable), y{-1}, p, 2, 1/2}, and depth-2 trees op(depth-1, leaf), op(leaf, depth-1), fn(depth-1) "
                "(all of them in the thorough tier, a seeded 6% in the quick tier); a case is one tree with its 5 partial derivatives")
    chk.assumptions = ["the evaluation point is x = 2, y = 3 at every shift (systemize evaluates at the stored steady values), p = 1/4; the stacked-time and steady "
                       "Jacobians have no public accessor and are exercised through C05/C06",
                       "primitive function values (math/scipy) and the tree evaluator of the harness are trusted; a^b only for positive bases; kinks excluded"]


def replay(chk, s):
    raise MachineryError("re-run ./check C02 (trees are regenerated deterministically)")
