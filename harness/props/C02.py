"""C02 - Jacobians from algorithmic differentiation equal the true derivatives.

Spec: Aldi.tla (expression trees, derivative trees by the textbook rules, exact evaluation and forward-mode dual numbers on the
rational fragment; Inv_RulesAgree checked by TLC on every enumerated tree), AldiMC.tla (all leaves, depth-1 trees and depth-2
trees built from a depth-1 tree and a leaf or a function). Binding: each tree becomes the equation z_i = <tree> of a model (source text
emitted by the spec); systemize() is evaluated at x = 2, y = 3 (a log-variable), p = 1/4 and, for every dated occurrence, the sum of the
A and B cells that refer to it in the row of that equation is compared with the spec's derivative tree evaluated by the harness
(times y for occurrences of the log-variable). A function is either differentiated to that value or rejected (an exception).
The same trees are observed in the stacked-time evaluator (eval_func / eval_jacob over three periods with different data per column, whole
rows compared) and in the flat / nonflat steady evaluators (levels and changes, time 0 and time k); user context functions blend and
prodsq are known to the spec by their definition.
"""
import os, math, random, zlib
import numpy as np
import scipy.stats, scipy.special
import irispie as ir
from .. import tlc, tlaval
from ..common import MachineryError
from .C09 import _plain
from .lre_common import quiet

X, Y, P = 2.0, 3.0, 0.25
WRTS = (("x", 0), ("x", -1), ("x", 1), ("y", 0), ("y", -1))


class Domain(Exception):
    pass


def blend(u, v):
    return 0.75 * u + 0.25 * v


def prodsq(u, v):
    return u * u * v


CONTEXT = {"blend": blend, "prodsq": prodsq}


def ev(e, env=None):
    """Value of a tree; env(name, shift) gives the value of a dated occurrence (default: x = 2, y = 3 at every shift)."""
    k = e[0]
    if k == "num":
        return e[1][0] / e[1][1]
    if k == "par":
        return P
    if k == "var":
        if env is not None:
            return env(e[1], e[2])
        return X if e[1] == "x" else Y
    if k == "neg":
        return -ev(e[1], env)
    if k == "ufn":
        return CONTEXT[e[1]](ev(e[2], env), ev(e[3], env))
    if k in ("add", "sub", "mul", "div"):
        a, b = ev(e[1], env), ev(e[2], env)
        if k == "add":
            return a + b
        if k == "sub":
            return a - b
        if k == "mul":
            return a * b
        if abs(b) < 1e-9:
            raise Domain()
        return a / b
    if k == "pow":
        a, b = ev(e[1], env), ev(e[2], env)
        if a <= 1e-9:
            raise Domain()           # keep to positive bases: a^b with a <= 0 is outside the domain of the general rule
        return a ** b
    if k == "fn":
        a = ev(e[2], env)
        f = e[1]
        if f == "log":
            if a <= 1e-9:
                raise Domain()
            return math.log(a)
        if f == "exp":
            if a > 50:
                raise Domain()
            return math.exp(a)
        if f == "sqrt":
            if a <= 1e-9:
                raise Domain()
            return math.sqrt(a)
        if f == "logistic":
            return float(scipy.special.expit(a))
        if f == "abs":
            if abs(a) < 1e-9:
                raise Domain()
            return abs(a)
        if f == "normal_cdf":
            return float(scipy.stats.norm.cdf(a))
        if f == "normal_pdf":
            return float(scipy.stats.norm.pdf(a))
        raise MachineryError("unknown function " + f)
    if k == "fn2":
        a, b = ev(e[2], env), ev(e[3], env)
        if abs(a - b) < 1e-9:
            raise Domain()           # kink
        return max(a, b) if e[1] == "maximum" else min(a, b)
    if k == "ifge":
        a, b = ev(e[1], env), ev(e[2], env)
        if abs(a - b) < 1e-9:
            raise Domain()
        return ev(e[3], env) if a >= b else ev(e[4], env)
    raise MachineryError("unknown node %r" % (k,))


def build(texts, mtexts=None):
    lines = ["!transition_variables", "x, y, " + ", ".join("z%d" % i for i in range(len(texts))), "!log-variables", "y", "!parameters", "p",
             "!transition_equations"]
    lines += ["z%d = %s;" % (i, t) for i, t in enumerate(texts)]
    lines += ["x = 0.5*x{-1} + 1;", "y = 2*y{-1}^0.5;"]
    if mtexts:
        # measurement equations: the same trees one period earlier (their deepest lag occurs nowhere in the transition block)
        lines += ["!measurement_variables", ", ".join("o%d" % i for i in range(len(mtexts))), "!measurement_equations"]
        lines += ["o%d = %s;" % (i, t) for i, t in enumerate(mtexts)]
    m = ir.Simultaneous.from_string("\n".join(lines) + "\n", context=dict(CONTEXT))
    m.assign(x=X, y=Y, p=P, **{"z%d" % i: 1.0 for i in range(len(texts))})
    if mtexts:
        m.assign(**{"o%d" % i: 1.0 for i in range(len(mtexts))})
    s = quiet(m.systemize)
    vec = m._invariant.dynamic_descriptor.system_vectors.transition_variables
    q2n = m.create_qid_to_name()
    cols = {(q2n[t.qid], t.shift): j for j, t in enumerate(vec)}
    if mtexts:
        mvec = m._invariant.dynamic_descriptor.system_vectors.measurement_variables
        m._verif_meas = (np.asarray(s.F, dtype=float), np.asarray(s.G, dtype=float), {(q2n[t.qid], t.shift): j for j, t in enumerate(mvec)})
    return np.asarray(s.A, dtype=float), np.asarray(s.B, dtype=float), cols, m


def derivative_cells(A, B, cols, row, name, shift):
    """Sum of the cells of A (vector at t) and B (vector at t-1) that refer to the dated occurrence name{shift}."""
    total, found = 0.0, False
    if (name, shift) in cols:
        total += A[row, cols[(name, shift)]]
        found = True
    if (name, shift + 1) in cols:
        total += B[row, cols[(name, shift + 1)]]
        found = True
    return total, found


X2, Y2, P2 = 1.5, 2.5, 0.5


def check_second_variant(chk, batch, stats):
    global P
    """The same equations in a model with TWO parameter variants: the matrices of variant 1 are the derivatives at variant 1's own point
    (x = 1.5, y = 2.5, p = 1/2), not at variant 0's."""
    texts = [o["text"] for _, o in batch]
    lines = ["!transition_variables", "x, y, " + ", ".join("z%d" % i for i in range(len(texts))), "!log-variables", "y", "!parameters", "p", "!transition_equations"]
    lines += ["z%d = %s;" % (i, t) for i, t in enumerate(texts)] + ["x = 0.5*x{-1} + 1;", "y = 2*y{-1}^0.5;"]
    m = ir.Simultaneous.from_string("\n".join(lines) + "\n", context=dict(CONTEXT))
    m.alter_num_variants(2)
    m.assign(x=[X, X2], y=[Y, Y2], p=[0.25, P2], **{"z%d" % i: 1.0 for i in range(len(texts))})
    systems = quiet(m.systemize)
    vec = m._invariant.dynamic_descriptor.system_vectors.transition_variables
    q2n = m.create_qid_to_name()
    cols = {(q2n[t.qid], t.shift): j for j, t in enumerate(vec)}
    A, B = np.asarray(systems[1].A, dtype=float), np.asarray(systems[1].B, dtype=float)
    env = lambda n, sh: X2 if n == "x" else Y2
    for row, (sc, out) in enumerate(batch):
        payload = {"kind": "aldi-variant", "text": out["text"], "tree": _plain(sc["e"])}
        d = dict(out["d"])
        p_saved = P
        try:
            P = P2
            try:
                ev(sc["e"], env)
            except Domain:
                continue
            bad = False
            for (name, shift) in WRTS:
                try:
                    e = ev(d[(name, shift)], env) * (Y2 if name == "y" else 1.0)
                except Domain:
                    continue
                g, found = derivative_cells(A, B, cols, row, name, shift)
                if (not found and abs(e) > 1e-12) or (found and (math.isnan(g) or abs(g - e) > 1e-7 * max(1.0, abs(e)))):
                    chk.mismatch("aldi:second-variant:" + _fns(sc["e"]), "z = %s in a two-variant model: derivative of variant 1 with respect to %s%s{%d} at ITS point x=1.5, y=2.5, p=1/2 is %r in systemize(), true value %r" % (
                        out["text"], "log " if name == "y" else "", name, shift, g, e), payload)
                    bad = True
                    break
            stats["second_variant"] += not bad
        finally:
            P = p_saved


def check_measurement(chk, m, batch, cols, stats):
    """F and G of the measurement block  F y + G x + H + J w = 0: row of o_i = <tree one period earlier>."""
    F, G, mcols = m._verif_meas
    for row, (sc, out) in enumerate(batch):
        payload = {"kind": "aldi-measurement", "text": out["mtext"], "tree": _plain(sc["e"])}
        d = dict(out["d"])
        try:
            ev(sc["e"])
        except Domain:
            continue
        own = F[row, mcols[("o%d" % row, 0)]]
        if abs(abs(own) - 1.0) > 1e-12 or np.count_nonzero(F[row]) != 1:
            chk.mismatch("aldi:measurement:F", "o = %s: row of F is %s (one entry +-1 for the equation's own variable expected)" % (out["mtext"], F[row].tolist()), payload)
            continue
        E = np.zeros(G.shape[1])
        skip = set()
        missing = None
        for (name, shift) in WRTS:
            try:
                e = -own * ev(d[(name, shift)]) * (Y if name == "y" else 1.0)
            except Domain:
                skip.add((name, shift - 1))
                continue
            if (name, shift - 1) in cols:
                E[cols[(name, shift - 1)]] += e
            elif abs(e) > 1e-12:
                missing = (name, shift - 1, e)
        if missing:
            chk.mismatch("aldi:measurement:no-column", "o = %s: the transition vector has no entry for %s{%d} although the derivative is %r (the term is dropped from G)" % (
                out["mtext"], missing[0], missing[1], missing[2]), payload)
            continue
        bad = False
        for (name, sh), j in cols.items():
            if (name, sh) in skip:
                continue
            g = G[row, j]
            if math.isnan(g) or abs(g - E[j]) > 1e-7 * max(1.0, abs(E[j])):
                chk.mismatch("aldi:measurement:" + _fns(sc["e"]), "o = %s: G entry for %s%s{%d} at x=2, y=3, p=1/4 is %r, true value %r" % (
                    out["mtext"], "log " if name == "y" else "", name, sh, g, E[j]), payload)
                bad = True
                break
        stats["measurement"] += not bad


def check_batch(chk, batch, stats):
    texts = [o["text"] for _, o in batch]
    try:
        A, B, cols, m = build(texts, [o["mtext"] for _, o in batch])
    except Exception as ex:
        if len(batch) == 1:
            stats["rejected"] += 1            # the function / construct is rejected: allowed
            stats["rejected_examples"].setdefault(type(ex).__name__, texts[0])
            return
        for item in batch:
            check_batch(chk, [item], stats)
        return
    for row, (sc, out) in enumerate(batch):
        payload = {"kind": "aldi", "text": out["text"], "tree": _plain(sc["e"])}
        d = dict(out["d"])
        try:
            ev(sc["e"])
        except Domain:
            stats["domain"] += 1
            continue
        for (name, shift) in WRTS:
            try:
                e = ev(d[(name, shift)]) * (Y if name == "y" else 1.0)
            except Domain:
                stats["domain"] += 1
                continue
            g, found = derivative_cells(A, B, cols, row, name, shift)
            if not found and abs(e) > 1e-12:
                chk.mismatch("aldi:no-cell", "z = %s: no cell of A or B refers to %s{%d} although the derivative is %r" % (out["text"], name, shift, e), payload)
                break
            if math.isnan(g) or abs(g - e) > 1e-7 * max(1.0, abs(e)):
                fns = sorted({n[1] for n in _nodes(sc["e"]) if n[0] in ("fn", "fn2", "ufn")}) or ["rational"]
                chk.mismatch("aldi:" + "+".join(fns), "z = %s: derivative with respect to %s%s{%d} at x=2, y=3, p=1/4 is %r in systemize(), true value %r" % (
                    out["text"], "log " if name == "y" else "", name, shift, g, e), payload)
                break
        stats["checked"] += 1
    try:
        check_second_variant(chk, batch, stats)
    except MachineryError:
        raise
    except Exception as ex:
        stats["rejected_other"] += 1
        stats["rejected_examples"].setdefault("check_second_variant:" + type(ex).__name__, repr(ex)[:200])
    try:
        check_measurement(chk, m, batch, cols, stats)
    except MachineryError:
        raise
    except Exception as ex:
        stats["rejected_other"] += 1
        stats["rejected_examples"].setdefault("check_measurement:" + type(ex).__name__, repr(ex)[:200])
    for f, args in ((check_stacked, ()), (check_steady, (True,)), (check_steady, (False,))):
        try:
            f(chk, m, batch, stats, *args)
        except MachineryError:
            raise
        except Exception as ex:
            if len(batch) == 1:
                stats["rejected_other"] += 1
                stats["rejected_examples"].setdefault(f.__name__ + ":" + type(ex).__name__, texts[0])
            else:
                for item in batch:
                    check_batch_other(chk, item, stats, f, args)


def check_batch_other(chk, item, stats, f, args):
    try:
        _, _, _, m = build([item[1]["text"]], [item[1]["mtext"]])
    except Exception:
        return
    try:
        f(chk, m, [item], stats, *args)
    except MachineryError:
        raise
    except Exception as ex:
        stats["rejected_other"] += 1
        stats["rejected_examples"].setdefault(f.__name__ + ":" + type(ex).__name__, item[1]["text"])


XS = (1.5, 2.0, 2.5, 1.25, 3.0)        # data of the stacked-time evaluator, columns 0..4 (columns 1..3 are solved for)
YS = (3.0, 2.5, 2.0, 4.0, 3.5)
COLS = (1, 2, 3)


def _fns(tree):
    return "+".join(sorted({n[1] for n in _nodes(tree) if n[0] in ("fn", "fn2", "ufn")}) or ["rational"])


def _close(g, e, tol=2e-6):
    return not math.isnan(g) and abs(g - e) <= tol * max(1.0, abs(e))


def check_stacked(chk, m, batch, stats):
    """Stacked-time simulation Jacobian (stacked_time._evaluators.create_evaluator(...).eval_jacob / eval_func) against the spec's derivative trees,
    period by period at different data points; whole rows are compared, so placement is checked as well."""
    from irispie.stacked_time import _evaluators as st_evaluators
    from irispie.incidences.main import Token
    from irispie import quantities as ir_quantities, equations as ir_equations
    qs = m.get_quantities()
    n2q = m.create_name_to_qid()
    endog = [q.id for q in m.get_quantities(kind=ir_quantities.TRANSITION_VARIABLE)]
    eqs = list(m.get_dynamic_equation_objects(kind=ir_equations.TRANSITION_EQUATION))
    spots = tuple(Token(q, c) for c in COLS for q in endog)
    evaluator = st_evaluators.create_evaluator(wrt_spots=spots, columns_to_eval=COLS, wrt_equations=eqs, all_quantities=qs, terminator=None, context=m.get_context())
    data = np.full((max(q.id for q in qs) + 1, len(XS)), np.nan)
    data[n2q["x"], :], data[n2q["y"], :], data[n2q["p"], :] = XS, YS, P
    for i in range(len(batch)):
        data[n2q["z%d" % i], :] = 1.0
    with np.errstate(all="ignore"):
        J = np.asarray(evaluator.eval_jacob(None, data.copy()).todense(), dtype=float)
        F = np.asarray(evaluator.eval_func(None, data.copy()), dtype=float).ravel()
    col_of = {(t.qid, t.shift): j for j, t in enumerate(spots)}
    neq = len(eqs)
    for i, (sc, out) in enumerate(batch):
        payload = {"kind": "aldi-stacked", "text": out["text"], "tree": _plain(sc["e"])}
        d = dict(out["d"])
        bad = False
        for ci, c in enumerate(COLS):
            env = lambda n, sh, c=c: float(data[n2q[n], c + sh])
            try:
                val = ev(sc["e"], env)
            except Domain:
                stats["domain"] += 1
                continue
            r = i + neq * ci
            zc = col_of[(n2q["z%d" % i], c)]
            sgn = J[r, zc]
            if abs(abs(sgn) - 1.0) > 1e-12:
                # the tree itself cannot contain z, so the own derivative is +-1
                chk.mismatch("aldi:stacked:own", "z = %s: the stacked-time Jacobian has %r for the equation's own left-hand side in period column %d" % (out["text"], sgn, c), payload)
                bad = True
                break
            if not _close(F[r], sgn * (1.0 - val), 1e-9):
                chk.mismatch("aldi:stacked:value:" + _fns(sc["e"]), "z = %s: residual in period column %d is %r, true value %r" % (out["text"], c, F[r], sgn * (1.0 - val)), payload)
                bad = True
                break
            E = np.zeros(len(spots))
            E[zc] = sgn
            skip = set()
            for (name, shift) in WRTS:
                if c + shift not in COLS:
                    continue
                j = col_of[(n2q[name], c + shift)]
                try:
                    E[j] += -sgn * ev(d[(name, shift)], env) * (env("y", shift) if name == "y" else 1.0)
                except Domain:
                    skip.add(j)
            for j in range(len(spots)):
                if j in skip:
                    continue
                if not _close(J[r, j], E[j]):
                    t = spots[j]
                    chk.mismatch("aldi:stacked:" + _fns(sc["e"]), "z = %s: stacked-time Jacobian, equation in period column %d with respect to %s in column %d (x=%s, y=%s): %r, true value %r" % (
                        out["text"], c, m.create_qid_to_name()[t.qid], t.shift, XS, YS, J[r, j], E[j]), payload)
                    bad = True
                    break
            if bad:
                break
        stats["stacked"] += not bad


def check_steady(chk, m, batch, stats, flat):
    """Steady-state Jacobian (steadiers.evaluators.*SteadyEvaluator.eval_jacob) against the spec's derivative trees summed over the occurrences of a
    variable; nonflat: level + shift*change paths (exp of it for the log-variable), equations at time 0 and at time k = 1."""
    from irispie.steadiers import evaluators as sev
    from irispie import quantities as ir_quantities, equations as ir_equations
    m = m.copy()
    qs = m.get_quantities()
    n2q = m.create_name_to_qid()
    q2n = m.create_qid_to_name()
    endog = tuple(sorted(q.id for q in m.get_quantities(kind=ir_quantities.TRANSITION_VARIABLE)))
    eqs = tuple(m.get_steady_equation_objects(kind=ir_equations.ENDOGENOUS_EQUATION))
    variant = m._variants[0]
    cls = sev.FlatSteadyEvaluator if flat else sev.NonflatSteadyEvaluator
    with np.errstate(all="ignore"):
        e_ = cls(endog, () if flat else endog, eqs, qs, variant, context=m.get_context())
    order = list(e_.wrt_qids)
    # the point: levels and changes in the maybelog space
    lev = {"x": 1.75, "y": math.log(2.5)}
    chg = {"x": 0.0 if flat else 0.125, "y": 0.0 if flat else math.log(1.25)}
    guess_l = [lev.get(q2n[q], 1.0) for q in order]
    guess_c = [chg.get(q2n[q], 0.0) for q in order]
    guess = np.array(guess_l + ([] if flat else guess_c), dtype=float)
    with np.errstate(all="ignore"):
        J = np.asarray(e_.eval_jacob(guess), dtype=float)
        F = np.asarray(e_.eval_func(guess), dtype=float).ravel()
    nq, neq = len(order), len(eqs)
    blocks = (0,) if flat else (0, 1)
    for i, (sc, out) in enumerate(batch):
        payload = {"kind": "aldi-steady", "flat": flat, "text": out["text"], "tree": _plain(sc["e"])}
        d = dict(out["d"])
        bad = False
        for k in blocks:
            def env(n, sh, k=k):
                v = lev[n] + (k + sh) * chg[n]
                return math.exp(v) if n == "y" else v
            try:
                val = ev(sc["e"], env)
            except Domain:
                stats["domain"] += 1
                continue
            r = i + neq * k
            zc = order.index(n2q["z%d" % i])
            sgn = J[r, zc]
            if abs(abs(sgn) - 1.0) > 1e-12 or not _close(F[r], sgn * (1.0 - val), 1e-9):
                chk.mismatch("aldi:steady:value:" + _fns(sc["e"]), "z = %s: %s steady evaluator at time %d has own derivative %r and residual %r (true residual %r)" % (
                    out["text"], "flat" if flat else "nonflat", k, sgn, F[r], 1.0 - val), payload)
                bad = True
                break
            for name in ("x", "y"):
                try:
                    dl = sum(-sgn * ev(d[(n_, sh)], env) * (env("y", sh) if n_ == "y" else 1.0) for (n_, sh) in WRTS if n_ == name)
                    dc = sum(-sgn * (k + sh) * ev(d[(n_, sh)], env) * (env("y", sh) if n_ == "y" else 1.0) for (n_, sh) in WRTS if n_ == name)
                except Domain:
                    continue
                j = order.index(n2q[name])
                for what, g, e in (("level", J[r, j], dl),) + (() if flat else (("change", J[r, nq + j], dc),)):
                    if not _close(g, e):
                        chk.mismatch("aldi:steady:%s:%s:%s" % ("flat" if flat else "nonflat-time%d" % k, what, _fns(sc["e"])),
                                     "z = %s: %s steady Jacobian, equation at time %d with respect to the %s of %s%s at levels x=1.75, y=2.5%s: %r, true value %r" % (
                                         out["text"], "flat" if flat else "nonflat", k, what, "log " if name == "y" else "", name,
                                         "" if flat else " and changes x: +0.125, y: *1.25", g, e), payload)
                        bad = True
                        break
                if bad:
                    break
            if bad:
                break
        stats["steady_flat" if flat else "steady_nonflat"] += not bad


def _nodes(e):
    yield e
    for c in e[1:]:
        if isinstance(c, tuple) and c and isinstance(c[0], str) and c[0] in ("num", "par", "var", "neg", "add", "sub", "mul", "div", "pow", "fn", "fn2", "ifge", "ufn"):
            yield from _nodes(c)


def run(chk):
    rnd = random.Random(chk.seed)
    thorough = chk.tier == "thorough"
    dump = chk.scratch.file("aldi.dump")
    r = tlc.must_pass(tlc.run("AldiMC", "AldiMC.cfg", chk.scratch, dump=dump, timeout=3600, heap="12g"), "AldiMC")
    chk.add_tlc(r, "AldiMC")
    keep_p = 1.0 if thorough else 0.06
    items, total, rational = [], 0, 0
    for st in tlaval.parse_dump(dump, want=lambda b: "done = TRUE" in b and (thorough or "kind |-> \"d2\"" not in b
                                                                              or zlib.crc32((str(chk.seed) + b[b.index("sc ="):]).encode()) < keep_p * 2 ** 32)):
        if not st["out"]["law"]:
            raise MachineryError("AldiMC: law false in dump")
        total += 1
        rational += bool(st["out"]["rational"])
        if st["out"]["rational"] and not st["out"]["safe"]:
            continue
        items.append((st["sc"], st["out"]))
    os.remove(dump)
    stats = {"checked": 0, "rejected": 0, "domain": 0, "rejected_examples": {}, "stacked": 0, "second_variant": 0, "measurement": 0, "steady_flat": 0, "steady_nonflat": 0, "rejected_other": 0}
    items.sort(key=lambda so: so[1]["text"])
    for i in range(0, len(items), 20):
        check_batch(chk, items[i:i + 20], stats)
    if stats["checked"] < len(items) // 3:
        raise MachineryError("AldiMC: only %d of %d trees could be checked" % (stats["checked"], len(items)))
    # the stacked-time Jacobian WITH the first-order terminal condition (fords/terminators.py): on the linear library models (leads, second
    # lead, second lag) one full Newton step from an arbitrary starting point must land on the exact path of the spec
    from . import C06
    dump2 = chk.scratch.file("lre.dump")
    r2 = tlc.must_pass(tlc.run("LinearREMC", "LinearREMC.cfg", chk.scratch, dump=dump2, timeout=1800), "LinearREMC")
    chk.add_tlc(r2, "LinearREMC")
    onestep = 0
    for st in tlaval.parse_dump(dump2, want=lambda b: "fin = TRUE" in b):
        sc2, out2, path2 = st["sc"], st["out"], dict(st["path"])
        if sc2["dev"] or not out2["linear"] or out2["fwd"] == 0:
            continue
        for cfg in C06.CONFIGS:
            if cfg[0] == C06.ONE_STEP and (thorough or (onestep + len(sc2["u"])) % 3 == 0):
                onestep += bool(C06.check_linear(chk, sc2, out2, path2, cfg, 4))
    os.remove(dump2)
    if not onestep:
        raise MachineryError("no one-Newton-step simulation ran")
    chk.replayed += onestep
    chk.notes["one_newton_step_simulations_on_linear_models"] = onestep
    chk.sample({"tree": items[len(items) // 2][1]["text"], "spec_derivatives": {"%s{%d}" % k: _plain(v) for k, v in dict(items[len(items) // 2][1]["d"]).items()}})
    chk.replayed += stats["checked"]
    chk.no_claim += stats["rejected"] + stats["domain"]
    chk.notes.update({"trees_checked_in_second_variant": stats["second_variant"], "trees_checked_in_measurement_block": stats["measurement"], "trees_checked_stacked_time_jacobian": stats["stacked"], "trees_checked_flat_steady_jacobian": stats["steady_flat"],
                      "trees_checked_nonflat_steady_jacobian": stats["steady_nonflat"], "evaluator_raised": stats["rejected_other"]})
    chk.notes.update({"trees_checked": stats["checked"], "trees_rejected_by_irispie": stats["rejected"], "outside_domain_or_at_kink": stats["domain"],
                      "rejected_examples": stats["rejected_examples"], "trees_in_spec_run": total})
    chk.exhaustive = thorough
    chk.rule = ("all leaves and depth-1 trees over + - * / ^, unary minus, log exp sqrt logistic abs normal_cdf normal_pdf maximum minimum on leaves "
                "{x, x{-1}, x{+1}, y (log-variable), y{-1}, p, 2, 1/2}, and depth-2 trees op(depth-1, leaf), op(leaf, depth-1), fn(depth-1) "
                "(all of them in the thorough tier, a seeded 6% in the quick tier); a case is one tree with its 5 partial derivatives")
    chk.assumptions = ["the evaluation point is x = 2, y = 3 at every shift (systemize evaluates at the stored steady values), p = 1/4 for systemize(); the stacked-time evaluator is given x = (1.5, 2, 2.5, 1.25, 3), y = (3, 2.5, 2, 4, 3.5) over five columns, "
                       "the steady evaluators x = 1.75 (+0.125 per period), y = 2.5 (x1.25 per period)",
                       "primitive function values (math/scipy) and the tree evaluator of the harness are trusted; a^b only for positive bases; kinks excluded"]


def replay(chk, s):
    raise MachineryError("re-run ./check C02 (trees are regenerated deterministically)")
