"""C06 - stacked-time / period-by-period simulations satisfy the equations; they equal the first-order simulation on linear models.

Specs: LinearREMC.tla (library incl. L4 with a second lead; the exact first-order path is the oracle for every linear model, and for L6 which
is linear in logs only), StackedMC.tla (nonlinear T1/T2 with exact rational paths designed backwards from the solution, anticipated vs
unanticipated = one frame vs a frame per surprise; T3 clause-only).  TLC checks Inv_StructuralHolds / Inv_DynamicEqHold on the spec paths.
Binding: every scenario is simulated by irispie under stacked_time (terminal x initial_guess) and, for backward-looking models,
period_by_period; the returned path is compared with the spec path, the frames reported by return_info with the spec's frame partition,
each frame's own databox with the written-back slices, measurement variables with their inputs; for T3 the clause of the statement is
evaluated on every frame with the terminal condition in force.
"""
import os, math, zlib
import numpy as np
import irispie as ir
from .. import tlc, tlaval
from ..common import MachineryError
from .C09 import _plain
from .lre_common import model, per, fr, quiet, level_of, state_of

SS = {"step_tolerance": 1e6}      # success is judged on the 1e-12 residual tolerance (neqs otherwise stops an exactly solved system with "cannot make further progress")
TOL = 1e-8
ONE_STEP = "stacked_time/one-newton-step"
CONFIGS = (("stacked_time", "first_order", "first_order"), ("stacked_time", "data", "first_order"),
           ("stacked_time", "first_order", "data"), ("stacked_time", "data", "data"), ("period_by_period", None, None),
           (ONE_STEP, "first_order", "data"), (ONE_STEP, "data", "data"),
           # the short names of the two methods
           ("stacked", "first_order", "first_order"), ("period", None, None))
STACKED = ("stacked_time", "stacked")
PBP = ("period_by_period", "period")


def simulate(chk, m, db, span, method, terminal, guess):
    kw = {"method": method, "return_info": True, "remove_terminal": False, "when_fails": "silent", "solver_settings": dict(SS)}
    if method == ONE_STEP:
        # the stacked system of a linear model is linear in the unknowns: ONE full Newton step from any starting point lands on the
        # solution if and only if the Jacobian (incl. the terminal-condition part) is the true one; success is not reported after one step
        kw["method"] = "stacked_time"
        kw["solver_settings"] = dict(SS, max_iterations=1)
        kw["terminal"], kw["initial_guess"] = terminal, guess
        sim, info = quiet(m.simulate, db, span, **kw)
        return sim, info
    if method in STACKED:
        kw["terminal"], kw["initial_guess"] = terminal, guess
    sim, info = quiet(m.simulate, db, span, **kw)
    if not all(s.is_success for s in info["exit_status"]):
        chk.no_claim += 1
        chk.notes.setdefault("not_successful", []).append("%s/%s/%s" % (method, terminal, guess))
        return None, None
    return sim, info


_NL = {}


def nl_model(src, **start):
    key = tuple(src)
    if key not in _NL:
        m = ir.Simultaneous.from_string("\n".join(src) + "\n")
        m.assign(**start)
        quiet(m.steady)
        m.solve()
        _NL[key] = m
    return _NL[key]


def get(db, n, k):
    return float(db[n].get_data(per(k))[0, 0])


def frames_ok(chk, tag, desc, payload, info, breaks, method, tn):
    got = [(f.start - per(1) + 1, f.end - per(1) + 1, f.simulation_end - per(1) + 1) for f in info["frames"]]
    if method in PBP:
        exp = [(k, k, k) for k in range(1, tn + 1)]
    else:
        b = sorted(breaks)
        exp = [(s, (b[i + 1] - 1 if i + 1 < len(b) else tn), tn) for i, s in enumerate(b)]
    if got != exp:
        chk.mismatch(tag + ":frames", desc + ": frames (start, end, simulation end) are %s, the unanticipated shocks imply %s" % (got, exp), payload)
        return None
    return got


def writeback_ok(chk, tag, desc, payload, sim, info, frames, names):
    for (s, e, _), fdb in zip(frames, info["frame_databoxes"]):
        for n in names:
            for k in range(s, e + 1):
                a, b = get(sim, n, k), get(fdb, n, k)
                if not (a == b or abs(a - b) <= 1e-12 * max(1.0, abs(b))):
                    chk.mismatch(tag + ":write-back", desc + ": %s in period %d is %r in the result, %r in the frame %d..%d that owns the period" % (n, k, a, b, s, e), payload)
                    return False
    return True


# ---- A: the linear library -------------------------------------------------------------------------------------
def check_linear(chk, sc, out, path, cfg, tn):
    method, terminal, guess = cfg
    payload = {"kind": "linear", "sc": _plain(sc), "cfg": list(cfg), "src": list(out["src"])}
    tag = "stacked:%s:%s:%s:%s" % (sc["id"], method, terminal, guess)
    desc = "model %s %s terminal=%s initial_guess=%s init=%s unanticipated=%s anticipated=%s" % (
        sc["id"], method, terminal, guess, _plain(sc["init"]), sorted(sc["u"]), sorted(sc["a"]))
    logv = set(out["logv"])
    try:
        m = model(out["src"], out["linear"])
        db = ir.Databox.steady(m, ir.Span(per(-1), per(tn + 3)))
        for j, n in enumerate(out["vars"]):
            for k in (-1, 0):
                db[n][per(k)] = level_of(n, logv, fr(path[k][j]), False)
            if terminal == "data":
                for jj in (1, 2):
                    db[n][per(tn + jj)] = level_of(n, logv, fr(out["cont"][jj - 1][j]), False)
            if guess == "data":
                for k in range(1, tn + 1):
                    db[n][per(k)] = level_of(n, logv, fr(out["steady"][j]), False) * (1.0 + 0.05 * k)
        for j, n in enumerate(out["shocks"]):
            for k in range(1, tn + 1):
                db[n][per(k)] = float(fr(out["u"][k - 1][j]))
                db["ant_" + n][per(k)] = float(fr(out["a"][k - 1][j]))
        for j, n in enumerate(out["mvars"]):
            db[n][per(2)] = 77.0 + j
        sim, info = simulate(chk, m, db, ir.Span(per(1), per(tn)), method, terminal, guess)
    except Exception as ex:
        chk.mismatch(tag + ":raised:" + type(ex).__name__, desc + ": raised %r" % (ex,), payload)
        return True             # a verdict was reached (the vacuity guard counts verdicts, not successes)
    if sim is None:
        return False
    # with terminal="data" every frame ends in the same input data, which is the first-order continuation of the last frame only
    comparable = terminal != "data" or len(out["breaks"]) == 1
    for j, n in enumerate(out["vars"] if comparable else ()):
        for k in range(1, tn + 1):
            e = float(fr(path[k][j]))
            g = state_of(n, logv, get(sim, n, k))
            if not abs(g - e) <= TOL * max(1.0, abs(e)):
                chk.mismatch(tag + ":path", desc + ": %s%s in period %d is %r, the first-order path of the same inputs is %r%s" % (
                    "log " if n in logv else "", n, k, g, e, " (after ONE Newton step from an arbitrary starting point: the stacked-time Jacobian is not the true one)" if method == ONE_STEP else ""), payload)
                return True
    for n in out["mvars"]:
        for k in range(1, tn + 1):
            if get(sim, n, k) != get(db, n, k):
                chk.mismatch(tag + ":measurement", desc + ": measurement variable %s in period %d was %r on input and is %r on output" % (n, k, get(db, n, k), get(sim, n, k)), payload)
                return True
    if method == ONE_STEP:
        return True
    fr_ = frames_ok(chk, tag, desc, payload, info, out["breaks"], method, tn)
    if fr_ is not None and writeback_ok(chk, tag, desc, payload, sim, info, fr_, list(out["vars"])):
        frame_clause_linear(chk, tag, desc, payload, out, db, sim, info, fr_, terminal if method in STACKED else "data", tn, logv)
    return True


def frame_clause_linear(chk, tag, desc, payload, out, db, sim, info, frames, terminal, tn, logv):
    """The statement itself, frame by frame: every structural equation (as written in the spec's library) holds in every period the frame simulates,
    with the shocks visible in the frame and the terminal condition in force."""
    names = list(out["vars"])
    T = np.array([[float(fr(v)) for v in row] for row in out["T"]])
    K = np.array([float(fr(v)) for v in out["K"]])
    for (s, e_, last), fdb in zip(frames, info["frame_databoxes"]):
        X = {}
        for k in range(-1, last + 1):
            src = fdb if k >= s else (sim if k >= 1 else db)
            X[k] = np.array([state_of(n, logv, get(src, n, k)) for n in names])
        for j in (1, 2):
            if terminal == "data":
                # period by period: the "terminal" of a one-period frame is whatever the data hold next (only backward-looking models get here)
                X[last + j] = np.array([state_of(n, logv, get(db if last + j > tn else fdb, n, last + j)) for n in names])
            else:
                X[last + j] = T @ X[last + j - 1] + K
        for k in range(s, last + 1):
            for i, q in enumerate(out["eqs"]):
                r = float(fr(q["c"]))
                for (cf, j, sh) in q["tx"]:
                    r += float(fr(cf)) * X[k + sh][j - 1]
                for (cf, j) in q["te"]:
                    r += float(fr(cf)) * (float(fr(out["a"][k - 1][j - 1])) + (float(fr(out["u"][k - 1][j - 1])) if k == s else 0.0))
                if not abs(r) <= TOL:
                    chk.mismatch(tag + ":equation", desc + ": in the frame %d..%d (simulated to %d) equation %d has residual %r in period %d" % (s, e_, last, i + 1, r, k), payload)
                    return False
    return True


# ---- B: nonlinear models with exact paths --------------------------------------------------------------------------
def check_exact(chk, sc, out, cfg, tn):
    method, terminal, guess = cfg
    mdl = sc["model"]
    payload = {"kind": "exact", "sc": _plain(sc), "cfg": list(cfg), "src": list(out["src"])}
    tag = "stacked:%s:%s:%s:%s:%s" % (mdl, sc["mode"], method, terminal, guess)
    desc = "model %s (%s) %s shocks=%s(%s) terminal=%s initial_guess=%s" % (mdl, " ".join(out["src"][5:]), method, _plain(out["e"]), sc["mode"], terminal, guess)
    if mdl == "T1":
        x = dict(out["x"])
        expect = {"x": [fr(x[k]) for k in range(1, tn + 1)], "y": [fr(v) for v in out["y"]]}
        init = {"x": fr(x[0]), "y": fr(x[0]) ** 2 - 1}
        term = {}
    else:
        z = dict(out["z"])
        expect = {"c": [fr(v) for v in out["c"]], "r": [fr(v) for v in out["r"]], "z": [fr(z[k]) for k in range(1, tn + 1)]}
        init = {"z": fr(z[0])}
        term = {"z": fr(z[tn + 1])}
    try:
        m = nl_model(out["src"], **({"x": 2.0, "y": 3.0} if mdl == "T1" else {"c": 2.0, "r": 3.0, "z": 0.0}))
        db = ir.Databox.steady(m, ir.Span(per(-1), per(tn + 3)))
        for n, v in init.items():
            db[n][per(0)] = float(v)
        if terminal == "data":
            for n, v in term.items():
                db[n][per(tn + 1)] = float(v)
        if guess == "data":
            for n in expect:
                for k in range(1, tn + 1):
                    db[n][per(k)] = get(db, n, k) * (1.0 + 0.03 * k) + 0.01
        sh = "ant_e" if sc["mode"] == "ant" else "e"
        for k in range(1, tn + 1):
            db[sh][per(k)] = float(fr(out["e"][k - 1]))
        sim, info = simulate(chk, m, db, ir.Span(per(1), per(tn)), method, terminal, guess)
    except Exception as ex:
        chk.mismatch(tag + ":raised:" + type(ex).__name__, desc + ": raised %r" % (ex,), payload)
        return True             # a verdict was reached (the vacuity guard counts verdicts, not successes)
    if sim is None:
        return False
    comparable = terminal != "data" or len(out["breaks"]) == 1
    for n, vals in (expect.items() if comparable else ()):
        for k in range(1, tn + 1):
            e, g = float(vals[k - 1]), get(sim, n, k)
            if not abs(g - e) <= TOL * max(1.0, abs(e)):
                chk.mismatch(tag + ":path", desc + ": %s in period %d is %r, the exact solution is %r" % (n, k, g, e), payload)
                return True
    fr_ = frames_ok(chk, tag, desc, payload, info, out["breaks"], method, tn)
    if fr_ is not None:
        writeback_ok(chk, tag, desc, payload, sim, info, fr_, list(expect))
    return True


# ---- C: clause-only model T3 ------------------------------------------------------------------------------------------
LAMBDA3 = min((r.real for r in np.roots([1.0, 1.0, -10.0, 4.0]) if abs(r) < 1), key=abs)


def t3_residual(x_m1, x0, x1, x2, e):
    return 1 + 0.4 * (x_m1 - 1) + 0.1 * math.log(x2) + 0.05 * (x1 * x1 - 1) + e - x0


def check_clause(chk, sc, out, cfg, tn):
    method, terminal, guess = cfg
    payload = {"kind": "clause", "sc": _plain(sc), "cfg": list(cfg), "src": list(out["src"])}
    tag = "stacked:T3:%s:%s:%s" % (method, terminal, guess)
    desc = "model T3 (%s) %s x0=%s unanticipated=%s anticipated=%s terminal=%s initial_guess=%s" % (
        out["src"][-1], method, _plain(sc["x0"]), _plain(out["u"]), _plain(out["a"]), terminal, guess)
    try:
        m = nl_model(out["src"], x=1.0)
        db = ir.Databox.steady(m, ir.Span(per(-1), per(tn + 3)))
        db["x"][per(0)] = float(fr(sc["x0"]))
        if terminal == "data":
            db["x"][per(tn + 1)] = 1.02
            db["x"][per(tn + 2)] = 0.99
        if guess == "data":
            for k in range(1, tn + 1):
                db["x"][per(k)] = 1.0 + 0.02 * k
        for k in range(1, tn + 1):
            db["e"][per(k)] = float(fr(out["u"][k - 1]))
            db["ant_e"][per(k)] = float(fr(out["a"][k - 1]))
        sim, info = simulate(chk, m, db, ir.Span(per(1), per(tn)), method, terminal, guess)
    except Exception as ex:
        chk.mismatch(tag + ":raised:" + type(ex).__name__, desc + ": raised %r" % (ex,), payload)
        return True             # a verdict was reached (the vacuity guard counts verdicts, not successes)
    if sim is None:
        return False
    fr_ = frames_ok(chk, tag, desc, payload, info, out["breaks"], method, tn)
    if fr_ is None:
        return True
    if not writeback_ok(chk, tag, desc, payload, sim, info, fr_, ["x"]):
        return True
    for (s, e_, _), fdb in zip(fr_, info["frame_databoxes"]):
        x = {k: get(fdb, "x", k) for k in range(s, tn + 1)}
        x[s - 1] = get(sim, "x", s - 1) if s > 1 else get(db, "x", 0)      # the frame databox covers the simulation span only
        for j in (1, 2):
            x[tn + j] = get(db, "x", tn + j) if terminal == "data" else 1.0 + LAMBDA3 ** j * (x[tn] - 1.0)
        for k in range(s, tn + 1):
            # shocks visible in this frame: anticipated ones, the surprise of the frame's first period, nothing later
            ek = float(fr(out["a"][k - 1])) + (float(fr(out["u"][k - 1])) if k == s else 0.0)
            res = t3_residual(x[k - 1], x[k], x[k + 1], x[k + 2], ek)
            if not abs(res) <= TOL:
                chk.mismatch(tag + ":equation", desc + ": in the frame %d..%d (simulated to %d) the equation has residual %r in period %d (x=%s)" % (
                    s, e_, tn, res, k, [round(x[i], 10) for i in sorted(x)]), payload)
                return True
    return True


# ---- A1b: very small surprises ----------------------------------------------------------------------------------------
def check_tiny(chk, sc, out, path0, tn):
    """The unanticipated shocks of the scenario scaled by 1e-9: a surprise is a surprise however small - the frames are those of the
    scenario - and, LinearRE being linear, the path is that of the same scenario without surprises (path0) up to about 1e-9."""
    payload = {"kind": "linear-tiny", "sc": _plain(sc), "src": list(out["src"])}
    tag = "stacked:%s:tiny-surprise" % sc["id"]
    desc = "model %s stacked_time init=%s unanticipated=%s scaled by 1e-9 anticipated=%s" % (sc["id"], _plain(sc["init"]), sorted(sc["u"]), sorted(sc["a"]))
    logv = set(out["logv"])
    try:
        m = model(out["src"], out["linear"])
        db = ir.Databox.steady(m, ir.Span(per(-1), per(tn + 3)))
        for j, n in enumerate(out["vars"]):
            for k in (-1, 0):
                db[n][per(k)] = level_of(n, logv, fr(path0[k][j]), False)
        for j, n in enumerate(out["shocks"]):
            for k in range(1, tn + 1):
                db[n][per(k)] = float(fr(out["u"][k - 1][j])) * 1e-9
                db["ant_" + n][per(k)] = float(fr(out["a"][k - 1][j]))
        sim, info = simulate(chk, m, db, ir.Span(per(1), per(tn)), "stacked_time", "first_order", "first_order")
    except Exception as ex:
        chk.mismatch(tag + ":raised:" + type(ex).__name__, desc + ": raised %r" % (ex,), payload)
        return True             # a verdict was reached (the vacuity guard counts verdicts, not successes)
    if sim is None:
        return False
    if frames_ok(chk, tag, desc, payload, info, out["breaks"], "stacked_time", tn) is None:
        return True
    for j, n in enumerate(out["vars"]):
        for k in range(1, tn + 1):
            e = float(fr(path0[k][j]))
            g = state_of(n, logv, get(sim, n, k))
            if not abs(g - e) <= 1e-7 * max(1.0, abs(e)):
                chk.mismatch(tag + ":path", desc + ": %s in period %d is %r, without surprises %r" % (n, k, g, e), payload)
                return True
    return True


# ---- A2: two variants in one call ---------------------------------------------------------------------------------
_PM2 = {}


def check_two_variants(chk, items, tn):
    """Two library models of the same shape as the two parameter variants of ONE parametric linear model, simulated in one stacked-time call
    on a two-variant databox whose variants have their surprises in different periods (so each variant has its own frames); the databox
    also carries parameter entries of its own - as Databox.steady leaves them - which are STALE (the other variant's values) and must not
    be used (parameters_from_data is off).  Every variant must follow the first-order path of its own model and inputs."""
    from .C01 import PARAM_SRC, param_values
    (sc1, out1, path1), (sc2, out2, path2) = items
    ids = (sc1["id"], sc2["id"])
    payload = {"kind": "linear-variants", "sc": [_plain(sc1), _plain(sc2)]}
    tag = "stacked-variants:%s+%s" % ids
    desc = ("one parametric linear model with two variants (coefficients of %s | %s), stacked_time on a two-variant databox with stale parameter entries; variant 0: init=%s unanticipated=%s "
            "anticipated=%s; variant 1: init=%s unanticipated=%s anticipated=%s" % (ids + (_plain(sc1["init"]), sorted(sc1["u"]), sorted(sc1["a"]), _plain(sc2["init"]), sorted(sc2["u"]), sorted(sc2["a"]))))
    try:
        if ids not in _PM2:
            m = ir.Simultaneous.from_string(PARAM_SRC, linear=True)
            m.alter_num_variants(2)
            pv = [param_values(out1), param_values(out2)]
            m.assign(**{n: [p_[n] for p_ in pv] for n in pv[0]})
            quiet(m.steady)
            m.solve()
            _PM2[ids] = (m, pv)
        m, pv = _PM2[ids]
        db = ir.Databox.steady(m, ir.Span(per(-1), per(tn + 3)))
        for n in pv[0]:
            db[n] = [pv[1][n], pv[0][n]]                    # stale: the other variant's value
        paths = (path1, path2)
        outs = (out1, out2)
        for k in (-1, 0):
            db["x"][per(k)] = [float(fr(p_[k][0])) for p_ in paths]
        for k in range(1, tn + 1):
            db["ex"][per(k)] = [float(fr(o["u"][k - 1][0])) for o in outs]
            db["ant_ex"][per(k)] = [float(fr(o["a"][k - 1][0])) for o in outs]
        sim, info = quiet(m.simulate, db, ir.Span(per(1), per(tn)), method="stacked_time", return_info=True, when_fails="silent", solver_settings=dict(SS))
    except Exception as ex:
        chk.mismatch(tag + ":raised:" + type(ex).__name__, desc + ": raised %r" % (ex,), payload)
        return
    for v, p_ in enumerate(paths):
        for k in range(1, tn + 1):
            e = float(fr(p_[k][0]))
            g = float(sim["x"].get_data(per(k))[0, v])
            if not abs(g - e) <= TOL * max(1.0, abs(e)):
                chk.mismatch(tag + ":path", desc + ": x of variant %d in period %d is %r, the first-order path of that variant's model and inputs is %r" % (v, k, g, e), payload)
                return


def run(chk):
    thorough = chk.tier == "thorough"
    dump = chk.scratch.file("lre.dump")
    r = tlc.must_pass(tlc.run("LinearREMC", "LinearREMC.thorough.cfg" if chk.tier == "thorough" else "LinearREMC.cfg", chk.scratch, dump=dump, timeout=3600), "LinearREMC")
    chk.add_tlc(r, "LinearREMC")
    n = done = 0
    per_cfg = {}
    by_id = {}
    by_key = {}
    i = 0
    for st in tlaval.parse_dump(dump, want=lambda b: "fin = TRUE" in b):
        sc, out, path = st["sc"], st["out"], dict(st["path"])
        if sc["dev"]:
            continue            # stacked time has no deviation mode
        i += 1
        if sc["id"] in ("L2", "L9"):
            by_id.setdefault(sc["id"], []).append((sc, out, path))
        if sc["id"] in ("L2", "L3", "L6"):
            by_key.setdefault((sc["id"], repr(_plain(sc["init"])), repr(sorted(sc["a"]))), {})[repr(sorted(sc["u"]))] = (sc, out, path)
        for ci, cfg in enumerate(CONFIGS):
            if cfg[0] in PBP and out["fwd"] != 0:
                continue
            if cfg[0] == ONE_STEP and not out["linear"]:
                continue            # L6 is linear in logs only: one step is not enough
            if not thorough and cfg[0] in ("stacked_time", "stacked", "period", ONE_STEP) and ci != 0 and (zlib.crc32(repr(_plain(sc)).encode()) + ci) % 4 != 0:
                continue
            ok = check_linear(chk, sc, out, path, cfg, 4)
            n += 1
            done += bool(ok)
            per_cfg[(sc["id"],) + cfg] = per_cfg.get((sc["id"],) + cfg, 0) + bool(ok)
        if i == 41:
            chk.sample({"scenario": _plain(sc), "source": list(out["src"]), "spec_path": {str(k): _plain(v) for k, v in sorted(path.items())},
                        "frame_breaks": sorted(out["breaks"])})
    os.remove(dump)
    # very small surprises: every scenario with surprises after the first period, against the same scenario without surprises
    ntiny = 0
    for key_, fam in sorted(by_key.items()):
        if "[]" not in fam:
            continue
        for ukey, (sc_, out_, path_) in sorted(fam.items()):
            if any(b > 1 for b in out_["breaks"]) and (thorough or ntiny < 12):
                check_tiny(chk, sc_, out_, fam["[]"][2], 4)
                ntiny += 1
    if not ntiny:
        raise MachineryError("LinearREMC: no scenario for the small-surprise check")
    chk.notes["small_surprise_simulations"] = ntiny
    chk.replayed += ntiny
    # two variants in one call: the k-th scenario of one model with a scenario of the other model whose surprises fall in other periods
    nv = 0
    for lst in by_id.values():
        lst.sort(key=lambda t: repr(_plain(t[0])))
    A, B = by_id.get("L2", []), by_id.get("L9", [])
    for k, ita in enumerate(A):
        if nv >= (400 if thorough else 40):
            break
        for d in range(1, len(B)):
            itb = B[(k + d * 7) % len(B)]
            if {e[0] for e in ita[0]["u"]} != {e[0] for e in itb[0]["u"]}:
                check_two_variants(chk, [ita, itb] if k % 2 == 0 else [itb, ita], 4)
                nv += 1
                break
    if not nv:
        raise MachineryError("LinearREMC: no pair of scenarios for the two-variant stacked-time simulation")
    chk.notes["two_variant_stacked_time_simulations"] = nv
    chk.replayed += nv
    dump = chk.scratch.file("stacked.dump")
    r = tlc.must_pass(tlc.run("StackedMC", "StackedMC.thorough.cfg" if thorough else "StackedMC.cfg", chk.scratch, dump=dump, workers=8, timeout=1800), "StackedMC")
    chk.add_tlc(r, "StackedMC")
    for st in tlaval.parse_dump(dump, want=lambda b: "done = TRUE" in b):
        sc, out = st["sc"], st["out"]
        if not out["holds"]:
            raise MachineryError("StackedMC: certificate false in dump")
        for cfg in CONFIGS:
            if cfg[0] == ONE_STEP or (cfg[0] in PBP and sc["model"] != "T1"):
                continue
            ok = (check_clause if sc["model"] == "T3" else check_exact)(chk, sc, out, cfg, 3)
            n += 1
            done += bool(ok)
            per_cfg[(sc["model"],) + cfg] = per_cfg.get((sc["model"],) + cfg, 0) + bool(ok)
        if sc["model"] == "T2" and len(chk.samples) < 2:
            chk.sample({"scenario": _plain(sc), "source": list(out["src"]), "spec_solution": {k: _plain(out[k]) for k in ("c", "r", "z", "e")},
                        "frame_breaks": sorted(out["breaks"])})
    os.remove(dump)
    vac = sorted(k for k, v in per_cfg.items() if v == 0)
    if vac:
        raise MachineryError("no successful simulation at all for %s (vacuous)" % (vac,))
    chk.replayed += done
    chk.notes["simulations_run"] = n
    chk.notes["simulations_successful"] = done
    chk.exhaustive = True
    chk.rule = ("6 linear/log-linear library models (level mode) x 3 initial windows x 4 unanticipated x 4 anticipated profiles, 4 periods; nonlinear T1 (backward), "
                "T2 (nonlinear static block + forward-looking block; inverse-designed shocks) in anticipated and unanticipated mode, T3 (nonlinear in first and second "
                "lead; clause-only), 3 periods; each under stacked_time x terminal {first_order, data} x initial_guess {first_order, data} and period_by_period "
                "for backward-looking models (quick: all configurations on a rotating quarter of the linear scenarios); a case is one successful simulation")
    chk.assumptions = ["models, shocks and initial conditions are those of the library; the damped Newton solver (neqs) and its convergence are trusted; "
                       "success is judged on the 1e-12 residual tolerance (step_tolerance disabled); comparison tolerance 1e-8"]


def replay(chk, s):
    raise MachineryError("re-run ./check C06 (scenarios are regenerated deterministically)")
