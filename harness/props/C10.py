"""C10 - a Series is a period-indexed map: reads, writes, alignment, trim, isolation.

Spec: Series.tla (operations as map transformers, laws of the property), SeriesStep.tla (every small series state x
every operation instance; laws checked by TLC), SeriesHist.tla (operation histories over several handles).
Binding: the dumped transitions and simulated histories are replayed through irispie.Series.
"""
import os, glob, math
import numpy as np
import irispie as ir
from .. import tlc, tlaval
from ..common import MachineryError
from .series_common import World, diff_series, snapshot, is_mv, val_to_float, close
from .C09 import _plain

FREQS = "QMDIYH"
NPROC = 14
PYBIN = {"add": lambda a, b: a + b, "sub": lambda a, b: a - b, "mul": lambda a, b: a * b}


def variants_arg(vs):
    if is_mv(vs):
        return None
    t = tuple(v - 1 for v in vs)
    return t[0] if len(t) == 1 and False else t


def apply_op(w, A, B, op, alt):
    """Apply the abstract operation to irispie objects. Returns (result_series_or_None, value_or_None)."""
    name = op[0]
    if name == "get":
        P = w.periods(op[1], as_span=alt)
        vs = variants_arg(op[2])
        # x[<tuple>] is read by Python as x[dates, variants]: a bare tuple of periods cannot be told apart
        # from that, so the [] form is exercised with a list (or a Span / single period)
        Pi = list(P) if isinstance(P, tuple) else P
        if vs is None:
            return None, (A[Pi] if alt else A.get_data(P))
        return None, (A[Pi, vs] if alt else A.get_data(P, vs))
    if name == "call":
        P = w.periods(op[1], as_span=alt)
        vs = variants_arg(op[2])
        return (A(P) if vs is None else A(P, vs)), None
    if name == "set":
        P = w.periods(op[1], as_span=alt)
        kind, x = op[2]
        X = val_to_float(x) if kind == "sc" else np.array([[val_to_float(v) for v in row] for row in x], dtype=float)
        vs = variants_arg(op[3])
        Pi = list(P) if isinstance(P, tuple) else P
        if vs is None:
            if alt:
                A[Pi] = X
            else:
                A.set_data(P, X)
        else:
            if alt:
                A[Pi, vs] = X
            else:
                A.set_data(P, X, vs)
        return None, None
    if name == "shift":
        if op[1] == "method":
            return _none(A.shift(op[2])), None
        return (A[op[2]] if alt else ir.shift(A, op[2])), None
    if name == "clip":
        lo = None if is_mv(op[1]) else w.per(op[1])
        hi = None if is_mv(op[2]) else w.per(op[2])
        return _none(A.clip(lo, hi)), None
    if name in ("overlay", "underlay"):
        if op[1] == "method":
            return _none(getattr(A, name)(B)), None
        return getattr(ir, name)(A, B), None
    if name == "hstack":
        return ((A | B) if alt else (A & B)), None
    if name == "binser":
        return PYBIN[op[1]](A, B), None
    if name == "binsc":
        return PYBIN[op[1]](A, op[2]), None
    if name == "rbinsc":
        return PYBIN[op[1]](op[2], A), None
    if name == "un":
        return {"neg": lambda: -A, "abs": lambda: abs(A), "pos": lambda: +A}[op[1]](), None
    if name == "elem":
        f, c = op[2], op[3]
        args = (c,) if f in ("maximum", "minimum") else ()
        if op[1] == "method":
            return _none(getattr(A, f)(*args)), None
        return getattr(ir, f)(A, *args), None
    if name == "stat":
        if op[1] == "method":
            return _none(getattr(A, op[2])()), None
        return getattr(ir, op[2])(A), None
    if name == "mov":
        fn = "mov_" + op[2]
        if op[1] == "method":
            return _none(getattr(A, fn)(window=-op[3])), None
        return getattr(ir, fn)(A, window=-op[3]), None
    if name == "fill":
        method, arg, sp = op[2], op[3], op[4]
        kw = {} if is_mv(sp) else {"span": ir.Span(w.per(sp[0]), w.per(sp[1]))}
        marg = B if method == "from_series" else (float(arg) if method == "constant" else None)
        if op[1] == "method":
            return _none(A.fill_missing(method, marg, **kw)), None
        return ir.fill_missing(A, method, marg, **kw), None
    if name == "extrap":
        rho, c, lo, hi = op[2], op[3], op[4], op[5]
        span = ir.Span(w.per(lo), w.per(hi))
        if op[1] == "method":
            return _none(A.extrapolate(tuple(float(r) for r in rho), span, intercept=float(c))), None
        return ir.extrapolate(A, tuple(float(r) for r in rho), span, intercept=float(c)), None
    if name == "copy":
        return A.copy(), None
    if name == "rebuild":
        # a new series from the start period and the data array of an existing one (its own storage must not be adopted)
        return (ir.Series(num_variants=A.num_variants) if A.start is None else ir.Series(start=A.start, values=A.data)), None
    if name == "rw":
        new = math.nan if is_mv(op[2]) else float(op[2])
        return _none(A.replace_where((lambda x: x < 0) if op[1] == "neg" else (lambda x: x > 0), new)), None
    raise MachineryError("unknown series op %r" % (op,))


def _none(x):
    if x is not None:
        raise AssertionError("method form returned %r instead of None" % type(x).__name__)
    return None


def op_tag(op):
    name = op[0]
    if name in ("shift", "overlay", "underlay"):
        return "%s/%s" % (name, op[1])
    if name in ("elem", "stat", "mov", "fill"):
        return "%s/%s/%s" % (name, op[1], op[2])
    if name == "extrap":
        return "extrap/%s" % op[1]
    if name in ("binser", "binsc", "rbinsc", "un", "rw"):
        return "%s/%s" % (name, op[1])
    return name


def diff_value(val, spec):
    arr = np.asarray(val, dtype=float)
    exp = np.array([[val_to_float(v) for v in row] for row in spec], dtype=float).reshape(len(spec), -1)
    if arr.shape != exp.shape:
        return "returned data of shape %r, spec %r" % (arr.shape, exp.shape)
    for i in range(exp.shape[0]):
        for j in range(exp.shape[1]):
            a, e = arr[i, j], exp[i, j]
            if math.isnan(e) != math.isnan(a) or (not math.isnan(e) and not close(a, e)):
                return "returned %r at row %d column %d, spec %r" % (a, i, j, e)
    return None


def check_step(chk, st, f, alt):
    ca, cb, op, post = st["ca"], st["cb"], st["op"], st["post"]
    w = World(f)
    tag = op_tag(op)
    payload = {"kind": "series-step", "freq": f, "alt": alt, "a": _plain(ca), "b": _plain(cb), "op": _plain(op), "post": _plain(post)}
    empty = "empty" if is_mv(ca["start"]) else "nonempty"
    desc = "%s on a=%s b=%s (%s)" % (_plain(op), _plain(ca), _plain(cb), f)
    try:
        A, B = w.build(ca), w.build(cb)
    except Exception as ex:
        chk.mismatch("series:build:%s" % type(ex).__name__, "building %s raised %r" % (_plain(ca), ex), payload)
        return
    d = diff_series(w, A, ca, True, "fresh series")
    if d:
        chk.mismatch("series:build", d, payload)
        return
    snapA, snapB = snapshot(w, A), snapshot(w, B)
    try:
        res, val = apply_op(w, A, B, op, alt)
        raised = None
    except MachineryError:
        raise
    except Exception as ex:
        res, val, raised = None, None, ex
    if post["rej"]:
        if raised is None:
            chk.mismatch("series:%s:not-rejected" % tag, desc + ": should be rejected", payload)
        return
    if raised is not None:
        chk.mismatch("series:%s:%s:raised:%s" % (tag, empty, type(raised).__name__), desc + ": raised %r" % (raised,), payload)
        return
    # frame: the argument is never modified
    if snapshot(w, B) != snapB:
        chk.mismatch("series:%s:argument-modified" % tag, desc + ": the argument series was modified: %r -> %r" % (snapB, snapshot(w, B)), payload)
    functional = not is_mv(post["res"]) or not is_mv(post["val"])
    if functional and snapshot(w, A) != snapA:
        chk.mismatch("series:%s:receiver-modified" % tag, desc + ": functional form modified its input: %r -> %r" % (snapA, snapshot(w, A)), payload)
    d = diff_series(w, A, post["a"], post["exact_a"], "receiver")
    if d:
        chk.mismatch("series:%s:receiver" % tag, desc + ": " + d, payload)
    if not is_mv(post["res"]):
        d = diff_series(w, res, post["res"], post["exact_res"], "result")
        if d:
            chk.mismatch("series:%s:result" % tag, desc + ": " + d, payload)
        elif res is A or res is B or (res.data.size and (np.shares_memory(res.data, A.data) or np.shares_memory(res.data, B.data))):
            chk.mismatch("series:%s:alias" % tag, desc + ": the result shares storage with an input", payload)
    elif res is not None:
        chk.mismatch("series:%s:unexpected-result" % tag, desc + ": returned %r" % type(res).__name__, payload)
    if not is_mv(post["val"]):
        d = diff_value(val, post["val"])
        if d:
            chk.mismatch("series:%s:value" % tag, desc + ": " + d, payload)


def check_history(chk, states, f):
    """Replay one simulated behaviour of SeriesHist: all handles are compared after every step."""
    w = World(f)
    handles = sorted(states[0]["cs"])
    ops = [_plain(s["last"]) for s in states[1:]]
    payload = {"kind": "series-hist", "freq": f, "init": _plain(states[0]["cs"]), "ops": ops}
    objs = {h: w.build(states[0]["cs"][h]) for h in handles}
    for i, st in enumerate(states[1:], 1):
        op, r, g, k = st["last"]
        tag = op_tag(op)
        where = "step %d %s recv=%s arg=%s target=%s of history %s from %s (%s)" % (i, _plain(op), r, g, k, ops[:i], _plain(states[0]["cs"]), f)
        try:
            res, val = apply_op(w, objs[r], objs[g], op, alt=bool(i % 2))
        except MachineryError:
            raise
        except Exception as ex:
            chk.mismatch("series-hist:%s:raised:%s" % (tag, type(ex).__name__), where + ": raised %r" % (ex,), payload)
            return
        if not is_mv(st["val"]):
            d = diff_value(val, st["val"])
            if d:
                chk.mismatch("series-hist:%s:value" % tag, where + ": " + d, payload)
                return
        if res is not None:
            if any(res is o for o in objs.values()):
                chk.mismatch("series-hist:%s:alias" % tag, where + ": returned one of the existing objects", payload)
                return
            objs[k] = res
        for h in handles:
            d = diff_series(w, objs[h], st["cs"][h], h not in st["loose"], "handle " + h)
            if d:
                kind = "target" if h == k else ("receiver" if h == r else "bystander")
                chk.mismatch("series-hist:%s:%s" % (tag, kind), where + ": " + d, payload)
                return
        for a in handles:
            for b in handles:
                if a < b and objs[a].data.size and objs[b].data.size and np.shares_memory(objs[a].data, objs[b].data):
                    chk.mismatch("series-hist:%s:shared-storage" % tag, where + ": handles %s and %s share storage" % (a, b), payload)
                    return


# ---- code -> spec: recorded histories validated by TLC against TraceSeries.tla ----------------------------------------------
T_ULO, T_UHI, T_MARGIN = -14, 32, 5
T_HANDLES = ("h1", "h2", "h3", "h4")
NAN, NONE = tlaval.MV("NaN"), tlaval.MV("None")


def _canon_of(w, x):
    """Stored form of a real Series as the spec's canonical record; None if a value is not an integer (cannot be a spec value)."""
    nv, start, rows = w.project(x)
    out = []
    for row in rows:
        r = []
        for v in row:
            if isinstance(v, float) and math.isnan(v):
                r.append(NAN)
            elif float(v) == int(v) and abs(v) < 2 ** 30:
                r.append(int(v))
            else:
                return None
        out.append(tuple(r))
    return {"nv": nv, "start": NONE if start is None else int(start), "rows": tuple(out)}


def _rand_series(rnd):
    nv = rnd.choice((1, 1, 2, 3))
    n = rnd.choice((0, 1, 2, 3, 4, 6))
    if n == 0:
        return {"nv": nv, "start": NONE, "rows": ()}
    rows = [[rnd.choice((NAN, NAN, rnd.randint(-9, 9))) for _ in range(nv)] for _ in range(n)]
    for edge in (0, n - 1):
        if all(v is NAN for v in rows[edge]):
            rows[edge][rnd.randrange(nv)] = rnd.randint(-9, 9)
    return {"nv": nv, "start": rnd.randint(-4, 10), "rows": tuple(tuple(r) for r in rows)}


def _rand_op(rnd, nvA, nvB):
    """An operation in the encoding of SeriesHist.Ops, with wider parameters than the model-checked configuration."""
    form = rnd.choice(("method", "func"))
    per = lambda: rnd.randint(-6, 24)
    vs = lambda: NONE if nvA == 1 or rnd.random() < 0.5 else tuple(sorted(rnd.sample(range(1, nvA + 1), rnd.randint(1, nvA))))
    kind = rnd.choice(("get", "call", "set", "set", "shift", "clip", "un", "elem", "binsc", "rbinsc", "stat", "mov", "fill", "extrap", "copy", "rebuild", "rw",
                       "overlay", "underlay", "hstack", "binser", "binser"))
    if kind == "get":
        return ("get", tuple(per() for _ in range(rnd.randint(1, 4))), vs())
    if kind == "call":
        return ("call", tuple(sorted(rnd.sample(range(-6, 25), rnd.randint(1, 4)))), NONE)
    if kind == "set":
        P = tuple(rnd.sample(range(-4, 20), rnd.randint(1, 3)))
        V = vs()
        ncol = nvA if V is NONE else len(V)
        val = lambda: rnd.choice((NAN, rnd.randint(-9, 9), rnd.randint(-9, 9)))
        if rnd.random() < 0.5:
            return ("set", P, ("sc", val()), V)
        nc = rnd.choice((1, ncol))
        return ("set", P, ("mx", tuple(tuple(val() for _ in range(nc)) for _ in P)), V)
    if kind == "shift":
        return ("shift", form, rnd.choice((-3, -2, -1, 1, 2, 3)))
    if kind == "clip":
        lo, hi = sorted((per(), per()))
        return ("clip", rnd.choice((NONE, lo)), rnd.choice((NONE, hi)))
    if kind == "un":
        return ("un", rnd.choice(("neg", "abs", "pos")))
    if kind == "elem":
        f = rnd.choice(("abs", "maximum", "minimum"))
        return ("elem", form, f, 0 if f == "abs" else rnd.randint(-3, 3))
    if kind in ("binsc", "rbinsc"):
        return (kind, rnd.choice(("add", "sub", "mul")), rnd.randint(-3, 3))
    if kind == "stat":
        return ("stat", form, rnd.choice(("sum", "max", "min", "nansum", "nanmax", "nanmin")))
    if kind == "mov":
        return ("mov", form, "sum", rnd.randint(2, 3))
    if kind == "fill":
        lo = per()
        sp = rnd.choice((NONE, (lo, lo + rnd.randint(0, 5))))
        m = rnd.choice(("constant", "previous", "next") + (("from_series",) if nvB == 1 else ()))
        return ("fill", form, m, rnd.randint(-9, 9) if m == "constant" else 0, sp)
    if kind == "extrap":
        lo = rnd.randint(-2, 18)
        return ("extrap", form, tuple(rnd.randint(-2, 2) for _ in range(rnd.randint(1, 2))), rnd.randint(-2, 2), lo, lo + rnd.randint(0, 2))
    if kind == "copy":
        return ("copy",)
    if kind == "rebuild":
        return ("rebuild",)
    if kind == "rw":
        return ("rw", rnd.choice(("neg", "pos")), rnd.choice((NAN, 0, rnd.randint(-9, 9))))
    if kind in ("overlay", "underlay"):
        return (kind, form)
    if kind == "hstack":
        return ("hstack",)
    return ("binser", rnd.choice(("add", "sub", "mul")))


def _uses_b(op):
    return op[0] in ("overlay", "underlay", "hstack", "binser") or (op[0] == "fill" and op[2] == "from_series")


def _has_result(op):
    return op[0] in ("call", "hstack", "binser", "binsc", "rbinsc", "un", "copy", "rebuild") or (op[0] in ("shift", "overlay", "underlay", "elem", "stat", "mov", "fill", "extrap") and op[1] == "func")


def _loose_after(loose, op, r, k):
    """Port of SeriesHist.NewLoose, used only to keep the driver inside the operations the spec enables."""
    exact_a = not (op[0] == "clip" or (op[0] == "elem" and op[1] == "method"))
    exact_res = not (op[0] == "elem" and op[1] == "func")
    la_a = (r in loose and op[0] in ("get", "call", "copy", "un", "binsc", "rbinsc", "stat", "mov", "overlay", "underlay", "hstack", "binser", "fill", "extrap", "shift", "elem")) or not exact_a
    la_res = not exact_res or (r in loose and op[0] in ("copy", "shift", "elem"))
    loose = set(loose)
    if not _has_result(op):
        if op[0] in ("set", "fill", "extrap", "stat", "mov", "overlay", "underlay") and not la_a:
            loose.discard(r)
        elif la_a:
            loose.add(r)
    elif la_res:
        loose.add(k)
    else:
        loose.discard(k)
    return loose


def rerecord_trace(f, trace):
    """Re-drive real Series objects through the operations of a stored trace (for --replay)."""
    w = World(f)
    init = trace["init"]
    objs = {h: w.build(init[h]) for h in T_HANDLES}
    steps = []
    for st in trace["steps"]:
        op, r, g, k = st["op"], st["r"], st["g"], st["k"]
        raised = False
        try:
            res, val = apply_op(w, objs[r], objs[g], op, alt=bool(st.get("alt")))
        except MachineryError:
            raise
        except Exception:
            res, val, raised = None, None, True
        if not raised and res is not None:
            objs[k] = res
        cs = {h: _canon_of(w, objs[h]) for h in T_HANDLES}
        if any(c is None for c in cs.values()):
            return {"init": init, "steps": tuple(steps)}, "after %r on %s a value is not an integer: %r" % (_plain(op), r, {h: w.project(objs[h]) for h in T_HANDLES})
        v = NONE
        if op[0] == "get" and not raised:
            arr = np.asarray(val, dtype=float).reshape(len(op[1]), -1)
            v = tuple(tuple(NAN if math.isnan(x) else int(x) for x in row) for row in arr)
        steps.append({"op": op, "r": r, "g": g, "k": k, "raised": raised, "cs": cs, "val": v, "alt": bool(st.get("alt"))})
    return {"init": init, "steps": tuple(steps)}, None


def record_trace(rnd, f, nsteps):
    """Drive real Series objects; returns (trace record for TLC, python-level problem or None)."""
    w = World(f)
    init = {h: _rand_series(rnd) for h in T_HANDLES}
    objs = {h: w.build(init[h]) for h in T_HANDLES}
    loose = set()
    steps = []
    for _ in range(nsteps):
        r = rnd.choice(T_HANDLES)
        nvA = objs[r].shape[1]
        g = rnd.choice([h for h in T_HANDLES if h != r])
        op = _rand_op(rnd, nvA, objs[g].shape[1])
        if not _uses_b(op):
            g = r
        else:
            nvB = objs[g].shape[1]
            compatible = nvA == nvB or nvA == 1 or nvB == 1
            if op[0] == "hstack" and nvA + nvB > 4:
                continue
            if op[0] != "hstack" and not compatible and rnd.random() < 0.8:
                continue                      # a few incompatible pairs are kept: the spec says they are rejected
        if r in loose and ((op[0] == "fill" and op[4] is NONE) or (op[0] == "stat" and op[2].startswith("nan")) or op[0] == "underlay"):
            continue
        if g in loose and op[0] == "overlay":
            continue
        k = rnd.choice(T_HANDLES) if _has_result(op) else r
        raised = False
        alt = rnd.random() < 0.5
        try:
            res, val = apply_op(w, objs[r], objs[g], op, alt=alt)
        except MachineryError:
            raise
        except Exception:
            res, val, raised = None, None, True
        if not raised:
            if res is not None:
                objs[k] = res
            loose = _loose_after(loose, op, r, k)
        cs = {h: _canon_of(w, objs[h]) for h in T_HANDLES}
        if any(c is None for c in cs.values()):
            return {"init": init, "steps": tuple(steps)}, "after %r on %s a value is not an integer: %r" % (_plain(op), r, {h: w.project(objs[h]) for h in T_HANDLES})
        big = any(isinstance(v, int) and abs(v) > 10 ** 6 for c in cs.values() for row in c["rows"] for v in row)
        out = any(c["start"] is not NONE and (c["start"] < T_ULO + T_MARGIN or c["start"] + len(c["rows"]) - 1 > T_UHI - T_MARGIN) for c in cs.values())
        far = [h for h, c in cs.items() if c["start"] is not NONE and (c["start"] < T_ULO - 60 or c["start"] + len(c["rows"]) - 1 > T_UHI + 60)]
        if far:
            # shifts, windows and spans of this driver move a series by a few periods at a time: this is no edge effect
            return {"init": init, "steps": tuple(steps)}, "after %r on %s the series %s starts %s periods from the base period, where no operation of this history can have put it" % (
                _plain(op), r, far[0], cs[far[0]]["start"])
        if big or out:
            break                              # leave the window the spec instance covers: the trace ends before this step
        v = NONE
        if op[0] == "get" and not raised:
            arr = np.asarray(val, dtype=float).reshape(len(op[1]), -1)
            v = tuple(tuple(NAN if math.isnan(x) else int(x) for x in row) for row in arr)
        steps.append({"op": op, "r": r, "g": g, "k": k, "raised": raised, "cs": cs, "val": v, "alt": alt})
    return {"init": init, "steps": tuple(steps)}, None


def trace_direction(chk, ntraces, nsteps):
    import random
    from .. import tracecheck
    rnd = random.Random(chk.seed * 7919 + 10)
    traces, freqs = [], []
    for i in range(ntraces):
        f = FREQS[i % 6]
        t, problem = record_trace(rnd, f, nsteps)
        if problem:
            chk.mismatch("series-trace:non-integer", "recorded history (%s): %s" % (f, problem), {"kind": "series-trace", "freq": f, "trace": _plain(t)})
            continue
        traces.append(t)
        freqs.append(f)
    validate_traces(chk, traces, freqs, selftest=True)


def validate_traces(chk, traces, freqs, selftest):
    from .. import tracecheck
    defs = {"TULo": str(T_ULO), "TUHi": str(T_UHI), "THandles": tlaval.to_tla(set(T_HANDLES))}
    rejected, _, r = tracecheck.validate_literal_parallel("TraceSeries", "TraceSeries.cfg", "Series", defs, traces, chk.scratch, chunks=12, timeout=3600)
    diags = []
    if rejected:      # second pass over the rejected traces only, with the diagnostic action that prints what the spec predicted
        idx = sorted(rejected)
        _, d2, _ = tracecheck.validate_literal("TraceSeries", "TraceSeriesDiag.cfg", "Series", defs, [traces[i] for i in idx], chk.scratch, timeout=1800, tag="diag")
        diags = [(x[0], idx[x[1] - 1] + 1) + tuple(x[2:]) for x in d2 if isinstance(x, tuple) and len(x) > 2 and isinstance(x[1], int)]
    nsteps_total = sum(len(t["steps"]) for t in traces)
    chk.tlc_runs.append({"run": "TraceSeries (recorded histories)", "generated": r.generated, "distinct": r.distinct, "traces": len(traces),
                         "steps": nsteps_total, "wall_s": round(r.wall, 1)})
    chk.states += r.distinct
    chk.transitions += r.generated
    not_enabled = 0
    for i, line in sorted(rejected.items()):
        t = traces[i]
        d = [x for x in diags if isinstance(x, tuple) and len(x) > 2 and x[1] == i + 1 and x[2] == line]
        if d and d[0][0] == "NOTENABLED":
            not_enabled += 1               # the driver issued an operation outside the spec's enabling condition: no claim about the rest
            continue
        st = t["steps"][line - 1] if 0 < line <= len(t["steps"]) else None
        pred = _plain(d[0][3:]) if d else "?"
        what = ("recorded history (%s) is not a behaviour of SeriesHist: step %d %s recv=%s arg=%s target=%s raised=%s; observed afterwards %s value %s; "
                "the spec predicts (handles, value, loose) %s; history so far %s from %s" % (
                    freqs[i], line, _plain(st["op"]) if st else "?", st and st["r"], st and st["g"], st and st["k"], st and st["raised"],
                    _plain(st["cs"]) if st else "?", _plain(st["val"]) if st else "?", pred,
                    [_plain(s["op"]) for s in t["steps"][:line - 1]], _plain(t["init"])))
        chk.mismatch("series-trace:%s" % (op_tag(st["op"]) if st else "?"), what, {"kind": "series-trace", "freq": freqs[i], "trace": _plain(t), "line": line})
    # the binding itself: a recorded history with ONE field corrupted must be rejected at exactly that line
    import copy
    corrupted, expect = [], []
    for i, t in enumerate(traces if selftest else ()):
        if i in rejected or len(t["steps"]) < 6:
            continue
        for j in (len(t["steps"]) // 2, len(t["steps"]) - 1):
            st = t["steps"][j]
            target = next((h for h in T_HANDLES if not is_mv(st["cs"][h]["start"])), None)
            if target is None:
                continue
            c = copy.deepcopy(t)
            rows = [list(r) for r in c["steps"][j]["cs"][target]["rows"]]
            rows[0][0] = 77 if is_mv(rows[0][0]) else rows[0][0] + 1
            c["steps"][j]["cs"][target]["rows"] = tuple(tuple(r) for r in rows)
            corrupted.append(c)
            expect.append(j + 1)
        if len(corrupted) >= 4:
            break
    if corrupted:
        rej2, _, _ = tracecheck.validate_literal("TraceSeries", "TraceSeries.cfg", "Series", defs, corrupted, chk.scratch, timeout=1800, tag="corrupt")
        got = [rej2.get(i) for i in range(len(corrupted))]
        if got != expect:
            raise MachineryError("TraceSeries: corrupted histories were rejected at lines %s, expected %s (trace validation does not bind)" % (got, expect))
        chk.notes["corrupted_histories_rejected"] = len(corrupted)
    if not_enabled > len(traces) // 5:
        raise MachineryError("TraceSeries: %d of %d traces left the spec's enabling conditions (driver out of sync with SeriesHist.Pre)" % (not_enabled, len(traces)))
    chk.traces += len(traces) - not_enabled
    chk.notes["recorded_histories_validated_by_tlc"] = len(traces) - not_enabled
    chk.notes["recorded_steps"] = nsteps_total
    chk.notes["recorded_histories_truncated_not_enabled"] = not_enabled


def run(chk):
    thorough = chk.tier == "thorough"
    dump = chk.scratch.file("series.dump")
    r = tlc.must_pass(tlc.run("SeriesStep", "SeriesStep.%s.cfg" % chk.tier, chk.scratch, dump=dump, timeout=7200, heap="12g"), "SeriesStep")
    chk.add_tlc(r, "SeriesStep/" + chk.tier)
    # the transitions are replayed by a pool of processes, each streaming the dump and taking every NPROC-th computed state
    from .. import parallel
    nfreq = 6 if thorough else 4
    def worker(states, shard):
        class Local:
            def __init__(self):
                self.mismatches, self.samples = [], []
            def mismatch(self, fp, what, payload):
                if sum(1 for m in self.mismatches if m["fingerprint"] == fp) < 3:
                    self.mismatches.append({"fingerprint": fp, "what": what, "payload": payload})
        loc, k = Local(), 0
        for st in states:
            if not st["post"]["laws"]:
                raise MachineryError("SeriesStep: laws false in dump")
            j = k * NPROC + shard
            check_step(loc, st, FREQS[j % nfreq], alt=bool((j // 6) % 2))
            if j in (777, 30001):
                loc.samples.append({"series_step": {"a": _plain(st["ca"]), "b": _plain(st["cb"]), "op": _plain(st["op"]), "spec_post": _plain(st["post"])}})
            k += 1
        return k, loc.mismatches, loc.samples
    n = 0
    for k, mm, ss in parallel.map_dump(dump, lambda b: "done = TRUE" in b, worker, nproc=NPROC):
        n += k
        chk.mismatches.extend(mm)
        for x in ss:
            chk.sample(x)
    os.remove(dump)
    if n * 2 != r.distinct:
        raise MachineryError("SeriesStep: %d transitions parsed, %d states reported" % (n, r.distinct))
    chk.replayed += n
    chk.notes["series_transitions_replayed"] = n
    # histories over three handles (isolation between copies / functional results and their inputs)
    simdir = chk.scratch.sub("sim")
    num = 6000 if thorough else 600
    r = tlc.run("SeriesHist", "SeriesHist.cfg", chk.scratch, workers=1, simulate="file=%s/tr,num=%d" % (simdir, num),
                depth=12, seed=chk.seed % 10**6, timeout=3600)
    if r.violated or r.error:
        raise MachineryError("SeriesHist simulation failed:\n" + r.out[-2000:])
    files = sorted(glob.glob(simdir + "/tr_*"))
    if len(files) < num // 2:
        raise MachineryError("SeriesHist simulation produced only %d behaviours" % len(files))
    chk.states += r.generated
    chk.transitions += r.generated
    chk.tlc_runs.append({"run": "SeriesHist/simulate", "generated": r.generated, "behaviours": len(files), "wall_s": round(r.wall, 1)})
    for i, fn in enumerate(files):
        states = tlaval.parse_sim_file(fn)
        check_history(chk, states, FREQS[i % 6])
        if i == 1:
            chk.sample({"series_history": {"init": _plain(states[0]["cs"]), "ops": [_plain(s["last"]) for s in states[1:]],
                                           "final": _plain(states[-1]["cs"])}})
    chk.replayed += len(files)
    chk.notes["series_histories_replayed"] = len(files)
    trace_direction(chk, 1500 if thorough else 250, 30)
    chk.exhaustive = True
    chk.rule = ("every series state with observations in a 3-period (1 variant) / 2-period (2 variants) window [quick; 4/3 thorough] over "
                "values {NaN, 2, -3} x every operation instance of SeriesStep (get/call/set/shift/clip/overlay/underlay/hstack/arithmetic/"
                "element-wise/statistics/moving/fill/extrapolate/copy, method and functional forms), each replayed in one of 4-6 frequencies; "
                "a case is one (state, operation) transition")
    chk.assumptions = ["numpy element-wise primitives are trusted; values are small integers so all results are exact",
                       "span after clip and after element-wise methods need only cover the observations (statement: trimmed after writes and arithmetic)",
                       "fill_missing('nearest') ties and 'linear' beyond the last observation (flat) follow the implementation's documented table loosely"]


def replay(chk, sc):
    if sc.get("kind") == "series-trace":
        t, problem = rerecord_trace(sc["freq"], _unplain(sc["trace"]))
        if problem:
            chk.mismatch("series-trace:non-integer", "recorded history (%s): %s" % (sc["freq"], problem), sc)
        else:
            validate_traces(chk, [t], [sc["freq"]], selftest=False)
        return
    st = {"ca": _unplain(sc["a"]), "cb": _unplain(sc["b"]), "op": _unplain(sc["op"]), "post": _unplain(sc["post"])}
    check_step(chk, st, sc["freq"], sc["alt"])
    chk.replayed += 1
    chk.states = chk.transitions = 1
    chk.sample(sc)


_MVS = {"NaN", "None", "NoSer", "NoVal", "AnyVal"}


def _unplain(v):
    if isinstance(v, dict):
        return tlaval._Rec({k: _unplain(x) for k, x in v.items()})
    if isinstance(v, list):
        return tuple(_unplain(x) for x in v)
    if isinstance(v, str) and v in _MVS:
        return tlaval.MV(v)
    return v
