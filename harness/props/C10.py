"""C10 - a Series is a period-indexed map: reads, writes, alignment, trim, isolation.

Spec: Series.tla (operations as map transformers, laws of the property), SeriesStep.tla (every small series state x
every operation instance; laws checked by TLC), SeriesHist.tla (operation histories over several handles).
Binding: the dumped transitions and simulated histories are replayed through irispie.Series.
"""
import os, glob, math
import numpy as np
import irispie as ir
from .. import tlc, tlaval
from ..common import MachineryError
from .series_common import World, diff_series, snapshot, is_mv, val_to_float, close
from .C09 import _plain

FREQS = "QMDIYH"
PYBIN = {"add": lambda a, b: a + b, "sub": lambda a, b: a - b, "mul": lambda a, b: a * b}


def variants_arg(vs):
    if is_mv(vs):
        return None
    t = tuple(v - 1 for v in vs)
    return t[0] if len(t) == 1 and False else t


def apply_op(w, A, B, op, alt):
    """Apply the abstract operation to irispie objects. Returns (result_series_or_None, value_or_None)."""
    name = op[0]
    if name == "get":
        P = w.periods(op[1], as_span=alt)
        vs = variants_arg(op[2])
        # x[<tuple>] is read by Python as x[dates, variants]: a bare tuple of periods cannot be told apart
        # from that, so the [] form is exercised with a list (or a Span / single period)
        Pi = list(P) if isinstance(P, tuple) else P
        if vs is None:
            return None, (A[Pi] if alt else A.get_data(P))
        return None, (A[Pi, vs] if alt else A.get_data(P, vs))
    if name == "call":
        P = w.periods(op[1], as_span=alt)
        vs = variants_arg(op[2])
        return (A(P) if vs is None else A(P, vs)), None
    if name == "set":
        P = w.periods(op[1], as_span=alt)
        kind, x = op[2]
        X = val_to_float(x) if kind == "sc" else np.array([[val_to_float(v) for v in row] for row in x], dtype=float)
        vs = variants_arg(op[3])
        Pi = list(P) if isinstance(P, tuple) else P
        if vs is None:
            if alt:
                A[Pi] = X
            else:
                A.set_data(P, X)
        else:
            if alt:
                A[Pi, vs] = X
            else:
                A.set_data(P, X, vs)
        return None, None
    if name == "shift":
        if op[1] == "method":
            return _none(A.shift(op[2])), None
        return (A[op[2]] if alt else ir.shift(A, op[2])), None
    if name == "clip":
        lo = None if is_mv(op[1]) else w.per(op[1])
        hi = None if is_mv(op[2]) else w.per(op[2])
        return _none(A.clip(lo, hi)), None
    if name in ("overlay", "underlay"):
        if op[1] == "method":
            return _none(getattr(A, name)(B)), None
        return getattr(ir, name)(A, B), None
    if name == "hstack":
        return ((A | B) if alt else (A & B)), None
    if name == "binser":
        return PYBIN[op[1]](A, B), None
    if name == "binsc":
        return PYBIN[op[1]](A, op[2]), None
    if name == "rbinsc":
        return PYBIN[op[1]](op[2], A), None
    if name == "un":
        return {"neg": lambda: -A, "abs": lambda: abs(A), "pos": lambda: +A}[op[1]](), None
    if name == "elem":
        f, c = op[2], op[3]
        args = (c,) if f in ("maximum", "minimum") else ()
        if op[1] == "method":
            return _none(getattr(A, f)(*args)), None
        return getattr(ir, f)(A, *args), None
    if name == "stat":
        if op[1] == "method":
            return _none(getattr(A, op[2])()), None
        return getattr(ir, op[2])(A), None
    if name == "mov":
        fn = "mov_" + op[2]
        if op[1] == "method":
            return _none(getattr(A, fn)(window=-op[3])), None
        return getattr(ir, fn)(A, window=-op[3]), None
    if name == "fill":
        method, arg, sp = op[2], op[3], op[4]
        kw = {} if is_mv(sp) else {"span": ir.Span(w.per(sp[0]), w.per(sp[1]))}
        marg = B if method == "from_series" else (float(arg) if method == "constant" else None)
        if op[1] == "method":
            return _none(A.fill_missing(method, marg, **kw)), None
        return ir.fill_missing(A, method, marg, **kw), None
    if name == "extrap":
        rho, c, lo, hi = op[2], op[3], op[4], op[5]
        span = ir.Span(w.per(lo), w.per(hi))
        if op[1] == "method":
            return _none(A.extrapolate(tuple(float(r) for r in rho), span, intercept=float(c))), None
        return ir.extrapolate(A, tuple(float(r) for r in rho), span, intercept=float(c)), None
    if name == "copy":
        return A.copy(), None
    raise MachineryError("unknown series op %r" % (op,))


def _none(x):
    if x is not None:
        raise AssertionError("method form returned %r instead of None" % type(x).__name__)
    return None


def op_tag(op):
    name = op[0]
    if name in ("shift", "overlay", "underlay"):
        return "%s/%s" % (name, op[1])
    if name in ("elem", "stat", "mov", "fill"):
        return "%s/%s/%s" % (name, op[1], op[2])
    if name == "extrap":
        return "extrap/%s" % op[1]
    if name in ("binser", "binsc", "rbinsc", "un"):
        return "%s/%s" % (name, op[1])
    return name


def diff_value(val, spec):
    arr = np.asarray(val, dtype=float)
    exp = np.array([[val_to_float(v) for v in row] for row in spec], dtype=float).reshape(len(spec), -1)
    if arr.shape != exp.shape:
        return "returned data of shape %r, spec %r" % (arr.shape, exp.shape)
    for i in range(exp.shape[0]):
        for j in range(exp.shape[1]):
            a, e = arr[i, j], exp[i, j]
            if math.isnan(e) != math.isnan(a) or (not math.isnan(e) and not close(a, e)):
                return "returned %r at row %d column %d, spec %r" % (a, i, j, e)
    return None


def check_step(chk, st, f, alt):
    ca, cb, op, post = st["ca"], st["cb"], st["op"], st["post"]
    w = World(f)
    tag = op_tag(op)
    payload = {"kind": "series-step", "freq": f, "alt": alt, "a": _plain(ca), "b": _plain(cb), "op": _plain(op), "post": _plain(post)}
    empty = "empty" if is_mv(ca["start"]) else "nonempty"
    desc = "%s on a=%s b=%s (%s)" % (_plain(op), _plain(ca), _plain(cb), f)
    try:
        A, B = w.build(ca), w.build(cb)
    except Exception as ex:
        chk.mismatch("series:build:%s" % type(ex).__name__, "building %s raised %r" % (_plain(ca), ex), payload)
        return
    d = diff_series(w, A, ca, True, "fresh series")
    if d:
        chk.mismatch("series:build", d, payload)
        return
    snapA, snapB = snapshot(w, A), snapshot(w, B)
    try:
        res, val = apply_op(w, A, B, op, alt)
        raised = None
    except MachineryError:
        raise
    except Exception as ex:
        res, val, raised = None, None, ex
    if post["rej"]:
        if raised is None:
            chk.mismatch("series:%s:not-rejected" % tag, desc + ": should be rejected", payload)
        return
    if raised is not None:
        chk.mismatch("series:%s:%s:raised:%s" % (tag, empty, type(raised).__name__), desc + ": raised %r" % (raised,), payload)
        return
    # frame: the argument is never modified
    if snapshot(w, B) != snapB:
        chk.mismatch("series:%s:argument-modified" % tag, desc + ": the argument series was modified: %r -> %r" % (snapB, snapshot(w, B)), payload)
    functional = not is_mv(post["res"]) or not is_mv(post["val"])
    if functional and snapshot(w, A) != snapA:
        chk.mismatch("series:%s:receiver-modified" % tag, desc + ": functional form modified its input: %r -> %r" % (snapA, snapshot(w, A)), payload)
    d = diff_series(w, A, post["a"], post["exact_a"], "receiver")
    if d:
        chk.mismatch("series:%s:receiver" % tag, desc + ": " + d, payload)
    if not is_mv(post["res"]):
        d = diff_series(w, res, post["res"], post["exact_res"], "result")
        if d:
            chk.mismatch("series:%s:result" % tag, desc + ": " + d, payload)
        elif res is A or res is B or (res.data.size and (np.shares_memory(res.data, A.data) or np.shares_memory(res.data, B.data))):
            chk.mismatch("series:%s:alias" % tag, desc + ": the result shares storage with an input", payload)
    elif res is not None:
        chk.mismatch("series:%s:unexpected-result" % tag, desc + ": returned %r" % type(res).__name__, payload)
    if not is_mv(post["val"]):
        d = diff_value(val, post["val"])
        if d:
            chk.mismatch("series:%s:value" % tag, desc + ": " + d, payload)


def check_history(chk, states, f):
    """Replay one simulated behaviour of SeriesHist: all handles are compared after every step."""
    w = World(f)
    handles = sorted(states[0]["cs"])
    ops = [_plain(s["last"]) for s in states[1:]]
    payload = {"kind": "series-hist", "freq": f, "init": _plain(states[0]["cs"]), "ops": ops}
    objs = {h: w.build(states[0]["cs"][h]) for h in handles}
    for i, st in enumerate(states[1:], 1):
        op, r, g, k = st["last"]
        tag = op_tag(op)
        where = "step %d %s recv=%s arg=%s target=%s of history %s from %s (%s)" % (i, _plain(op), r, g, k, ops[:i], _plain(states[0]["cs"]), f)
        try:
            res, val = apply_op(w, objs[r], objs[g], op, alt=bool(i % 2))
        except MachineryError:
            raise
        except Exception as ex:
            chk.mismatch("series-hist:%s:raised:%s" % (tag, type(ex).__name__), where + ": raised %r" % (ex,), payload)
            return
        if not is_mv(st["val"]):
            d = diff_value(val, st["val"])
            if d:
                chk.mismatch("series-hist:%s:value" % tag, where + ": " + d, payload)
                return
        if res is not None:
            if any(res is o for o in objs.values()):
                chk.mismatch("series-hist:%s:alias" % tag, where + ": returned one of the existing objects", payload)
                return
            objs[k] = res
        for h in handles:
            d = diff_series(w, objs[h], st["cs"][h], h not in st["loose"], "handle " + h)
            if d:
                kind = "target" if h == k else ("receiver" if h == r else "bystander")
                chk.mismatch("series-hist:%s:%s" % (tag, kind), where + ": " + d, payload)
                return
        for a in handles:
            for b in handles:
                if a < b and objs[a].data.size and objs[b].data.size and np.shares_memory(objs[a].data, objs[b].data):
                    chk.mismatch("series-hist:%s:shared-storage" % tag, where + ": handles %s and %s share storage" % (a, b), payload)
                    return


def run(chk):
    thorough = chk.tier == "thorough"
    dump = chk.scratch.file("series.dump")
    r = tlc.must_pass(tlc.run("SeriesStep", "SeriesStep.%s.cfg" % chk.tier, chk.scratch, dump=dump, timeout=7200, heap="12g"), "SeriesStep")
    chk.add_tlc(r, "SeriesStep/" + chk.tier)
    n = 0
    for st in tlaval.parse_dump(dump, want=lambda b: "done = TRUE" in b):
        if not st["post"]["laws"]:
            raise MachineryError("SeriesStep: laws false in dump")
        check_step(chk, st, FREQS[n % (6 if thorough else 4)], alt=bool((n // 6) % 2))
        n += 1
        if n in (777, 30001):
            chk.sample({"series_step": {"a": _plain(st["ca"]), "b": _plain(st["cb"]), "op": _plain(st["op"]), "spec_post": _plain(st["post"])}})
    os.remove(dump)
    if n * 2 != r.distinct:
        raise MachineryError("SeriesStep: %d transitions parsed, %d states reported" % (n, r.distinct))
    chk.replayed += n
    chk.notes["series_transitions_replayed"] = n
    # histories over three handles (isolation between copies / functional results and their inputs)
    simdir = chk.scratch.sub("sim")
    num = 6000 if thorough else 600
    r = tlc.run("SeriesHist", "SeriesHist.cfg", chk.scratch, workers=1, simulate="file=%s/tr,num=%d" % (simdir, num),
                depth=12, seed=chk.seed % 10**6, timeout=3600)
    if r.violated or r.error:
        raise MachineryError("SeriesHist simulation failed:\n" + r.out[-2000:])
    files = sorted(glob.glob(simdir + "/tr_*"))
    if len(files) < num // 2:
        raise MachineryError("SeriesHist simulation produced only %d behaviours" % len(files))
    chk.states += r.generated
    chk.transitions += r.generated
    chk.tlc_runs.append({"run": "SeriesHist/simulate", "generated": r.generated, "behaviours": len(files), "wall_s": round(r.wall, 1)})
    for i, fn in enumerate(files):
        states = tlaval.parse_sim_file(fn)
        check_history(chk, states, FREQS[i % 6])
        if i == 1:
            chk.sample({"series_history": {"init": _plain(states[0]["cs"]), "ops": [_plain(s["last"]) for s in states[1:]],
                                           "final": _plain(states[-1]["cs"])}})
    chk.replayed += len(files)
    chk.notes["series_histories_replayed"] = len(files)
    chk.exhaustive = True
    chk.rule = ("every series state with observations in a 3-period (1 variant) / 2-period (2 variants) window [quick; 4/3 thorough] over "
                "values {NaN, 2, -3} x every operation instance of SeriesStep (get/call/set/shift/clip/overlay/underlay/hstack/arithmetic/"
                "element-wise/statistics/moving/fill/extrapolate/copy, method and functional forms), each replayed in one of 4-6 frequencies; "
                "a case is one (state, operation) transition")
    chk.assumptions = ["numpy element-wise primitives are trusted; values are small integers so all results are exact",
                       "span after clip and after element-wise methods need only cover the observations (statement: trimmed after writes and arithmetic)",
                       "fill_missing('nearest') ties and 'linear' beyond the last observation (flat) follow the implementation's documented table loosely"]


def replay(chk, sc):
    st = {"ca": _unplain(sc["a"]), "cb": _unplain(sc["b"]), "op": _unplain(sc["op"]), "post": _unplain(sc["post"])}
    check_step(chk, st, sc["freq"], sc["alt"])
    chk.replayed += 1
    chk.states = chk.transitions = 1
    chk.sample(sc)


_MVS = {"NaN", "None", "NoSer", "NoVal", "AnyVal"}


def _unplain(v):
    if isinstance(v, dict):
        return tlaval._Rec({k: _unplain(x) for k, x in v.items()})
    if isinstance(v, list):
        return tuple(_unplain(x) for x in v)
    if isinstance(v, str) and v in _MVS:
        return tlaval.MV(v)
    return v
