"""C18 - reduced-form VAR estimates are the least-squares solution and reproduce the data.

Spec: Ols.tla (regressor layout, complete-period selection, normal equations solved exactly with LinSolve; residual orthogonality and
noise-free recovery checked by TLC), OlsMC.tla (scenarios: 1-2 endogenous, 0-1 exogenous, order 1-2, missing cells, noise-free data).
Binding: every scenario replayed through RedVAR.estimate / get_system_matrices / simulate / get_mean / get_eigenvalues / get_acov.
"""
import os, math
from fractions import Fraction
import numpy as np
import irispie as ir
from .. import tlc, tlaval
from ..common import MachineryError
from .C09 import _plain
from .C10 import _unplain

START = lambda: ir.qq(2020, 1)          # period t = 1


def nanv(v):
    return isinstance(v, tlaval.MV)


def check(chk, sc, out):
    payload = {"kind": "ols", "sc": _plain(sc), "out": _plain(out)}
    K, nx, p, T = sc["K"], sc["nx"], sc["p"], len(sc["data"])
    tag = "var:K%d:nx%d:p%d%s" % (K, nx, p, "" if sc["icpt"] else ":nointercept")
    ynames = ["y%d" % (i + 1) for i in range(K)]
    xnames = ["x%d" % (j + 1) for j in range(nx)]
    start = START()
    db = ir.Databox()
    for j, n in enumerate(ynames + xnames):
        db[n] = ir.Series(start=start, values=np.array([math.nan if nanv(r[j]) else float(r[j]) for r in sc["data"]], dtype=float))
    span = ir.Span(start + p, start + T - 1)
    desc = "RedVAR(%s, exogenous=%s, order=%d, intercept=%s).estimate on data %s" % (ynames, xnames, p, sc["icpt"], _plain(sc["data"]))
    priors = []
    for pr in sc["prior"]:
        if pr["kind"] == "minn":
            priors.append(ir.MinnesotaPriorObs(rho=float(pr["rho"]), mu=float(pr["mu"]), kappa=float(pr["kappa"])))
        else:
            priors.append(ir.MeanPriorObs(mean=float(pr["mean"]), mu=float(pr["mu"])))
    ekw = {"prior_obs": priors} if priors else {}
    if priors:
        tag += ":prior:" + "+".join(pr["kind"] for pr in sc["prior"])
        desc += " with prior dummy observations %s" % (_plain(sc["prior"]),)
    try:
        kw = {"order": p}
        if xnames:
            kw["exogenous_names"] = xnames
        if not sc["icpt"]:
            kw["intercept"] = False
        v = ir.RedVAR(ynames, **kw)
        tdb = None
        if len(_plain(sc["data"]).__repr__()) % 2 == 0:
            # history: the results are written into a databox that already holds the residuals of an EARLIER estimate of another
            # specification (intercept toggled); what comes back must be this estimate's
            try:
                tdb = ir.RedVAR(ynames, **dict(kw, intercept=not sc["icpt"])).estimate(db, span)
                desc += " (results merged into the output databox of an earlier estimate with intercept=%s)" % (not sc["icpt"])
            except Exception:
                tdb = None
        odb = v.estimate(db, span, **(dict(ekw, target_db=tdb) if tdb is not None else ekw))
        sysm = v.get_system_matrices()
    except Exception as ex:
        if not out["ok"]:        # singular normal equations: no least-squares solution to compare with
            chk.no_claim += 1
            return
        chk.mismatch(tag + ":estimate:raised:" + type(ex).__name__, desc + ": raised %r" % (ex,), payload)
        return
    if not out["ok"]:
        chk.no_claim += 1
        return
    nlag = K * p
    beta = [[Fraction(n, out["den"][i]) for n in out["num"][i]] for i in range(K)]
    A = np.asarray(sysm.A, dtype=float).reshape(K, nlag)
    B = np.asarray(sysm.B, dtype=float).reshape(K, nx) if nx else np.zeros((K, 0))
    c = np.asarray(sysm.c, dtype=float).reshape(K) if sc["icpt"] else np.zeros(K)
    got = np.hstack([A, B, c.reshape(-1, 1)]) if sc["icpt"] else np.hstack([A, B])
    exp = np.array([[float(b) for b in row] for row in beta])
    if got.shape != exp.shape or not np.allclose(got, exp, rtol=1e-8, atol=1e-8):
        chk.mismatch(tag + ":coefficients", desc + ": coefficients [A, B, c] are\n%s\nexact least squares on the complete periods %s:\n%s" % (got, sorted(out["complete"]), exp), payload)
        return
    # residuals: exact on the complete periods
    complete = sorted(out["complete"])
    res = np.full((K, T + 1), math.nan)
    for i in range(K):
        rn = dict(out["resnum"][i]) if not isinstance(out["resnum"][i], dict) else out["resnum"][i]
        for t in complete:
            e = float(Fraction(rn[t], out["den"][i]))
            g = float(odb["res_" + ynames[i]].get_data(start + t - 1)[0, 0])
            res[i, t] = e
            if not abs(g - e) <= 1e-8 * max(1.0, abs(e)):
                chk.mismatch(tag + ":residuals", desc + ": residual of %s in period %d is %r, exact %r" % (ynames[i], t, g, e), payload)
                return
    # residual covariance: second moment over the complete periods
    n = len(complete)
    S = sum(np.outer(res[:, t], res[:, t]) for t in complete)
    cov = np.asarray(sysm.cov_residuals, dtype=float)
    if not np.allclose(cov, S / n, rtol=1e-8, atol=1e-9):
        chk.mismatch(tag + ":cov", desc + ": residual covariance\n%s\nsecond moment over the %d fitted periods:\n%s" % (cov, n, S / n), payload)
        return
    try:
        v2 = ir.RedVAR(ynames, **kw)
        v2.estimate(db, span, dof_correction=True, **ekw)
        cov2 = np.asarray(v2.get_system_matrices().cov_residuals, dtype=float)
        nreg = nlag + nx + int(sc["icpt"])
        ok = any(n - d > 0 and np.allclose(cov2, S / (n - d), rtol=1e-8, atol=1e-9) for d in {nreg, nx + int(sc["icpt"])})
        if not ok:
            chk.mismatch(tag + ":cov-dof", desc + ": dof-corrected covariance\n%s\nis not the residual moment matrix divided by (fitted periods - regressors)" % (cov2,), payload)
            return
    except Exception as ex:
        chk.mismatch(tag + ":cov-dof:raised:" + type(ex).__name__, desc + ": dof_correction=True raised %r" % (ex,), payload)
        return
    # simulation over the estimation span with the estimated residuals returns the data (no missing data only)
    if len(complete) == T - p and not any(nanv(x) for r in sc["data"] for x in r):
        try:
            sdb = v.simulate(odb, span)
            for i, nme in enumerate(ynames):
                g = np.asarray(sdb[nme].get_data(span), dtype=float).flatten()
                e = np.array([float(sc["data"][t - 1][i]) for t in range(p + 1, T + 1)])
                if not np.allclose(g, e, rtol=1e-8, atol=1e-8):
                    chk.mismatch("var:simulate:order>=2" if p >= 2 else "var:simulate:p1:nx%d" % nx, desc + ": simulate with the estimated residuals gives %s for %s, data %s" % (g, nme, e), payload)
                    return
        except Exception as ex:
            chk.mismatch("var:simulate:p%d:nx%d:raised:%s" % (p, nx, type(ex).__name__), desc + ": simulate raised %r" % (ex,), payload)
            return
    # mean, eigenvalues and autocovariances are those of the companion form of the exact coefficients
    try:
        Acomp = np.zeros((nlag, nlag))
        Acomp[:K, :] = exp[:, :nlag]
        if p > 1:
            Acomp[K:, :nlag - K] = np.eye(nlag - K)
        eig_exp = np.sort_complex(np.linalg.eigvals(Acomp))
        eig_got = np.sort_complex(np.asarray(v.get_eigenvalues(), dtype=complex).flatten())
        if eig_got.shape != eig_exp.shape or not np.allclose(eig_got, eig_exp, rtol=1e-6, atol=1e-6):
            chk.mismatch(tag + ":eigenvalues", desc + ": eigenvalues %s, companion form of the exact coefficients has %s" % (eig_got, eig_exp), payload)
            return
        # the largest modulus (not the largest real part) decides stability
        mx = float(np.max(np.abs(eig_exp)))
        gmx = float(np.ravel(v.get_max_abs_eigenvalue())[0])
        if not abs(gmx - mx) <= 1e-6 * max(1.0, mx):
            chk.mismatch(tag + ":max-abs-eigenvalue", desc + ": get_max_abs_eigenvalue() is %r, the largest modulus among the companion eigenvalues %s is %r" % (gmx, eig_exp, mx), payload)
            return
        if abs(mx - 1.0) > 1e-3:
            st_ = np.ravel(v.get_stability())[0]
            if bool(st_) != (mx < 1.0):
                chk.mismatch(tag + ":stability", desc + ": get_stability() is %r but the largest modulus of the companion eigenvalues is %r" % (st_, mx), payload)
                return
        stable = np.max(np.abs(eig_exp)) < 1 - 1e-6
        if stable and nx == 0 and sc["icpt"]:
            Asum = sum(exp[:, k * K:(k + 1) * K] for k in range(p))
            mean_exp = np.linalg.solve(np.eye(K) - Asum, exp[:, -1])
            mean_got = np.asarray(v.get_mean(), dtype=float).flatten()
            if not np.allclose(mean_got, mean_exp, rtol=1e-7, atol=1e-7):
                chk.mismatch(tag + ":mean", desc + ": mean %s, companion form gives %s" % (mean_got, mean_exp), payload)
                return
            # order-0 autocovariance solves the Lyapunov equation of the companion form
            Om = np.zeros((nlag, nlag)); Om[:K, :K] = S / n
            G = np.linalg.solve(np.eye(nlag * nlag) - np.kron(Acomp, Acomp), Om.reshape(-1)).reshape(nlag, nlag)
            acov = np.asarray(v.get_acov(up_to_order=1), dtype=float)
            a0 = acov.reshape(-1, acov.shape[-2], acov.shape[-1])[0] if acov.ndim >= 3 else acov
            if a0.shape[0] >= K and not np.allclose(a0[:K, :K], G[:K, :K], rtol=1e-6, atol=1e-7):
                chk.mismatch(tag + ":acov", desc + ": order-0 autocovariance\n%s\ncompanion-form Lyapunov solution:\n%s" % (a0[:K, :K], G[:K, :K]), payload)
                return
    except Exception as ex:
        chk.mismatch(tag + ":moments:raised:" + type(ex).__name__, desc + ": get_eigenvalues/get_mean/get_acov raised %r" % (ex,), payload)


def check_pair(chk, a, b):
    """Two complete data sets of the same shape stacked as two variants: variant k behaves as the singleton model."""
    (sc1, o1), (sc2, o2) = a, b
    K, nx, p, T = sc1["K"], sc1["nx"], sc1["p"], len(sc1["data"])
    payload = {"kind": "ols-pair", "sc1": _plain(sc1), "sc2": _plain(sc2)}
    tag = "var:2variants:K%d:nx%d:p%d" % (K, nx, p)
    ynames = ["y%d" % (i + 1) for i in range(K)]
    xnames = ["x%d" % (j + 1) for j in range(nx)]
    start = START()
    db = ir.Databox()
    for j, n in enumerate(ynames + xnames):
        db[n] = ir.Series(start=start, values=np.array([[float(r1[j]), float(r2[j])] for r1, r2 in zip(sc1["data"], sc2["data"])], dtype=float))
    span = ir.Span(start + p, start + T - 1)
    desc = "two-variant RedVAR(%s, exogenous=%s, order=%d) on data %s | %s" % (ynames, xnames, p, _plain(sc1["data"]), _plain(sc2["data"]))
    try:
        kw = {"order": p}
        if xnames:
            kw["exogenous_names"] = xnames
        v = ir.RedVAR(ynames, **kw)
        odb = v.estimate(db, span, num_variants=2)
        systems = v.get_system_matrices(unpack_singleton=False)
        sdb = v.simulate(odb, span)
    except Exception as ex:
        chk.mismatch(tag + ":raised:" + type(ex).__name__, desc + ": raised %r" % (ex,), payload)
        return
    nlag = K * p
    for k, (sc, out) in enumerate(((sc1, o1), (sc2, o2))):
        exp = np.array([[float(Fraction(n, out["den"][i])) for n in out["num"][i]] for i in range(K)])
        sysm = systems[k]
        got = np.hstack([np.asarray(sysm.A, dtype=float).reshape(K, nlag), np.asarray(sysm.B, dtype=float).reshape(K, nx) if nx else np.zeros((K, 0)),
                         np.asarray(sysm.c, dtype=float).reshape(K, 1)])
        if not np.allclose(got, exp, rtol=1e-8, atol=1e-8):
            chk.mismatch(tag + ":coefficients", desc + ": coefficients of variant %d are\n%s\nsingleton least squares:\n%s" % (k, got, exp), payload)
            return
        if True:
            for i, nme in enumerate(ynames):
                g = np.asarray(sdb[nme].get_data(span), dtype=float)[:, k]
                e = np.array([float(sc["data"][t - 1][i]) for t in range(p + 1, T + 1)])
                if not np.allclose(g, e, rtol=1e-8, atol=1e-8):
                    chk.mismatch("var:simulate:order>=2" if p >= 2 else tag + ":simulate", desc + ": simulate with the estimated residuals gives %s for %s in variant %d, data %s" % (g, nme, k, e), payload)
                    return


def run(chk):
    dump = chk.scratch.file("ols.dump")
    r = tlc.must_pass(tlc.run("OlsMC", "OlsMC.thorough.cfg" if chk.tier == "thorough" else "OlsMC.cfg", chk.scratch, dump=dump, timeout=1800), "OlsMC")
    chk.add_tlc(r, "OlsMC")
    n = exact = 0
    groups = {}
    for st in tlaval.parse_dump(dump, want=lambda b: "done = TRUE" in b):
        if st["out"]["ok"] and not st["out"]["check"]:
            raise MachineryError("OlsMC: check false in dump")
        check(chk, st["sc"], st["out"])
        n += 1
        exact += bool(st["sc"]["exact"])
        sc = st["sc"]
        if st["out"]["ok"] and sc["icpt"] and not sc["exact"] and not len(sc["prior"]) and not any(nanv(x) for r in sc["data"] for x in r):
            groups.setdefault((sc["K"], sc["nx"], sc["p"], len(sc["data"])), {})[sc["g"]] = (sc, st["out"])
        if n in (5, 40):
            chk.sample({"scenario": _plain(st["sc"]), "spec": {k: _plain(v) for k, v in st["out"].items() if k in ("ok", "num", "den", "complete")}})
    os.remove(dump)
    if not exact:
        raise MachineryError("OlsMC: no noise-free scenario")
    pairs = 0
    for key, d in sorted(groups.items()):
        if 0 in d and 1 in d:
            check_pair(chk, d[0], d[1])
            check_pair(chk, d[1], d[0])
            pairs += 2
    if not pairs:
        raise MachineryError("OlsMC: no two-variant pair")
    chk.notes["two_variant_pairs"] = pairs
    n += pairs
    chk.replayed += n
    chk.exhaustive = True
    chk.rule = ("(K, order) in {(1,1), (1,2), (2,1)} x 0-1 exogenous x T in {7,8} x 6 missing-cell patterns (current, lagged, exogenous, first, "
                "last periods), two noise-free data sets generated by integer VARs, one model without intercept; a case is one scenario")
    chk.assumptions = ["the degrees-of-freedom correction may subtract either all regressors per equation or the non-endogenous ones (the statement does not fix it)",
                       "eigenvalues, mean and autocovariances are compared with numpy computations on the companion form built from the spec's exact coefficients",
                       "prior dummy observations: Minnesota and mean priors with integer parameters (the y_std scaling argument is not applied by irispie and not by the spec); resampling is not covered"]


def replay(chk, s):
    sc, out = _unplain(s["sc"]), _unplain(s["out"])
    out["complete"] = frozenset(s["out"]["complete"])
    check(chk, sc, out)
    chk.replayed += 1
    chk.states = chk.transitions = 1
    chk.sample({"scenario": s["sc"]})
