"""C11 - period conversions round-trip; frequency conversion preserves containment.

Spec: Calendar.tla / CalendarMC.tla (Inv_YmdRoundTrip, Inv_RefreqContains, Inv_RefreqMonotone,
Inv_CoarseFineCoarse, TextInjective checked by TLC); every computed scenario is replayed through irispie.
"""
import datetime
import irispie as ir
from .. import tlaval
from . import calendar_common as cal
from .C09 import _plain, _expect

EVAL_NS = {"yy": ir.yy, "hh": ir.hh, "qq": ir.qq, "mm": ir.mm, "dd": ir.dd, "ii": ir.ii}


def _ymdstr(t):
    return "%04d-%02d-%02d" % tuple(t)


def check(chk, p, o, neighbours):
    f = p["f"]
    F = cal.FREQ[f]
    payload = {"kind": "conv", "p": dict(p), "out": _plain(o)}
    t = cal.period(f, o)
    name = o["repr"]

    def guard(fp, fn):
        try:
            fn()
        except AssertionError:
            raise
        except Exception as ex:
            chk.mismatch("%s:%s:%s" % (fp, f, type(ex).__name__), "%s: %s raised %r" % (name, fp, ex), payload)

    # --- SDMX ------------------------------------------------------------------------------------
    def sdmx():
        s = t.to_sdmx_string()
        _expect(chk, s == o["sdmx"] and str(t) == o["sdmx"], "sdmx:to:%s" % f, "%s to_sdmx_string=%r spec %r" % (name, s, o["sdmx"]), payload)
        _expect(chk, ir.Period.from_sdmx_string(o["sdmx"], frequency=F) == t, "sdmx:from-explicit:%s" % f, "%s: from_sdmx_string(%r, frequency) is another period" % (name, o["sdmx"]), payload)
    guard("sdmx", sdmx)

    def detect():
        _expect(chk, ir.Frequency.from_sdmx_string(o["sdmx"]) == F, "sdmx:detect:%s" % f, "frequency detected from %r is not %s" % (o["sdmx"], F), payload)
        back = ir.Period.from_sdmx_string(o["sdmx"])
        _expect(chk, type(back) is type(t) and back == t, "sdmx:from-auto:%s" % f, "%s: from_sdmx_string(%r) auto-detected gives %r" % (name, o["sdmx"], back), payload)
        strs = [o["sdmx"]] + [n["sdmx"] for n in neighbours]
        got = ir.periods_from_sdmx_strings(strs)
        _expect(chk, len(got) == len(strs) and got[0] == t and all(type(g) is type(t) for g in got) and
                all(g.to_sdmx_string() == s for g, s in zip(got, strs)), "sdmx:periods_from:%s" % f,
                "periods_from_sdmx_strings(%r) gives %r" % (strs, got), payload)
    guard("sdmx-detect", detect)

    # --- repr ------------------------------------------------------------------------------------
    def rep():
        r = repr(t)
        _expect(chk, r == o["repr"], "repr:to:%s" % f, "repr is %r spec %r" % (r, o["repr"]), payload)
        back = eval(r, dict(EVAL_NS))
        _expect(chk, type(back) is type(t) and back == t, "repr:back:%s" % f, "eval(repr) of %s gives %r" % (name, back), payload)
    guard("repr", rep)
    if f == "I":
        return

    # --- (year, segment) -------------------------------------------------------------------------
    def ys():
        y, s = t.to_year_segment()
        _expect(chk, (y, s) == (o["year"], o["seg"]), "ys:to:%s" % f, "%s to_year_segment=%r" % (name, (y, s)), payload)
        _expect(chk, ir.Period.from_year_segment(F, y, s) == t, "ys:back:%s" % f, "%s from_year_segment(%r) differs" % (name, (y, s)), payload)
    guard("year-segment", ys)

    # --- (y, m, d), ISO strings, Python dates at the three positions ------------------------------
    for pos, want in (("start", o["ymds"]), ("middle", o["ymdm"]), ("end", o["ymde"])):
        def ymd(pos=pos, want=want):
            kw = {} if f == "D" else {"position": pos}
            got = tuple(t.to_ymd(**kw))
            day = datetime.date(*got).toordinal()
            if want:
                _expect(chk, got == tuple(want), "ymd:to-%s:%s" % (pos, f), "%s to_ymd(%s)=%r spec %r" % (name, pos, got, tuple(want)), payload)
            else:
                _expect(chk, o["mlo"] <= day <= o["mhi"], "ymd:to-%s:%s" % (pos, f), "%s to_ymd(%s)=%r lies outside the period" % (name, pos, got), payload)
            _expect(chk, ir.Period.from_ymd(F, *got) == t, "ymd:back-%s:%s" % (pos, f), "%s: from_ymd(%r) is another period" % (name, got), payload)
            iso = t.to_iso_string(**kw)
            _expect(chk, iso == _ymdstr(got), "iso:to-%s:%s" % (pos, f), "%s to_iso_string(%s)=%r, to_ymd says %r" % (name, pos, iso, got), payload)
            _expect(chk, ir.Period.from_iso_string(iso, frequency=F) == t, "iso:back-%s:%s" % (pos, f), "%s: from_iso_string(%r) is another period" % (name, iso), payload)
            pd = t.to_python_date(**kw)
            _expect(chk, (pd.year, pd.month, pd.day) == got, "pydate:to-%s:%s" % (pos, f), "%s to_python_date(%s)=%r" % (name, pos, pd), payload)
            _expect(chk, ir.Period.from_python_date(pd, frequency=F) == t, "pydate:back-%s:%s" % (pos, f), "%s: from_python_date(%r) is another period" % (name, pd), payload)
            # --- frequency conversion ------------------------------------------------------------
            for g, per_pos in o["rf"].items():
                lo, hi = per_pos[pos]
                G = cal.FREQ[g]
                r1 = t.refrequent(G, **kw)
                r2 = ir.refrequent(t, G, **kw)
                e_lo = cal.CTOR[g](lo[1], lo[2])
                e_hi = cal.CTOR[g](hi[1], hi[2])
                ok = type(r1) is type(e_lo) and e_lo <= r1 <= e_hi and r1 == r2
                _expect(chk, ok, "refreq:%s->%s:%s" % (f, g, pos), "%s.refrequent(%s, %s)=%r / %r, spec %r..%r" % (name, g, pos, r1, r2, e_lo, e_hi), payload)
                # consistency: the conversion is taken at the day the period itself reports
                _expect(chk, r1 == ir.Period.from_ymd(G, *got), "refreq-consistent:%s->%s:%s" % (f, g, pos),
                        "%s.refrequent(%s, %s)=%r is not the period of its own to_ymd day %r" % (name, g, pos, r1, got), payload)
        guard("ymd-" + pos, ymd)


def run(chk):
    scen = cal.scenarios(chk)
    by = {}
    for p, o in scen:
        by.setdefault(p["f"], []).append(o)
    for f, lst in by.items():
        for i, o in enumerate(lst):
            neigh = [lst[(i + 7) % len(lst)], lst[(i * 3 + 1) % len(lst)]]
            check(chk, {"f": f, "n": o["n"]}, o, neigh)
            chk.replayed += 1
    p, o = scen[len(scen) // 2]
    chk.sample({"period": p, "spec_out": _plain(o)})
    p, o = scen[5]
    chk.sample({"period": p, "spec_out": _plain(o)})
    chk.exhaustive = True
    chk.rule = ("every period of the configured calendar windows (regular periods of the listed years, every day of the listed "
                "day-years, integer serials) x {SDMX, repr, (y,s), (y,m,d)/ISO/python date at start/middle/end} x refrequent to all "
                "5 calendar frequencies x 3 positions; a case is one period")
    chk.assumptions = ["'middle' of yearly and half-yearly periods: any day of the period (documentation ambiguous), but consistent across to_ymd/to_iso_string/to_python_date/refrequent",
                       "compact strings are not part of the statement"]


def replay(chk, sc):
    o = tlaval._Rec(sc["out"])
    if "rf" in o:
        o["rf"] = {g: {pos: (tuple(v[0]), tuple(v[1])) for pos, v in pp.items()} for g, pp in sc["out"]["rf"].items()}
    check(chk, sc["p"], o, [])
    chk.replayed += 1
    chk.states = chk.transitions = 1
    chk.sample(sc)
