"""C05 - the steady state returned by solve_steady satisfies the steady-state equations.

Spec: SteadyMC.tla: library N (flat nonlinear with two recursive blocks; balanced growth with log-variables and a fixed level; linear
growth; linear forward-looking; log-linear with second lag and lead under linear=True; a plan that exogenizes a variable and endogenizes a
parameter) with exact steady solutions as certificates; TLC verifies Inv_SteadyEqHold (every steady equation is zero on the path
level + change*k / level*change^k at k = 0..3, exact rationals) and Inv_PlanRespected. Binding: the source emitted by the spec is solved by
solve_steady in every configuration (split_into_blocks default/True/False, one and two variants); levels and changes are compared with
the spec's solution and the equations are re-evaluated on the stored path at several dates.
"""
import os, math
import numpy as np
import irispie as ir
from .. import tlc, tlaval
from ..common import MachineryError
from .C09 import _plain
from .C04 import ev
from .lre_common import quiet, fr


def path_value(name, level, change, is_log, k):
    return level * change ** k if is_log else level + change * k


def check(chk, ident, out, split, nvariants, flat_at="create", solver=None, start=1.5, alt=False):
    m_ = out["m"]
    payload = {"kind": "steady", "id": ident, "src": list(out["src"]), "split_into_blocks": split, "variants": nvariants}
    tag = "steady:%s:%s%s" % (ident, {None: "default", True: "blocks", False: "one-system"}[split], "" if flat_at == "create" else ":flat-at-solve") + ("" if solver is None else ":" + solver) + ("" if start == 1.5 else ":start=%g" % start) + (":alt-variant" if alt else "")
    desc = ("(variant 1 under the alternative parameter values %s) " % (_plain(m_["alt"]["pars"]),) if alt else "") + ("" if solver is None else "solver=%s " % solver) + ("" if start == 1.5 else "start=%g " % start) + "model %s (%s) linear=%s flat=%s split_into_blocks=%s variants=%d" % (ident, " ".join(out["src"][-len(m_["eqs"]):]), m_["linear"], m_["flat"], split, nvariants)
    try:
        # the flat flag can be given when the model is created or when the steady state is solved
        m = ir.Simultaneous.from_string("\n".join(out["src"]) + "\n", linear=bool(m_["linear"]), flat=bool(m_["flat"]) and flat_at == "create")
        if nvariants > 1:
            m.alter_num_variants(nvariants)
        if len(m_["pars"]):
            m.assign(**{n: float(fr(v)) for (n, v) in m_["pars"]})
        if alt:
            base = dict(m_["pars"])
            m.assign(**{n: [float(fr(base[n])), float(fr(v))] for (n, v) in m_["alt"]["pars"]})
        m.assign(**{n: start for n in m_["vars"]})
        for (n, v) in m_.get("assign", ()):                  # levels that stay as assigned (unit roots)
            m.assign(**{n: float(fr(v))})
        for (n, lv_, ch_) in m_["xvars"]:                     # exogenous variables: assigned level and (in flat mode: to be ignored) change
            m.assign(**{n: (float(fr(lv_)), float(fr(ch_)))})
        plan = None
        if len(m_["fix"]) or len(m_["swap"]) or len(m_.get("fixboth", ())):
            plan = ir.SteadyPlan(m)
            for (n, v, c) in m_.get("fixboth", ()):
                m.assign(**{n: (float(fr(v)), float(fr(c)))})
                plan.fix(n)                      # level and change
            for (n, v) in m_["fix"]:
                m.assign(**{n: float(fr(v))})
                plan.fix_level(n)
            for (n, v, p) in m_["swap"]:
                # an exogenized variable may carry a stale steady change; the flat path is constant all the same
                m.assign(**{n: (float(fr(v)), 0.3) if m_["flat"] else float(fr(v))})
                plan.swap((n, p))
        kw = {}
        if plan is not None:
            kw["plan"] = plan
        if split is not None:
            kw["split_into_blocks"] = split
        if m_["flat"] and flat_at == "solve":
            kw["flat"] = True
        if solver is not None:
            kw["solver"] = solver
    except Exception as ex:
        chk.mismatch(tag + ":setup:" + type(ex).__name__, desc + ": setting up raised %r" % (ex,), payload)
        return False
    try:
        quiet(m.solve_steady, **kw)
    except Exception as ex:
        chk.no_claim += 1          # the statement is conditional on solve_steady completing
        chk.notes.setdefault("did_not_complete", []).append("%s: %s" % (tag, type(ex).__name__))
        return False
    logv, logrep = set(m_["logv"]), set(m_["logrep"])
    base_m = m_
    for vid in range(nvariants):
        # the certificate of this variant
        m_ = dict(base_m, level=base_m["alt"]["level"], change=base_m["alt"]["change"]) if (alt and vid == 1) else base_m
        mv = m.get_variant(vid) if nvariants > 1 else m
        lv, chg, par = mv.get_steady_levels(), mv.get_steady_changes(), mv.get_parameters()
        def val(d, n):
            x = np.ravel(d[n])[0]
            return math.nan if x is None else float(x)
        allnames = list(m_["vars"]) + list(m_["mvars"]) + [x[0] for x in m_["xvars"]]
        for n in allnames:
            el, ec = float(fr(m_["level"][n])), float(fr(m_["change"][n]))
            gl, gc = val(lv, n), val(chg, n)
            if n in logrep:
                gl, gc = math.log(gl), math.log(gc) if gc > 0 else math.nan
            if not m_.get("freelevel", False) and not abs(gl - el) <= 1e-7 * max(1.0, abs(el)):
                if m_["linear"] and any(f[0] == n for f in m_["fix"]):
                    chk.mismatch("steady:linear:fix_level-ignored", desc + ": the level of %s fixed by the steady plan at %r comes out as %r" % (n, el, gl), payload)
                    return True
                chk.mismatch(tag + ":level", desc + ": steady %slevel of %s in variant %d is %r, exact %r" % ("log-" if n in logrep else "", n, vid, gl, el), payload)
                return True
            if not m_["flat"] and not abs(gc - ec) <= 1e-7 * max(1.0, abs(ec)):
                chk.mismatch(tag + ":change", desc + ": steady change of %s in variant %d is %r, exact %r" % (n, vid, gc, ec), payload)
                return True
        for (n, v) in m_["parsol"]:
            if not abs(val(par, n) - float(fr(v))) <= 1e-7:
                chk.mismatch(tag + ":endogenized-parameter", desc + ": endogenized parameter %s is %r, exact %r" % (n, val(par, n), float(fr(v))), payload)
                return True
        # the statement itself, on the stored path: every steady equation at several dates
        for k in (-2, 0, 1, 3):
            def get(name, shift, k=k):
                if name in allnames:
                    c = val(chg, name)
                    if name in logv:
                        c = c if (not m_["flat"] and c == c and c != 0) else 1.0
                        return val(lv, name) * c ** (k + shift)
                    c = c if (not m_["flat"] and c == c) else 0.0
                    return val(lv, name) + c * (k + shift)
                return val(par, name)
            for i, q in enumerate(list(m_["eqs"]) + list(m_["meqs"])):
                r = ev(q["rhs"], get) - ev(q["lhs"], get)
                if not abs(r) <= 1e-7 * max(1.0, abs(ev(q["rhs"], get))):
                    chk.mismatch(tag + ":equation", desc + ": steady equation %d has residual %r at date %+d on the stored steady path of variant %d" % (i + 1, r, k, vid), payload)
                    return True
    return True


def run(chk):
    dump = chk.scratch.file("steady.dump")
    r = tlc.must_pass(tlc.run("SteadyMC", "SteadyMC.cfg", chk.scratch, dump=dump, workers=4, timeout=600), "SteadyMC")
    chk.add_tlc(r, "SteadyMC")
    n = completed = nalt = 0
    per_model = {}
    for st in tlaval.parse_dump(dump, want=lambda b: "done = TRUE" in b):
        if not (st["out"]["holds"] and st["out"]["plan_ok"]):
            raise MachineryError("SteadyMC: certificate false in dump")
        for split in (None, True, False):
            for nv in (1, 2):
                for flat_at in (("create", "solve") if st["out"]["m"]["flat"] and not st["out"]["m"]["linear"] else ("create",)):
                    ok = check(chk, st["sc"], st["out"], split, nv, flat_at)
                    n += 1
                    completed += bool(ok)
                    per_model[st["sc"]] = per_model.get(st["sc"], 0) + bool(ok)
                    if "alt" in st["out"]["m"] and nv == 2:
                        ok4 = check(chk, st["sc"], st["out"], split, nv, flat_at, alt=True)
                        n += 1
                        completed += bool(ok4)
                        nalt += 1
                    if not st["out"]["m"]["linear"] and nv == 1 and flat_at == "create":
                        # the optional solver: completion is not required, a completed solve must satisfy the equations
                        ok2 = check(chk, st["sc"], st["out"], split, nv, flat_at, solver="scipy_root")
                        n += 1
                        completed += bool(ok2)
                        # further starting values where the instance says its solution is unique over the reals
                        for a in st["out"]["m"].get("altstart", ()):
                            for solver in (None, "scipy_root"):
                                ok3 = check(chk, st["sc"], st["out"], split, nv, flat_at, solver=solver, start=float(fr(a)))
                                n += 1
                                completed += bool(ok3)
                                per_model[st["sc"]] = per_model.get(st["sc"], 0) + bool(ok3)
        if st["sc"] == "S2":
            chk.sample({"model": st["sc"], "source": list(st["out"]["src"]), "spec_levels": _plain(st["out"]["m"]["level"]), "spec_changes": _plain(st["out"]["m"]["change"]),
                        "plan_fix": _plain(st["out"]["m"]["fix"])})
    os.remove(dump)
    if not nalt:
        raise MachineryError("SteadyMC: no instance with an alternative parameterisation")
    chk.notes["two_variant_runs_with_different_parameters"] = nalt
    vac = [k for k, v in per_model.items() if v == 0]
    if vac:
        raise MachineryError("SteadyMC: solve_steady completed in no configuration for %s (vacuous)" % vac)
    chk.replayed += completed
    chk.notes["configurations_run"] = n
    chk.notes["configurations_completed"] = completed
    chk.exhaustive = True
    chk.rule = ("6 library instances (flat nonlinear two-block; balanced growth with log-variables and fix_level; linear growth with fix_level; linear "
                "forward-looking; log-linear with lag/lead 2 under linear=True; exogenize-variable/endogenize-parameter plan) x split_into_blocks in "
                "{default, True, False} x {1, 2} variants; a case is one solve_steady run; non-convergence is 'no claim'")
    chk.assumptions = ["models, parameter values and plans are those of the library; the Newton solver and its convergence are trusted (the statement is conditional on completion)"]


def replay(chk, s):
    raise MachineryError("re-run ./check C05 (scenarios are regenerated deterministically)")
