"""C20 - copies, pickles and parameter variants are independent, equivalent models.

Spec: ModelObjects.tla (per handle a sequence of variant records [p, st, so]; assign / steady / solve / alter_num_variants /
copy / pickle / dill / save-load as actions; independence and duplicate-equivalence as action properties checked by TLC).
Binding: simulated behaviours are replayed on real Simultaneous (a growth model with log-variables) and Sequential models;
after every step every variant of every handle is compared with a fresh single-variant reference model resolved from the
abstract record (steady levels and changes, solution matrices, simulation), and objects are checked for shared state.
"""
import os, glob, io, math, pickle, contextlib, re
import numpy as np
import irispie as ir
from .. import tlc, tlaval
from ..common import MachineryError
from .C09 import _plain

G = {1: 0.0, 2: 0.02, 3: 0.05}
RHO = {1: 0.3, 2: 0.5, 3: 0.7}
BETA = 0.99
SIM_SOURCE = """
!transition_variables
    a, y, r
!log-variables
    a, y
!parameters
    g, beta, rho, ss_r
!transition_shocks
    e_a, e_r
!transition_equations
    log(a) = log(a[-1]) + g + e_a;
    y = a * (1 + 0.5*r[-1]);
    r = rho*r[-1] + (1-rho)*((y[+1]/y)/beta - 1) + e_r;
!measurement_variables
    obs_y
!measurement_equations
    obs_y = y;
!steady-autovalues
    ss_r = r;
"""
SEQ_SOURCE = """
!parameters
    g, rho
!equations
    x = rho*x[-1] + g + 1;
    diff(z) = x - rho;
    w === x + z;
"""
NAMES = ("a", "y", "r")
SPAN = ir.qq(2020, 1) >> ir.qq(2021, 2)


def quiet(f, *a, **k):
    with contextlib.redirect_stdout(io.StringIO()), contextlib.redirect_stderr(io.StringIO()):
        return f(*a, **k)


class SimKind:
    name = "sim"

    def fresh(self):
        m = ir.Simultaneous.from_string(SIM_SOURCE)
        m.assign(beta=BETA, a=1, y=1, r=0.05)
        return m

    def assign(self, m, values_per_variant, name):
        tab = G if name == "g" else RHO
        vals = [tab[v] for v in values_per_variant]
        if len(vals) >= 3 and vals[-1] == vals[-2]:
            vals = vals[:-1]            # a list shorter than the number of variants: its last value is repeated
        m.assign(**{name: vals if len(vals) > 1 else vals[0]})

    def steady_obs(self, m):
        lv = m.get_steady_levels(unpack_singleton=False)
        ch = m.get_steady_changes(unpack_singleton=False)
        par = m.get_parameters(unpack_singleton=False)
        # (the last row is the parameter that steady() sets to the steady level of r: a !steady-autovalues equation)
        return [np.array([[lv[n][k], ch[n][k]] for n in NAMES] + [[np.nan if par["ss_r"][k] is None else par["ss_r"][k], 0.0]], dtype=float) for k in range(m.num_variants)]

    def solution_obs(self, m):
        sols = m.get_solution(unpack_singleton=False)
        return [None if s is None else np.concatenate([np.asarray(s.T).ravel(), np.asarray(s.P).ravel(), np.asarray(s.K).ravel(),
                                                       np.asarray(s.Z).ravel(), np.asarray(s.D).ravel()]) for s in sols]

    def simulate_obs(self, m):
        db = quiet(m.build_steady_paths, SPAN) if hasattr(m, "build_steady_paths") else ir.Databox.steady(m, SPAN)
        db["e_r"][ir.qq(2020, 2)] = 0.01
        out = quiet(m.simulate, db, SPAN, method="first_order")
        arr = np.stack([np.asarray(out[n].get_data(SPAN), dtype=float) for n in NAMES], axis=1)
        arr = arr.reshape(arr.shape[0], len(NAMES), -1)
        return [arr[:, :, k] for k in range(arr.shape[2])]


class SeqKind:
    name = "seq"

    def fresh(self):
        return ir.Sequential.from_string(SEQ_SOURCE)

    def assign(self, m, values_per_variant, name):
        # Sequential.assign gives one value to all variants; a single variant is assigned through the view m[k]
        tab = G if name == "g" else RHO
        vals = [tab[v] for v in values_per_variant]
        if len(set(vals)) == 1:
            m.assign(**{name: vals[0]})
        else:
            for k, v in enumerate(vals):
                m[k].assign(**{name: v})

    def simulate_obs(self, m):
        db = ir.Databox()
        for n, v in (("x", 1.0), ("z", 2.0), ("w", 0.0)):
            db[n] = ir.Series(start=ir.qq(2019, 3), values=np.array([v, v + 1.0]))
        out = quiet(m.simulate, db, SPAN)
        arr = np.stack([np.asarray(out[n].get_data(SPAN), dtype=float) for n in ("x", "z", "w")], axis=1)
        arr = arr.reshape(arr.shape[0], 3, -1)
        return [arr[:, :, k] for k in range(arr.shape[2])]


VAR_DATA = {1: [[1.0, 0.5], [0.2, -0.4], [0.9, 0.1], [-0.3, 0.8], [0.6, -0.2], [0.1, 0.7], [-0.5, 0.3], [0.4, 0.0]],
            2: [[0.0, 1.0], [0.7, 0.3], [-0.2, 0.9], [0.5, -0.6], [0.3, 0.4], [-0.8, 0.2], [0.6, 0.5], [0.1, -0.3]],
            3: [[2.0, -1.0], [1.5, 0.2], [0.4, 0.8], [1.1, -0.7], [-0.6, 0.3], [0.9, 0.9], [0.2, -0.1], [1.3, 0.6]]}
VAR_START = ir.qq(2020, 1)
VAR_SPAN = ir.Span(ir.qq(2020, 2), ir.qq(2021, 4))


class VarKind:
    """RedVAR: the abstract parameter g of a variant is the data set it was estimated on; assign = (re-)estimate."""
    name = "var"

    def fresh(self):
        return ir.RedVAR(["y1", "y2"], order=1)

    def assign(self, m, values_per_variant, name):
        if name != "g":
            return
        db = ir.Databox()
        for j, n in enumerate(("y1", "y2")):
            db[n] = ir.Series(start=VAR_START, values=np.array([[VAR_DATA[v][t][j] for v in values_per_variant] for t in range(8)], dtype=float))
        m.estimate(db, VAR_SPAN, num_variants=len(values_per_variant))

    def simulate_obs(self, m):
        out = []
        for s in m.get_system_matrices(unpack_singleton=False):
            out.append(np.concatenate([np.asarray(s.A, dtype=float).ravel(), np.asarray(s.c, dtype=float).ravel(), np.asarray(s.cov_residuals, dtype=float).ravel()]))
        return out


def dup(m, how, tmpdir, step):
    if how == "copy":
        return m.copy()
    if how == "pickle":
        return pickle.loads(pickle.dumps(m))
    if how == "dill":
        import dill
        return dill.loads(dill.dumps(m))
    path = os.path.join(tmpdir, "m%d.dill" % step)
    ir.save(path, m)
    new = ir.load(path)
    os.remove(path)
    return new


class Refs:
    """Reference observables of a fresh single-variant model, memoised per abstract parameter vector."""

    def __init__(self, kind):
        self.kind, self.memo = kind, {}

    def get(self, p, order=0):
        p = tuple(p)
        key = p if not order else (p, order)
        if key not in self.memo:
            k = self.kind
            m = k.fresh()
            if order:
                m.reorder_equations(SEQ_ORDERS[order])
            k.assign(m, [p[0]], "g")
            k.assign(m, [p[1]], "rho")
            ref = {}
            if k.name == "sim":
                quiet(m.steady)
                ref["steady"] = k.steady_obs(m)[0]
                m.solve()
                ref["solution"] = k.solution_obs(m)[0]
                ref["simulate"] = k.simulate_obs(m)[0]
            else:
                ref["simulate"] = k.simulate_obs(m)[0]
            self.memo[key] = ref
        return self.memo[key]


def close(a, b, tol=1e-9):
    a, b = np.asarray(a, dtype=float), np.asarray(b, dtype=float)
    return a.shape == b.shape and np.allclose(a, b, rtol=tol, atol=tol, equal_nan=True)


SEQ_ORDERS = {0: [0, 1, 2], 1: [1, 2, 0], 2: [2, 0, 1]}      # equation orders of the Sequential model (indices into the order as written)
TOLS = {1: 1e-11, 2: 1e-10}      # "eigenvalue" tolerance (unit-root classification): no effect on the numbers compared here


def compare_all(chk, kind, refs, models, st, where, payload, opname):
    for h in sorted(st["obj"]):
        variants = st["obj"][h]
        if not len(variants):
            continue
        m = models.get(h)
        if m is None:
            raise MachineryError("handle %s in use in the spec but no model" % h)
        role = "touched" if h == touched(st["last"]) else "bystander"
        if kind.name == "sim":
            want_tol = TOLS.get(st["tol"][h], DEFAULT_TOL[0])
            got_tol = float(m.get_tolerance("eigenvalue"))
            if got_tol != want_tol:
                chk.mismatch("model:sim:%s:tolerance:%s" % (opname, role), where + ": the eigenvalue tolerance of %s is %r, spec %r (a customised tolerance travels with copies and pickles)" % (h, got_tol, want_tol), payload)
                return False
        if m.num_variants != len(variants):
            chk.mismatch("model:%s:%s:num-variants:%s" % (kind.name, opname, role), where + ": %s has %d variants, spec %d" % (h, m.num_variants, len(variants)), payload)
            return False
        try:
            if kind.name == "sim":
                sobs = kind.steady_obs(m)
                lobs = kind.solution_obs(m)
            consistent = all((kind.name in ("seq", "var")) or (not isinstance(v["so"], tlaval.MV) and v["so"] == v["st"] == v["p"]) for v in variants)
            simobs = kind.simulate_obs(m) if consistent else None
        except Exception as ex:
            chk.mismatch("model:%s:%s:observe:%s:%s" % (kind.name, opname, role, type(ex).__name__), where + ": observing %s raised %r" % (h, ex), payload)
            return False
        if kind.name == "var":
            for i, v in enumerate(variants):
                if simobs is not None and not close(simobs[i], refs.get(v["p"])["simulate"], 1e-8):
                    chk.mismatch("model:var:%s:estimates:%s" % (opname, role), where + ": system matrices of %s variant %d differ from a singleton RedVAR estimated on data set %d" % (h, i, v["p"][0]), payload)
                    return False
            continue
        # variant k obtained by iterating over the model / by indexing is the singleton model of variant k's parameters
        try:
            items = list(m)
            got_iter = [(float(np.ravel(it.get_parameters(unpack_singleton=True)["g"])[0]), float(np.ravel(it.get_parameters(unpack_singleton=True)["rho"])[0])) for it in items]
            got_idx = [(float(np.ravel(m[k].get_parameters(unpack_singleton=True)["g"])[0]), float(np.ravel(m[k].get_parameters(unpack_singleton=True)["rho"])[0])) for k in range(m.num_variants)]
        except Exception as ex:
            chk.mismatch("model:%s:%s:iterate:%s" % (kind.name, opname, type(ex).__name__), where + ": iterating over the variants of %s raised %r" % (h, ex), payload)
            return False
        want = [(G[v["p"][0]], RHO[v["p"][1]]) for v in variants]
        if got_iter != want or got_idx != want or any(it.num_variants != 1 for it in items):
            chk.mismatch("model:%s:%s:variant-views" % (kind.name, opname), where + ": variants of %s by iteration have (g, rho) = %s, by index %s, spec %s" % (h, got_iter, got_idx, want), payload)
            return False
        for i, v in enumerate(variants):
            if kind.name == "sim":
                if not isinstance(v["st"], tlaval.MV) and not close(sobs[i], refs.get(v["st"])["steady"]):
                    chk.mismatch("model:sim:%s:steady:%s" % (opname, role), where + ": steady state of %s variant %d is\n%s\nsingleton reference for %s:\n%s" % (
                        h, i, sobs[i], tuple(v["st"]), refs.get(v["st"])["steady"]), payload)
                    return False
                if not isinstance(v["so"], tlaval.MV) and (lobs[i] is None or not close(lobs[i], refs.get(v["so"])["solution"], 1e-8)):
                    chk.mismatch("model:sim:%s:solution:%s" % (opname, role), where + ": solution of %s variant %d differs from the singleton reference for %s" % (h, i, tuple(v["so"])), payload)
                    return False
            ref_sim = refs.get(v["p"], st["tol"][h])["simulate"] if kind.name == "seq" else refs.get(v["p"])["simulate"]
            if simobs is not None and not close(simobs[i], ref_sim, 1e-8):
                chk.mismatch("model:%s:%s:simulate:%s" % (kind.name, opname, role), where + ": simulation of %s variant %d differs from the singleton reference for %s%s" % (
                    h, i, tuple(v["p"]), " with its equations in order %s" % SEQ_ORDERS[st["tol"][h]] if kind.name == "seq" else ""), payload)
                return False
    return True


def touched(last):
    return last[2] if last[0] == "dup" else last[1]


DEFAULT_TOL = [None]


def check_history(chk, kind, refs, states, tmpdir):
    models = {"h1": kind.fresh()}
    if kind.name == "sim" and DEFAULT_TOL[0] is None:
        DEFAULT_TOL[0] = float(models["h1"].get_tolerance("eigenvalue"))
    kind.assign(models["h1"], [1], "g")
    kind.assign(models["h1"], [1], "rho")
    ops = [_plain(s["last"]) for s in states[1:]]
    orders = {}
    payload = {"kind": "model-hist", "model": kind.name, "ops": ops}
    for i, st in enumerate(states[1:], 1):
        last = st["last"]
        op = last[0]
        where = "[%s] step %d %s of history %s" % (kind.name, i, _plain(last), ops[:i])
        try:
            if op == "assign":
                _, h, which, name, val = last
                idx = 0 if name == "g" else 1
                kind.assign(models[h], [v["p"][idx] for v in st["obj"][h]], name)
            elif op == "steady":
                quiet(models[last[1]].steady)
            elif op == "solve":
                models[last[1]].solve()
            elif op == "alter":
                models[last[1]].alter_num_variants(last[2])
            elif op == "tol" and kind.name == "seq":
                h_, tgt = last[1], last[2]
                cur = SEQ_ORDERS[orders.get(h_, 0)]
                models[h_].reorder_equations([cur.index(e) for e in SEQ_ORDERS[tgt]])
                orders[h_] = tgt
            elif op == "tol":
                models[last[1]].override_tolerance(eigenvalue=TOLS[last[2]])
            elif op == "dup":
                orders[last[2]] = orders.get(last[1], 0)
                try:
                    models[last[2]] = dup(models[last[1]], last[3], tmpdir, i)
                except Exception as ex:
                    # record it, then carry on with dill so that the rest of the history is still checked
                    chk.mismatch("model:%s:dup-%s:raised:%s" % (kind.name, last[3], type(ex).__name__), where + ": raised %r" % (ex,), payload)
                    models[last[2]] = dup(models[last[1]], "dill", tmpdir, i)
            else:
                raise MachineryError("unknown op %r" % (last,))
        except MachineryError:
            raise
        except Exception as ex:
            chk.mismatch("model:%s:%s:raised:%s" % (kind.name, op if op != "dup" else "dup-" + last[3], type(ex).__name__), where + ": raised %r" % (ex,), payload)
            return
        if not compare_all(chk, kind, refs, models, st, where, payload, op if op != "dup" else "dup-" + last[3]):
            return


def portable_roundtrip(chk, kind):
    """to_portable / from_portable round-trips names, kinds, log status, equations, flags and parameter values."""
    if kind.name != "sim":
        return
    m = kind.fresh()
    kind.assign(m, [2], "g")
    kind.assign(m, [3], "rho")
    payload = {"kind": "portable"}
    try:
        p = m.to_portable()
        n = ir.Simultaneous.from_portable(p)
    except Exception as ex:
        chk.mismatch("portable:raised:" + type(ex).__name__, "to_portable/from_portable raised %r" % (ex,), payload)
        return
    try:
        same = (m.get_names() == n.get_names()
                and all(m.get_names(kind=k) == n.get_names(kind=k) for k in (ir.TRANSITION_VARIABLE, ir.PARAMETER, ir.ANY_SHOCK, ir.MEASUREMENT_VARIABLE))
                and m.get_log_status() == n.get_log_status()
                and tuple(e.human for e in m.get_dynamic_equations()) == tuple(e.human for e in n.get_dynamic_equations())
                and m.is_linear == n.is_linear and m.is_flat == n.is_flat)
        pm, pn = m.get_parameters(unpack_singleton=True), n.get_parameters(unpack_singleton=True)
        same = same and all(pm[k] == pn[k] or (isinstance(pm[k], float) and math.isnan(pm[k]) and math.isnan(pn[k])) for k in pm)
    except Exception as ex:
        chk.mismatch("portable:compare:" + type(ex).__name__, "comparing the portable round trip raised %r" % (ex,), payload)
        return
    if not same:
        chk.mismatch("portable:differs", "from_portable(to_portable(m)) differs from m in names, kinds, log status, equations, flags or parameter values", payload)


def run(chk):
    thorough = chk.tier == "thorough"
    tmpdir = chk.scratch.sub("pk")
    for kind in (SimKind(), SeqKind(), VarKind()):
        refs = Refs(kind)
        simdir = chk.scratch.sub("sim_" + kind.name)
        per_worker = (150 if thorough else 40) if kind.name == "sim" else (60 if thorough else 15)
        r = tlc.run("ModelObjects", "ModelObjects.%s.cfg" % kind.name, chk.scratch, workers=8,
                    simulate="file=%s/tr,num=%d" % (simdir, per_worker), depth=14, seed=chk.seed % 10**6, timeout=3600)
        if r.violated or r.error:
            raise MachineryError("ModelObjects simulation failed:\n" + r.out[-2500:])
        files = sorted(glob.glob(simdir + "/tr_*"))
        if len(files) < per_worker * 4:
            raise MachineryError("ModelObjects simulation produced only %d behaviours" % len(files))
        m = re.search(r"The number of states generated: (\d+)", r.out)
        gen = int(m.group(1)) if m else len(files) * 10
        chk.states += gen
        chk.transitions += gen
        chk.tlc_runs.append({"run": "ModelObjects/%s/simulate" % kind.name, "generated": gen, "behaviours": len(files), "wall_s": round(r.wall, 1)})
        count = {}
        for i, fn in enumerate(files):
            states = tlaval.parse_sim_file(fn)
            for s in states[1:]:
                count[s["last"][0]] = count.get(s["last"][0], 0) + 1
            check_history(chk, kind, refs, states, tmpdir)
            if i == 2:
                chk.sample({"model": kind.name, "history": [_plain(s["last"]) for s in states[1:]], "final": _plain(states[-1]["obj"])})
        need = {"assign", "alter", "dup"} | ({"steady", "solve"} if kind.name == "sim" else set())
        if need - set(count):
            raise MachineryError("ModelObjects/%s: actions never exercised: %s" % (kind.name, sorted(need - set(count))))
        chk.replayed += len(files)
        chk.notes["actions_replayed_" + kind.name] = count
        if kind.name != "var":
            portable_roundtrip(chk, kind)
    chk.rule = ("simulated behaviours of ModelObjects (depth 14, three handles, <= 3 variants, 2 parameters x 3 values; assign to one/all variants, "
                "steady, solve, alter_num_variants, copy / pickle / dill / save-load) on a Simultaneous growth model with log-variables and on a "
                "Sequential model, and (parameter = data set estimated on) on a RedVAR; after every step all variants of all handles are compared with fresh single-variant references; a case is one behaviour")
    chk.assumptions = ["model[k] / get_variant views share variant objects by design and are not used as copies",
                       "RedVAR objects are not driven through the state machine (only Simultaneous and Sequential)"]


def replay(chk, s):
    raise MachineryError("model histories are regenerated deterministically from the seed: re-run ./check C20 with the same VERIF_SEED")
