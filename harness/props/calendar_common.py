"""Shared by C09 and C11: run CalendarMC in TLC, dump the computed scenarios, build irispie periods."""
import os
import irispie as ir
from .. import tlc, tlaval

CTOR = {"Y": lambda y, s: ir.yy(y), "H": ir.hh, "Q": ir.qq, "M": ir.mm,
        "D": lambda y, s: ir.dd(y, None, s), "I": lambda y, s: ir.ii(s)}
FREQ = {"Y": ir.Frequency.YEARLY, "H": ir.Frequency.HALFYEARLY, "Q": ir.Frequency.QUARTERLY,
        "M": ir.Frequency.MONTHLY, "D": ir.Frequency.DAILY, "I": ir.Frequency.INTEGER}
LETTERS = "YHQMDI"


def scenarios(chk):
    """Run the exhaustive check of the calendar laws and return the computed scenarios."""
    cfg = "CalendarMC.%s.cfg" % chk.tier
    dump = chk.scratch.file("calendar.dump")
    r = tlc.run("CalendarMC", cfg, chk.scratch, dump=dump, timeout=3600)
    tlc.must_pass(r, "CalendarMC")
    chk.add_tlc(r, "CalendarMC/" + chk.tier)
    out = []
    cnt = {"picked": 0, "seeds": 0}
    def want(b):
        if "done = FALSE" in b:
            cnt["picked" if "picked = TRUE" in b else "seeds"] += 1
        return "done = TRUE" in b
    for st in tlaval.parse_dump(dump, want=want):
        out.append((st["p"], st["out"]))
    os.remove(dump)
    if len(out) != cnt["picked"] or len(out) * 2 + cnt["seeds"] != r.distinct:
        raise tlc.MachineryError("CalendarMC dump has %d computed states, TLC reported %d distinct" % (len(out), r.distinct))
    out.sort(key=lambda po: (LETTERS.index(po[0]["f"]), po[0]["n"]))
    return out


def period(f, o):
    """The irispie period of a scenario, built through the public constructor from (year, segment)."""
    if f == "I":
        return ir.ii(o["n"])
    return CTOR[f](o["year"], o["seg"])
