"""C17 - sequential-model simulation makes every equation hold, also when exogenized.

Spec: SeqSim.tla (one step per (equation, period); transforms exact on integers and exp-powers; exogenized steps back out
the residual), SeqSimMC.tla (models, plans, input data, both execution orders; Inv_StepHolds, Inv_FinalHolds, Inv_ExogExact,
Inv_Frame checked by TLC after every step). Binding: every scenario is built from the source text emitted by the spec and
run through Sequential.simulate; the whole output databox is compared with the spec's final state.
"""
import os, math
import numpy as np
import irispie as ir
from .. import tlc, tlaval
from ..common import MachineryError
from .C09 import _plain
from .C10 import _unplain

T0 = lambda: ir.qq(2020, 1)          # period number 1
PERIODS = list(range(-2, 4))
SPAN = (1, 3)


def fval(v):
    if isinstance(v, tlaval.MV):
        return math.nan
    tag, n = v
    return float(n) if tag == "i" else math.exp(n)


def key(sc):
    return (sc["model"], sc["order"], sc["resp"], sc.get("prep", "as_written"), tuple(sorted((e[0], e[1], e[2], tuple(sorted(e[3])), e[4]) for e in sc["plan"])))


def check(chk, sc, src, d0, d1, stale, reord=()):
    payload = {"kind": "seqsim", "sc": _plain(sc), "src": list(src), "reord": list(reord), "init": {"%s@%d" % k: _plain(v) for k, v in d0.items()},
               "final": {"%s@%d" % k: _plain(v) for k, v in d1.items()}, "stale": stale}
    text = "!equations\n" + "\n".join(src) + "\n"
    tagbase = "seqsim:%s:%s" % (sc["model"], sc["order"])
    plan_desc = sorted((e[0], e[1], e[2], sorted(e[3])) + (() if e[4] == -1 else ("shift=%d" % e[4],)) for e in sc["plan"])
    desc = "model %s (%s)%s order=%s plan=%s residual pattern %d" % (sc["model"], " ".join(src), (" after reorder_equations(%s)" % (list(reord),)) if len(reord) else "", sc["order"], plan_desc, sc["resp"])
    base = T0() - 1          # period number t is base + t
    try:
        m = ir.Sequential.from_string(text)
        if len(reord):
            m.reorder_equations(tuple(reord))
        db = ir.Databox()
        names = sorted({k[0] for k in d0})
        for n in names:
            vals = np.array([fval(d0[(n, t)]) for t in PERIODS], dtype=float)
            db[n] = ir.Series(start=base + PERIODS[0], values=vals)
        span = ir.Span(base + SPAN[0], base + SPAN[1])
        plan = None
        if sc["plan"]:
            plan = ir.SimulationPlan(m, span)
            for (lhs, ptr, wd, mask, sh) in sorted(sc["plan"], key=lambda e: e[0]):
                dates = tuple(base + t for t in sorted(mask))
                plan.exogenize(dates, lhs, transform=(None if ptr == "none" else ptr), when_data=bool(wd), **({} if sh == -1 else {"shift": int(sh)}))
        out = m.simulate(db, span, plan=plan, execution_order=sc["order"], when_simulates_nan="silent")
    except Exception as ex:
        chk.mismatch(tagbase + ":raised:" + type(ex).__name__, desc + ": raised %r" % (ex,), payload)
        return
    lhs = {e.split("=")[0].strip().split("(")[-1].rstrip(") ") for e in src}
    if len(reord):
        want = [src[k].split("=")[0].strip().split("(")[-1].rstrip(") ") for k in reord]
        if list(m.lhs_names_in_equations) != want:
            chk.mismatch(tagbase + ":reorder", desc + ": left-hand names after reorder are %r, expected %r" % (m.lhs_names_in_equations, want), payload)
            return
    for n in names:
        ident = {e.split("=")[0].strip() for e in src if "===" in e}
        if (n not in lhs and not (n.startswith("res_") and n[4:] in lhs)) or (n.startswith("res_") and n[4:] in ident):
            continue            # plan series are inputs only; they need not be part of the output
        try:
            got = out[n].get_data(ir.Span(base + PERIODS[0], base + PERIODS[-1])).flatten().tolist()
        except Exception as ex:
            chk.mismatch(tagbase + ":output:" + type(ex).__name__, desc + ": reading %s from the output raised %r" % (n, ex), payload)
            return
        for t, g in zip(PERIODS, got):
            e = fval(d1[(n, t)])
            if math.isnan(e) != math.isnan(g) or (not math.isnan(e) and abs(g - e) > 1e-9 * max(1.0, abs(e))):
                kind = "residual" if n.startswith("res_") else ("lhs" if (n, t) in d1 and n in {x.split("=")[0] for x in ()} else "value")
                is_exog = any(e_[0] == n.replace("res_", "") and t in e_[3] for e_ in sc["plan"])
                chk.mismatch("%s:%s%s" % (tagbase, "res" if n.startswith("res_") else "var", ":exogenized" if is_exog else ""),
                             desc + ": %s[%+d] is %r, spec %r" % (n, t, g, e), payload)
                return


def run(chk):
    dump = chk.scratch.file("seqsim.dump")
    r = tlc.must_pass(tlc.run("SeqSimMC", "SeqSimMC.thorough.cfg" if chk.tier == "thorough" else "SeqSimMC.cfg", chk.scratch, dump=dump, timeout=1800), "SeqSimMC")
    chk.add_tlc(r, "SeqSimMC")
    init, final = {}, {}
    for st in tlaval.parse_dump(dump, want=lambda b: "pc = 0" in b or "fin = TRUE" in b):
        k = key(st["sc"])
        if st["pc"] == 0:
            init[k] = st
        elif st["fin"]:
            final[k] = st
    os.remove(dump)
    if not init or set(init) != set(final):
        raise MachineryError("SeqSimMC: %d initial and %d final states do not pair up" % (len(init), len(final)))
    nonstale = 0
    for k in sorted(init, key=repr):
        s0, s1 = init[k], final[k]
        check(chk, s0["sc"], s0["src"], dict(s0["d"]), dict(s1["d"]), s1["stale"], s0["reord"])
        nonstale += not s1["stale"]
        # both execution orders agree whenever neither reads a value before it is computed (spec-level self check)
        other = (k[0], "equations_dates" if k[1] == "dates_equations" else "dates_equations", k[2], k[3], k[4])
        if not s1["stale"] and other in final and not final[other]["stale"] and dict(final[other]["d"]) != dict(s1["d"]):
            raise MachineryError("SeqSimMC: execution orders disagree without a stale read in %r" % (k,))
    if nonstale < len(init) // 4:
        raise MachineryError("SeqSimMC: only %d of %d scenarios are free of stale reads (Inv_FinalHolds nearly vacuous)" % (nonstale, len(init)))
    chk.replayed += len(init)
    k = sorted(init, key=repr)[len(init) // 2]
    chk.sample({"scenario": _plain(init[k]["sc"]), "source": list(init[k]["src"]), "stale_read": final[k]["stale"],
                "spec_final": {"%s@%d" % c: _plain(v) for c, v in sorted(dict(final[k]["d"]).items()) if c[1] >= 1}})
    chk.notes["scenarios_without_stale_read"] = nonstale
    chk.exhaustive = True
    chk.rule = ("5 models (transforms none/diff/roc/pct/log/diff_log, an identity, lags 1-2, a mis-ordered model) x 2 execution orders x "
                "2 residual patterns (zero / non-zero, also at exogenized points) x all plans with <= 2 exogenized variables over period masks "
                "{1}, {2,3}, {1,2,3}, matching plan transforms, when_data with a missing input; a case is one scenario (a full simulation)")
    chk.assumptions = ["values are integers or exp(integer), so every transform is exact; numpy exp/log trusted",
                       "cross combinations of plan transform and lhs transform that leave the integer/exp domain are out of bound"]


def replay(chk, s):
    sc = _unplain(s["sc"])
    sc["plan"] = frozenset((e[0], e[1], e[2], frozenset(e[3])) for e in s["sc"]["plan"])
    def und(dd):
        out = {}
        for k, v in dd.items():
            n, t = k.rsplit("@", 1)
            out[(n, int(t))] = tlaval.MV("NaN") if v == "NaN" else tuple(v)
        return out
    check(chk, sc, s["src"], und(s["init"]), und(s["final"]), s["stale"], s.get("reord", ()))
    chk.replayed += 1
    chk.states = chk.transitions = 1
    chk.sample({"scenario": s["sc"]})
