"""C04 - model source text is translated to equations without changing their meaning.

Spec: ModelLang.tla (structured models as the meaning; Expand for the pseudofunctions; generative Render for every combination of
syntactic alternatives: keyword spellings and shortcuts, {k} / [k], explicit + in leads, = / :=, ^ / **, separators, line and block
comments, ... continuations, !log-variables as list or !all-but, pseudofunction spellings and default shifts, !for (anonymous, named,
contextual <...>), !if / !else, $substitutions$, !! steady variants, descriptions), ModelLangMC.tla (base models, choices; TLC checks
that expansion removes every macro node and that the base models are not confused by any rendering). Binding: every rendered text is
parsed by Simultaneous.from_string and compared with the meaning: names by kind and order, descriptions, log status, and every dynamic and
steady equation evaluated on random data against the spec's expanded trees; all renderings of one model must give the same model.
"""
import os, math, random
import numpy as np
import irispie as ir
from .. import tlc, tlaval
from ..common import MachineryError
from .C09 import _plain


class Dom(Exception):
    pass


def ev(e, get):
    k = e[0]
    if k == "num":
        return e[1][0] / e[1][1]
    if k == "par":
        return get(e[1], 0)
    if k == "var":
        return get(e[1], e[2])
    if k == "neg":
        return -ev(e[1], get)
    if k in ("add", "sub", "mul", "div", "pow"):
        a, b = ev(e[1], get), ev(e[2], get)
        return a + b if k == "add" else a - b if k == "sub" else a * b if k == "mul" else a / b if k == "div" else a ** b
    if k == "fn":
        a = ev(e[2], get)
        if e[1] == "log":
            return math.log(a)
        if e[1] == "exp":
            return math.exp(a)
        raise MachineryError("function %r not expected in C04 trees" % (e[1],))
    raise MachineryError("unexpanded node %r" % (k,))


def model_signature(m):
    """What must not depend on the rendering: names in order, descriptions, log status, and the value of every dynamic and steady
    equation on one fixed data array (the equation text itself may differ cosmetically: := vs =, ^ vs **, parentheses of a substitution)."""
    n2q = m.create_name_to_qid()
    nq = max(n2q.values()) + 1
    # (the data of a quantity depend on its NAME, not on its position: the declaration order is a choice of the rendering)
    fixed = np.zeros((nq, 16), dtype=float)
    for r, nme in enumerate(sorted(n2q)):
        fixed[n2q[nme], :] = 0.0 if (nme.startswith("ant_") or nme.startswith("std_")) else [1.0 + ((7 * r + 3 * c) % 11) / 7.0 for c in range(16)]
    dyn = tuple(np.round(np.asarray(m._invariant._plain_dynamic_equator.eval(fixed, 8), dtype=float).flatten(), 9).tolist())
    std = tuple(np.round(np.asarray(m._invariant._plain_steady_equator.eval(fixed, 8), dtype=float).flatten(), 9).tolist())
    pars = set(m.get_names(kind=ir.PARAMETER))
    # (the order of the parameters is a choice of the rendering; it is compared with the declared order in check())
    return (tuple(n for n in m.get_names() if n not in pars), tuple(sorted(pars)), tuple(sorted(m.create_name_to_description().items())), tuple(sorted(dict(m.get_log_status()).items())), dyn, std)


def _cst(meaning):
    """Value of the contextual constant <cst>: the constant of the flag-dependent equation (the third one) of this model."""
    rhs = meaning["eqs"][2]["rhs"]
    c = rhs[2] if rhs[0] == "add" and rhs[2][0] == "num" else ("num", (0, 1))
    return c[1][0] // c[1][1] if c[1][1] == 1 else c[1][0] / c[1][1]


class _OneFingerprint:
    """All mismatches of the nested-pseudofunction model are one finding."""
    def __init__(self, chk):
        self.chk = chk
    def mismatch(self, fp, what, payload):
        self.chk.mismatch("lang:nested-pseudofunctions", what, payload)


def check(chk, sc, text, meaning, rnd, signatures, paorder=None):
    if sc["mid"] == "D":
        chk = _OneFingerprint(chk)
    payload = {"kind": "lang", "model": sc["mid"], "choices": _plain(sc["ch"]), "text": list(text)}
    src = "\n".join(text) + "\n"
    ch = sc["ch"]
    tag = "lang:%s" % ch["fac"]
    desc = "model %s rendered with %s:\n%s" % (sc["mid"], {k: v for k, v in sorted(_plain(ch).items())}, src)
    try:
        m = ir.Simultaneous.from_string(src, context={"flag": bool(meaning["flag"]), "names": ["a", "b"], "cst": _cst(meaning), "third": meaning["eqs"][2]["desc"]})
    except Exception as ex:
        chk.mismatch(tag + ":raised:" + type(ex).__name__, desc + "\nraised %r" % (ex,), payload)
        return
    try:
        kinds = {"tv": ir.TRANSITION_VARIABLE, "sh": ir.UNANTICIPATED_SHOCK if hasattr(ir, "UNANTICIPATED_SHOCK") else ir.TRANSITION_SHOCK, "pa": ir.PARAMETER, "mv": ir.MEASUREMENT_VARIABLE}
    except Exception:
        kinds = {"tv": ir.TRANSITION_VARIABLE, "pa": ir.PARAMETER, "mv": ir.MEASUREMENT_VARIABLE}
    n2d = m.create_name_to_description()
    logs = dict(m.get_log_status())
    for key, kind in kinds.items():
        want = [q[0] for q in meaning[key]]
        if key == "pa" and paorder is not None:
            want = list(paorder)
        got = [n for n in m.get_names(kind=kind) if not n.startswith("std_")]
        if got != want:
            chk.mismatch(tag + ":names:" + key, desc + "\nnames of kind %s are %r, declared %r" % (key, got, want), payload)
            return
        for n, d in meaning[key]:
            if (n2d.get(n) or "") != d:
                chk.mismatch(tag + ":description", desc + "\ndescription of %s is %r, declared %r" % (n, n2d.get(n), d), payload)
                return
    for n, flag in logs.items():
        if bool(flag) != (n in meaning["logs"]):
            chk.mismatch(tag + ":log-status", desc + "\nlog status of %s is %r, declared %r" % (n, flag, n in meaning["logs"]), payload)
            return
    eqs = meaning["eqs"]
    objs = m.get_dynamic_equation_objects()
    if len(objs) != len(eqs):
        chk.mismatch(tag + ":num-equations", desc + "\n%d equations, declared %d" % (len(objs), len(eqs)), payload)
        return
    for o, q in zip(objs, eqs):
        if (o.description or "") != q["desc"]:
            chk.mismatch(tag + ":equation-description", desc + "\nequation %r has description %r, declared %r" % (o.human, o.description, q["desc"]), payload)
            return
    # evaluate every equation on random data: rhs - lhs of the expanded trees
    n2q = m.create_name_to_qid()
    nq = max(n2q.values()) + 1
    for trial in range(2):
        data = np.array([[rnd.uniform(0.5, 3.0) for _ in range(16)] for _ in range(nq)], dtype=float)
        for nme, q in n2q.items():
            if nme.startswith("ant_") or nme.startswith("std_"):
                data[q, :] = 0.0
        t = 8
        get = lambda name, shift: float(data[n2q[name], t + shift])
        for label, equator, lk, rk in (("dynamic", m._invariant._plain_dynamic_equator, "lhs", "rhs"), ("steady", m._invariant._plain_steady_equator, "slhs", "srhs")):
            try:
                got = np.asarray(equator.eval(data, t), dtype=float).flatten()
            except Exception as ex:
                chk.mismatch(tag + ":eval:" + type(ex).__name__, desc + "\nevaluating the %s equations raised %r" % (label, ex), payload)
                return
            for i, q in enumerate(eqs):
                e = ev(q[rk], get) - ev(q[lk], get)
                if not abs(got[i] - e) <= 1e-9 * max(1.0, abs(e)):
                    chk.mismatch(tag + ":equation-value", desc + "\n%s equation %d (%s) evaluates to %r on random data, rhs - lhs of the expanded equation is %r" % (
                        label, i + 1, objs[i].human, got[i], e), payload)
                    return
    # source variations that do not change meaning do not change the model
    sig = model_signature(m)
    first = signatures.setdefault(sc["mid"], (sig, src))
    if first[0] != sig:
        chk.mismatch(tag + ":model-differs", desc + "\nthe model differs from the one built from another rendering of the same structured model:\n%s" % first[1], payload)


def run(chk):
    rnd = random.Random(chk.seed)
    dump = chk.scratch.file("langm.dump")
    r0 = tlc.must_pass(tlc.run("ModelLangMC", "ModelLangMC.meaning.cfg", chk.scratch, dump=dump, workers=4, timeout=600), "ModelLangMC/meaning")
    chk.add_tlc(r0, "ModelLangMC/meaning")
    meanings = {}
    for st in tlaval.parse_dump(dump, want=lambda b: "done = TRUE" in b):
        meanings[st["sc"]["mid"]] = st["out"]["meaning"]
    os.remove(dump)
    dump = chk.scratch.file("lang.dump")
    r = tlc.must_pass(tlc.run("ModelLangMC", "ModelLangMC.%s.cfg" % chk.tier, chk.scratch, dump=dump, timeout=7200, heap="12g"), "ModelLangMC")
    chk.add_tlc(r, "ModelLangMC/" + chk.tier)
    n, signatures, seen = 0, {}, {}
    for st in tlaval.parse_dump(dump, want=lambda b: "done = TRUE" in b):
        if not st["out"]["expanded"]:
            raise MachineryError("ModelLangMC: expansion not total")
        text = st["out"]["text"]
        check(chk, st["sc"], text, meanings[st["sc"]["mid"]], rnd, signatures, paorder=st["out"]["paorder"])
        for k, v in st["sc"]["ch"].items():
            seen.setdefault(k, set()).add(v)
        n += 1
        if n in (17, 1500):
            chk.sample({"model": st["sc"]["mid"], "choices": _plain(st["sc"]["ch"]), "text": list(text)})
    os.remove(dump)
    missing = [k for k, dom in (("kw", 3), ("br", 2), ("eq", 2), ("pw", 2), ("sep", 3), ("cm", 3), ("logstyle", 2), ("mac", 2), ("fac", 6)) if len(seen.get(k, ())) < dom]
    if missing:
        raise MachineryError("ModelLangMC: alternatives never exercised: %s" % missing)
    chk.replayed += n
    chk.exhaustive = chk.tier == "thorough"
    chk.rule = ("3 structured models (macros diff, diff_log, pct, roc, shift, mov_sum, mov_avg, mov_prod with default, negative and positive shifts, a "
                "function inside a macro, !! steady variant, descriptions, log status by list or complement) x all combinations of 12 syntactic choices "
                "(124k renderings; quick tier: every 40th choice vector, all alternatives of each choice covered); a case is one rendered source")
    chk.assumptions = ["macro arguments have at most one level of parentheses (the implementation's pseudofunction pattern does not look deeper; deeper arguments are not generated)",
                       "equations are evaluated through the model's own plain equators on random positive data; Jinja templating, autoswaps and pre/post-processor blocks are not covered"]


def replay(chk, s):
    raise MachineryError("re-run ./check C04 (renderings are regenerated deterministically)")
