"""C01 - the first-order solution satisfies the model equations and is the stable one.

Spec: ModelLib.tla (library of small linear RE models: structural equations, measurement block, reduced-form certificate, roots),
LinearRE.tla / LinearREMC.tla (period-by-period simulation; Inv_StructuralHolds - every structural equation has zero residual with
leads read from the model-consistent continuation - Inv_Steady, Inv_LevelIsSteadyPlusDeviation checked by TLC in exact rational
arithmetic on every behaviour). Binding: the model source emitted by the spec is parsed, solved and simulated by irispie and the whole
path (transition and measurement variables) compared with the spec's path; reported root counts compared with the spec's roots.
"""
import os, math, zlib
import numpy as np
import irispie as ir
from .. import tlc, tlaval
from ..common import MachineryError
from .C09 import _plain
from .lre_common import model, per, fr, quiet, level_of, state_of

TN = 4


def key(sc):
    return (sc["id"], sc["dev"], _plain(sc["init"]).__repr__(), tuple(sorted(sc["u"])), tuple(sorted(sc["a"])))


def build_db(m, sc, out, path):
    dev = sc["dev"]
    span_all = ir.Span(per(-1), per(TN + 3))
    db = ir.Databox.steady(m, span_all, deviation=dev)
    logv = set(out["logv"])
    for j, n in enumerate(out["vars"]):
        for k in (-1, 0):
            db[n][per(k)] = level_of(n, logv, fr(path[k][j]), dev)
    for j, n in enumerate(out["shocks"]):
        for k in range(1, TN + 1):
            db[n][per(k)] = float(fr(out["u"][k - 1][j]))
        for k in range(1, TN + 3):
            db["ant_" + n][per(k)] = float(fr(out["a"][k - 1][j]))
    for j, n in enumerate(out["mshocks"]):
        for k in range(1, TN + 1):
            db[n][per(k)] = float(fr(out["w"][k - 1][j]))
    return db


def check(chk, sc, out, path, block=False, deterministic=False):
    payload = {"kind": "lre", "sc": _plain(sc), "src": list(out["src"])}
    tag = "lre:%s:%s%s" % (sc["id"], "dev" if sc["dev"] else "lev", (":measurement-block" if block else "") + (":deterministic" if deterministic else ""))
    desc = ("(measurement equations written as a simultaneous block) " if block else "") + ("(model created with deterministic=True) " if deterministic else "") + "model %s deviation=%s init=%s unanticipated=%s anticipated=%s" % (sc["id"], sc["dev"], _plain(sc["init"]), sorted(sc["u"]), sorted(sc["a"]))
    try:
        m = model(out["src"], out["linear"], deterministic=deterministic)
        db = build_db(m, sc, out, path)
        sim = quiet(m.simulate, db, ir.Span(per(1), per(TN)), method="first_order", deviation=bool(sc["dev"]))
        # the same simulation split into frames at the unanticipated shocks must give the same path
        sim_split = quiet(m.simulate, db, ir.Span(per(1), per(TN)), method="first_order", deviation=bool(sc["dev"]), force_split_frames=True)
    except Exception as ex:
        chk.mismatch(tag + ":raised:" + type(ex).__name__, desc + ": raised %r" % (ex,), payload)
        return
    logv = set(out["logv"])
    for j, n in enumerate(out["vars"]):
        for k in range(1, TN + 1):
            e = float(fr(path[k][j]))
            g = state_of(n, logv, float(sim_split[n].get_data(per(k))[0, 0]))
            if not abs(g - e) <= 1e-9 * max(1.0, abs(e)):
                chk.mismatch(tag + ":split-frames", desc + ": with force_split_frames=True %s%s in period %d is %r, spec path %r" % ("log " if n in logv else "", n, k, g, e), payload)
                return
    for j, n in enumerate(out["vars"]):
        for k in range(1, TN + 1):
            e = float(fr(path[k][j]))
            g = state_of(n, logv, float(sim[n].get_data(per(k))[0, 0]))
            if not abs(g - e) <= 1e-9 * max(1.0, abs(e)):
                chk.mismatch(tag + ":path", desc + ": %s%s in period %d is %r, spec path %r" % ("log " if n in logv else "", n, k, g, e), payload)
                return
    for j, n in enumerate(out["mvars"]):
        for k in range(1, TN + 1):
            e = float(fr(out["meas"][k - 1][j]))
            g = float(sim[n].get_data(per(k))[0, 0])
            if not abs(g - e) <= 1e-9 * max(1.0, abs(e)):
                chk.mismatch(tag + ":measurement", desc + ": measurement variable %s in period %d is %r, spec %r" % (n, k, g, e), payload)
                return


PARAM_SRC = """!transition_variables
x
!transition_shocks
ex
!parameters
a, b, c, d, k, d0, m0, m1, h
!transition_equations
0 = k + a*x{+1} + b*x + c*x{-1} + d*ex;
!measurement_variables
obs
!measurement_shocks
w
!measurement_equations
obs = d0 + m0*x + m1*x{-1} + h*w;
"""
_PM = {}


def param_values(out):
    """Parameter values that make PARAM_SRC the library model described by `out` (one forward-looking equation in x, one measurement equation)."""
    eq = out["eqs"][0]
    co = {sh: float(fr(cf)) for (cf, j, sh) in eq["tx"]}
    me = out["meqs"][0]
    mo = {sh: float(fr(cf)) for (cf, j, sh) in me["tx"]}
    return {"a": co.get(1, 0.0), "b": co.get(0, 0.0), "c": co.get(-1, 0.0), "d": float(fr(eq["te"][0][0])), "k": float(fr(eq["c"])),
            "d0": float(fr(me["d"])), "m0": mo.get(0, 0.0), "m1": mo.get(-1, 0.0), "h": float(fr(me["tw"][0][0]))}


def check_variants(chk, items):
    """Variant k of ONE multi-variant parametric model must follow the spec path of the library model whose coefficients it was assigned."""
    scs = [it[0] for it in items]
    outs = [it[1] for it in items]
    paths = [it[2] for it in items]
    ids = [sc["id"] for sc in scs]
    dev = bool(scs[0]["dev"])
    payload = {"kind": "lre-variants", "ids": ids, "sc": _plain(scs[0])}
    tag = "lre-variants:%s:%s" % ("+".join(ids), "dev" if dev else "lev")
    desc = "one linear model with %d parameter variants = library models %s, deviation=%s init=%s unanticipated=%s anticipated=%s" % (
        len(ids), ids, dev, _plain(scs[0]["init"]), sorted(scs[0]["u"]), sorted(scs[0]["a"]))
    try:
        key = tuple(ids)
        if key not in _PM:
            m = ir.Simultaneous.from_string(PARAM_SRC, linear=True)
            m.alter_num_variants(len(ids))
            pv = [param_values(o) for o in outs]
            m.assign(**{n: [p[n] for p in pv] for n in pv[0]})
            quiet(m.steady)
            m.solve()
            _PM[key] = m
        m = _PM[key]
        span_all = ir.Span(per(-1), per(TN + 3))
        db = ir.Databox.steady(m, span_all, deviation=dev)
        for k_ in (-1, 0):
            db["x"][per(k_)] = [float(fr(p[k_][0])) for p in paths]
        for k_ in range(1, TN + 1):
            db["ex"][per(k_)] = [float(fr(o["u"][k_ - 1][0])) for o in outs]
            db["w"][per(k_)] = [float(fr(o["w"][k_ - 1][0])) for o in outs]
        for k_ in range(1, TN + 3):
            db["ant_ex"][per(k_)] = [float(fr(o["a"][k_ - 1][0])) for o in outs]
        sim = quiet(m.simulate, db, ir.Span(per(1), per(TN)), method="first_order", deviation=dev)
    except Exception as ex:
        chk.mismatch(tag + ":raised:" + type(ex).__name__, desc + ": raised %r" % (ex,), payload)
        return
    for v, (o, p) in enumerate(zip(outs, paths)):
        for k_ in range(1, TN + 1):
            for name, e in (("x", float(fr(p[k_][0]))), ("obs", float(fr(o["meas"][k_ - 1][0])))):
                g = float(sim[name].get_data(per(k_))[0, v])
                if not abs(g - e) <= 1e-9 * max(1.0, abs(e)):
                    chk.mismatch(tag + ":path", desc + ": %s of variant %d (coefficients of %s) in period %d is %r, spec path %r" % (name, v, ids[v], k_, g, e), payload)
                    return


def check_roots(chk, out, ident):
    payload = {"kind": "roots", "id": ident, "src": list(out["src"])}
    try:
        m = ir.Simultaneous.from_string("\n".join(out["src"]) + "\n", linear=bool(out["linear"]))
        quiet(m.steady)
        try:
            m.solve()
        except Exception:
            pass
        n_unstable = len(m.get_eigenvalues(kind=ir.UNSTABLE))
    except Exception as ex:
        chk.mismatch("roots:%s:raised:%s" % (ident, type(ex).__name__), "model %s: root count raised %r" % (ident, ex), payload)
        return
    if n_unstable != out["nunstable"]:
        chk.mismatch("roots:%s" % ident, "model %s: %d unstable roots reported, the model has %d (forward-looking variables: %d)" % (ident, n_unstable, out["nunstable"], out["fwd"]), payload)


def run(chk):
    dump = chk.scratch.file("lre.dump")
    r = tlc.must_pass(tlc.run("LinearREMC", "LinearREMC.thorough.cfg" if chk.tier == "thorough" else "LinearREMC.cfg", chk.scratch, dump=dump, timeout=3600), "LinearREMC")
    chk.add_tlc(r, "LinearREMC")
    n = nblock = ndet = 0
    seen_models = {}
    groups = {}
    for st in tlaval.parse_dump(dump, want=lambda b: "fin = TRUE" in b):
        sc, out, path = st["sc"], st["out"], dict(st["path"])
        check(chk, sc, out, path)
        h_ = zlib.crc32(repr(key(sc)).encode())          # (a sample that does not depend on the order of TLC's dump)
        if chk.tier == "thorough" or h_ % 5 == 0:
            # the same model declared deterministic (no std parameters): simulations are unchanged
            check(chk, sc, out, path, deterministic=True)
            ndet += 1
        if len(out["mvars"]) >= 2 and (chk.tier == "thorough" or h_ % 3 == 0):
            check(chk, sc, dict(out, src=out["srcb"]), path, block=True)
            nblock += 1
        if sc["id"] in ("L2", "L9"):
            groups.setdefault((sc["dev"], repr(_plain(sc["init"])), repr(sorted(sc["u"])), repr(sorted(sc["a"]))), {})[sc["id"]] = (sc, out, path)
        seen_models.setdefault(sc["id"], out)
        n += 1
        if n in (7, 300):
            chk.sample({"scenario": _plain(sc), "source": list(out["src"]), "spec_path": {str(k): _plain(v) for k, v in sorted(path.items())},
                        "spec_measurement": _plain(out["meas"])})
    os.remove(dump)
    nv = 0
    for key_, g_ in sorted(groups.items()):
        if len(g_) == 2:
            check_variants(chk, [g_["L2"], g_["L9"]] if nv % 2 == 0 else [g_["L9"], g_["L2"]])
            nv += 1
    if not nv:
        raise MachineryError("LinearREMC: no pair of scenarios for the multi-variant model")
    if not nblock:
        raise MachineryError("LinearREMC: no scenario with a measurement block")
    chk.replayed += nv + nblock + ndet
    chk.notes["simulations_on_deterministic_models"] = ndet
    chk.notes["two_variant_parametric_simulations"] = nv
    chk.notes["simulations_with_measurement_equations_as_block"] = nblock
    if n * (TN + 1) != r.distinct:
        raise MachineryError("LinearREMC: %d final states for %d distinct states" % (n, r.distinct))
    for ident, out in sorted(seen_models.items()):
        if out["nunstable"] != out["fwd"]:
            raise MachineryError("library model %s is not determinate" % ident)
        check_roots(chk, out, ident)
    # indeterminate / no-stable-solution instances: the reported count must be the true one (and differ from the forward-looking count)
    r2 = tlc.must_pass(tlc.run("RootsMC", "RootsMC.cfg", chk.scratch, dump=dump, timeout=600), "RootsMC")
    chk.add_tlc(r2, "RootsMC")
    for st in tlaval.parse_dump(dump):
        o = st["ro"]
        if not o["ok"]:
            raise MachineryError("RootsMC: root certificate false")
        if o["id"] in ("L7", "L8"):
            check_roots(chk, o, o["id"])
            n += 1
    os.remove(dump)
    chk.replayed += n
    chk.exhaustive = True
    chk.rule = ("8 solvable library models (backward AR(1) with constant; one lag + one lead; the same driven by an AR(1) with two shocks; a log-linear model "
                "with log-variables; a measurement equation with a lagged state and a measurement shock; a second lead; a second lag; a linearised balanced-growth "
                "model whose steady state is a path) x level/deviation x 3 initial windows x "
                "4 unanticipated x 4 anticipated shock profiles, 4 periods; plus root counts incl. an indeterminate and an explosive instance; a case is one simulation")
    chk.assumptions = ["models and parameter values are those of the library (rational roots 1/2, 1/3, 2, 3); arbitrary parameters, complex roots and larger models are out of bound",
                       "scipy QZ / numpy primitives are trusted; tolerance 1e-9"]


def replay(chk, s):
    raise MachineryError("re-run ./check C01 (scenarios are regenerated deterministically)")
