"""C13 - change and cumulation transforms follow their formulas and invert each other.

Spec: Temporal.tla (formulas in exact arithmetic on powers of two; Law_CumInverts checked by TLC on every scenario),
TemporalMC.tla (scenario enumerator). Binding: every computed scenario is replayed through irispie.
"""
import os, math
import numpy as np
import irispie as ir
from .. import tlc, tlaval
from ..common import MachineryError
from .series_common import World, diff_series, snapshot, is_mv, val_to_float, any_cells_of
from .C09 import _plain
from .C10 import _unplain

BASE = {"Q": lambda: ir.qq(2020, 1), "M": lambda: ir.mm(2020, 1), "Y": lambda: ir.yy(2020), "H": lambda: ir.hh(2020, 1),
        "D": lambda: ir.dd(2020, 1, 1), "I": lambda: ir.ii(0)}


class TWorld(World):
    def __init__(self, f):
        self.f = f
        self.base = BASE[f]()


def levels(w, c):
    """Series x_t = 2^E[t] from the canonical record of the exponent series."""
    rows = [[(math.nan if is_mv(v, "NaN") else 2.0 ** v) for v in row] for row in c["rows"]]
    return ir.Series(num_variants=c["nv"], start=w.per(c["start"]), values=np.array(rows, dtype=float))


def check(chk, sc, out):
    f = sc["f"]
    w = TWorld(f)
    payload = {"kind": "temporal", "sc": _plain(sc), "out": _plain(out)}
    fn, form = sc["fn"], sc["form"]
    x = levels(w, out["inp"])
    snap = snapshot(w, x)
    if sc["kind"] == "change":
        sh = sc["sh"][1]
        tag = "change:%s:%s" % (fn, sh if isinstance(sh, str) else "int")
        desc = "%s(%s) on %s (%s, %s)" % (fn, sh, _plain(out["inp"]), f, form)
        args = () if fn.startswith("a") else (sh,)
        try:
            if form == "method":
                y = x.copy()
                r = getattr(y, fn)(*args)
                if r is not None:
                    raise AssertionError("method form returned a value")
            else:
                y = getattr(ir, fn)(x, *args)
        except Exception as ex:
            chk.mismatch("%s:raised:%s" % (tag, type(ex).__name__), desc + ": raised %r" % (ex,), payload)
            return
        if snapshot(w, x) != snap:
            chk.mismatch(tag + ":input-modified", desc + ": input modified", payload)
        d = diff_series(w, y, out["res"], True, "result")
        if d:
            chk.mismatch(tag, desc + ": " + d, payload)
            return
        # conversion helpers must be consistent with the change functions
        helpers = {"pct": [("roc_from_pct", "roc")], "roc": [("pct_from_roc", "pct")],
                   "apct": [("pct_from_apct", "pct"), ("roc_from_apct", "roc")], "aroc": [("roc_from_aroc", "roc")]}
        for hname, target in helpers.get(fn, []):
            try:
                z = getattr(ir, hname)(y) if form == "func" else y.copy()
                if form == "method":
                    getattr(z, hname)()
            except Exception as ex:
                chk.mismatch("helper:%s:raised:%s" % (hname, type(ex).__name__), "%s of %s raised %r" % (hname, desc, ex), payload)
                continue
            d = diff_series(w, z, out[target], False, hname + " result", ignore=any_cells_of(out["res"]))
            if d:
                chk.mismatch("helper:%s" % hname, "%s applied to %s: %s" % (hname, desc, d), payload)
    else:
        k, direction, init = sc["k"], sc["dir"], sc["init"]
        tag = "cum:%s:%s" % (fn, direction)
        desc = "cum_%s(shift=%d, initial=%s, span=%s %d..%d) on the change of %s (%s, %s)" % (
            fn, k, init, direction, sc["a"], sc["b"], _plain(out["inp"]), f, form)
        try:
            c = w.build(out["chg"])
        except Exception as ex:
            raise MachineryError("cannot build change series: %r" % (ex,))
        span = ir.Span(w.per(sc["a"]), w.per(sc["b"])) if direction == "fwd" else ir.Span(w.per(sc["b"]), w.per(sc["a"]), -1)
        initial = x if init == "orig" else None
        try:
            if form == "method":
                y = c.copy()
                getattr(y, "cum_" + fn)(shift=k, initial=initial, span=span)
            else:
                y = getattr(ir, "cum_" + fn)(c, shift=k, initial=initial, span=span)
        except Exception as ex:
            chk.mismatch("%s:raised:%s" % (tag, type(ex).__name__), desc + ": raised %r" % (ex,), payload)
            return
        if snapshot(w, x) != snap:
            chk.mismatch(tag + ":initial-modified", desc + ": the initial-condition series was modified", payload)
        d = diff_series(w, y, out["res"], True, "result")
        if d:
            chk.mismatch(tag, desc + ": " + d, payload)


def run(chk):
    dump = chk.scratch.file("temporal.dump")
    r = tlc.must_pass(tlc.run("TemporalMC", "TemporalMC.cfg", chk.scratch, dump=dump, timeout=3600), "TemporalMC")
    chk.add_tlc(r, "TemporalMC")
    n = 0
    for st in tlaval.parse_dump(dump, want=lambda b: "done = TRUE" in b):
        if not st["out"]["law"]:
            raise MachineryError("TemporalMC: law false in dump")
        check(chk, st["sc"], st["out"])
        n += 1
        if n in (100, 12000):
            chk.sample({"scenario": _plain(st["sc"]), "spec_out": _plain(st["out"])})
    os.remove(dump)
    if n * 2 != r.distinct:
        raise MachineryError("TemporalMC: %d scenarios parsed, %d states reported" % (n, r.distinct))
    chk.replayed += n
    chk.exhaustive = True
    chk.rule = ("change: 6 frequencies x {diff, diff_log, pct, roc} x shifts {-1,-2,-4, yoy, soy, eopy, tty} + annualised variants x 7 input "
                "series (9 periods across a year end, interior/edge NaNs, 2 variants) x method/functional form, plus the conversion helpers; "
                "cumulation: {Q,M,I,Y} x 4 functions x shifts -1..-4 x forward/backward x original/default initial condition x 4 spans x 7 series "
                "x 2 forms; a case is one scenario; data are powers of two so that every formula is exact in the spec")
    chk.assumptions = ["diff_log/pct with shift='tty' in start-of-year periods are unspecified (the documentation says 'unchanged' and shows diff only)",
                       "annualised variants at daily frequency are out of bound (2^365j overflows); numpy log/exp/power are trusted"]


def replay(chk, s):
    check(chk, _unplain(s["sc"]), _unplain(s["out"]))
    chk.replayed += 1
    chk.states = chk.transitions = 1
    chk.sample(s)
