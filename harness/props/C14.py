"""C14 - trend filters return the optimum of their problem; trend plus gap is the data.

Spec: Hp.tla (the constrained HP problem; optimality conditions solved exactly by LinSolve; solution verified, constraints exact,
a straight line returned unchanged - checked by TLC on every scenario), HpMC.tla (scenario enumerator: observation patterns, level and
change constraints inside/outside the data, output spans, log mode). Binding: every scenario replayed through irispie.hpf /
hpf_trend / hpf_gap, singly and stacked pairwise as two-variant series.
"""
import os, math
import numpy as np
import irispie as ir
from .. import tlc, tlaval
from ..common import MachineryError
from .C09 import _plain
from .C10 import _unplain

BASE = lambda: ir.qq(2020, 1)


def nanv(v):
    return isinstance(v, tlaval.MV)


def setup(sc):
    base = BASE()
    log = sc["log"]
    f = (lambda v: 2.0 ** v) if log else float
    data = np.array([math.nan if nanv(v) else f(v) for v in sc["data"]], dtype=float)
    kw = {"smooth": float(sc["lam"]), "log": bool(log)}
    if len(sc["lev"]):
        kw["level"] = ir.Series(start=base + sc["lev"][0], values=np.array([f(sc["lev"][1])]))
    if len(sc["chg"]):
        pts = {sc["chg"][0]: f(sc["chg"][1])}
        if len(sc["chg2"]):
            pts[sc["chg2"][0]] = f(sc["chg2"][1])
        lo_, hi_ = min(pts), max(pts)
        kw["change"] = ir.Series(start=base + lo_, values=np.array([pts.get(t, math.nan) for t in range(lo_, hi_ + 1)], dtype=float))
    if len(sc["span"]):
        kw["span"] = ir.Span(base + sc["span"][1], base + sc["span"][0], -1) if sc["rev"] else ir.Span(base + sc["span"][0], base + sc["span"][1])
        out = (sc["span"][0], sc["span"][1])
    else:
        # default: the span of the input series (trimmed)
        obs = [i for i, v in enumerate(sc["data"]) if not nanv(v)]
        out = (obs[0], obs[-1])
    return base, data, kw, out


def expected(sc, out, t):
    i = t - out["lo"]
    if i < 0 or i >= len(out["num"]):
        return None
    v = out["num"][i] / out["den"][i]
    return 2.0 ** v if sc["log"] else v


def compare(chk, sc, outs, datas, trend, gap, base, span, tag, desc, payload):
    for v, (out, data) in enumerate(zip(outs, datas)):
        for t in range(span[0], span[1] + 1):
            e = expected(sc, out, t)
            if e is None:
                raise MachineryError("output period %d outside the filter span of the spec" % t)
            g = float(trend.get_data(base + t)[0, v])
            if not (abs(g - e) <= 1e-8 * max(1.0, abs(e))):
                chk.mismatch(tag + ":trend", desc + ": trend[%+d] variant %d is %r, exact optimum %r" % (t, v, g, e), payload)
                return False
            d = data[t] if 0 <= t < len(data) else math.nan
            gp = float(gap.get_data(base + t)[0, v])
            if math.isnan(d):
                if not math.isnan(gp):
                    chk.mismatch(tag + ":gap", desc + ": gap[%+d] variant %d is %r where there is no observation" % (t, v, gp), payload)
                    return False
            else:
                back = g * gp if sc["log"] else g + gp
                if not (abs(back - d) <= 1e-8 * max(1.0, abs(d))):
                    chk.mismatch(tag + ":trend-plus-gap", desc + ": trend and gap at %+d variant %d recombine to %r, data %r" % (t, v, back, d), payload)
                    return False
        # the requested span only clips the output
        for s_, what in ((trend, "trend"), (gap, "gap")):
            if s_.start is not None and (s_.start - base < span[0] or s_.end - base > span[1]):
                chk.mismatch(tag + ":span", desc + ": %s is returned on %r..%r, outside the requested span" % (what, s_.start, s_.end), payload)
                return False
    return True


def check(chk, scs, outs):
    """scs: one scenario, or two scenarios differing only in the data (stacked as two variants)."""
    sc = scs[0]
    payload = {"kind": "hp", "scs": [_plain(s) for s in scs], "outs": [_plain(o) for o in outs]}
    tag = "hp:%dv%s" % (len(scs), ":log" if sc["log"] else "")
    base, data0, kw, span = setup(sc)
    datas = [setup(s)[1] for s in scs]
    if len(scs) == 2:
        span = (min(span[0], setup(scs[1])[3][0]), max(span[1], setup(scs[1])[3][1])) if not len(sc["span"]) else span
    x = ir.Series(start=base, values=np.column_stack(datas))
    desc = "hpf(data=%s, %s)" % ([_plain(s["data"]) for s in scs], {k: (v if not isinstance(v, ir.Series) else (v.start, v.get_data().flatten().tolist())) for k, v in kw.items()})
    before = (x.start, x.data.copy())
    try:
        trend, gap = ir.hpf(x, **kw)
        t2 = x.copy(); t2.hpf_trend(**kw)
        g2 = ir.hpf_gap(x, **kw)
    except Exception as ex:
        chk.mismatch(tag + ":raised:" + type(ex).__name__, desc + ": raised %r" % (ex,), payload)
        return
    if x.start != before[0] or not np.array_equal(x.data, before[1], equal_nan=True):
        chk.mismatch(tag + ":input-modified", desc + ": input series modified", payload)
        return
    if not compare(chk, sc, outs, datas, trend, gap, base, span, tag, desc, payload):
        return
    compare(chk, sc, outs, datas, t2, g2, base, span, tag + ":method-forms", desc + " [hpf_trend method / hpf_gap function]", payload)


def check_lonf(chk, scs, outs, span=None):
    """lonf against the exact optimum of Lonf.tla (one or two variants; optional estimation span = the sample the filter is run on)."""
    from fractions import Fraction
    base = BASE()
    sc = scs[0]
    n = len(sc["data"])
    payload = {"kind": "lonf", "scs": [_plain(s) for s in scs]}
    tag = "lonf:%dv:order%d" % (len(scs), sc["ord"])
    desc = "lonf(data=%s, order=%d, smooth=%d)" % ([_plain(s["data"]) for s in scs], sc["ord"], sc["lam"])
    data = np.array([[float(v) for v in s["data"]] for s in scs], dtype=float).T
    x = ir.Series(start=base, values=data.copy())
    try:
        trend, gap = ir.lonf(x, int(sc["ord"]), float(sc["lam"]))
    except Exception as ex:
        chk.mismatch(tag + ":raised:" + type(ex).__name__, desc + ": raised %r" % (ex,), payload)
        return
    if not np.array_equal(np.asarray(x.data), data):
        chk.mismatch(tag + ":input-modified", desc + ": the input series was modified", payload)
        return
    for what, y in (("trend", trend), ("gap", gap)):
        if y.shape != (n, len(scs)) or y.start != base:
            chk.mismatch(tag + ":shape", desc + ": %s has shape %r starting %r; the input has %d periods and %d variant(s)" % (what, y.shape, y.start, n, len(scs)), payload)
            return
    td, gd = np.asarray(trend.data, dtype=float), np.asarray(gap.data, dtype=float)
    for v, out in enumerate(outs):
        for t in range(n):
            e = float(Fraction(out["sol"]["xnum"][t], out["sol"]["den"]))
            if not abs(td[t, v] + gd[t, v] - data[t, v]) <= 1e-9 * max(1.0, abs(data[t, v])):
                chk.mismatch(tag + ":trend+gap", desc + ": trend + gap is %r in period %d variant %d, data %r" % (td[t, v] + gd[t, v], t, v, data[t, v]), payload)
                return
            if not abs(td[t, v] - e) <= 1e-6 * max(1.0, abs(e)):
                chk.mismatch(tag + ":trend", desc + ": trend[%d] variant %d is %r, the exact minimiser (optimality conditions of the l1 trend filter) is %r" % (t, v, td[t, v], e), payload)
                return


def run_lonf(chk):
    dump = chk.scratch.file("lonf.dump")
    r = tlc.must_pass(tlc.run("LonfMC", "LonfMC.thorough.cfg" if chk.tier == "thorough" else "LonfMC.cfg", chk.scratch, dump=dump, workers=8, timeout=1800), "LonfMC")
    chk.add_tlc(r, "LonfMC")
    items = []
    for st in tlaval.parse_dump(dump, want=lambda b: "done = TRUE" in b):
        if not (st["out"]["exists"] and st["out"]["unique"]):
            raise MachineryError("LonfMC: law false in dump")
        items.append((st["sc"], st["out"]))
    os.remove(dump)
    # the same (order, length) with different smoothing weights one after another, then again in reverse
    items.sort(key=lambda so: (so[0]["ord"], len(so[0]["data"]), repr(_plain(so[0]["data"])), so[0]["lam"]))
    n = 0
    for sc, out in items + items[::-1]:
        check_lonf(chk, [sc], [out])
        n += 1
    groups = {}
    for sc, out in items:
        groups.setdefault((sc["ord"], len(sc["data"]), sc["lam"]), []).append((sc, out))
    pairs = 0
    for key, lst in sorted(groups.items()):
        if len(lst) >= 2:
            check_lonf(chk, [lst[0][0], lst[1][0]], [lst[0][1], lst[1][1]])
            pairs += 1
    if not n or not pairs:
        raise MachineryError("LonfMC: no scenario or no two-variant pair")
    chk.replayed += n + pairs
    chk.notes["lonf_scenarios"] = n
    chk.notes["lonf_two_variant_pairs"] = pairs
    chk.sample({"lonf": _plain(items[5][0]), "spec_trend_num": _plain(items[5][1]["sol"]["xnum"]), "spec_trend_den": items[5][1]["sol"]["den"],
                "consistent_sign_patterns": items[5][1]["npatterns"]})


def run(chk):
    run_lonf(chk)
    dump = chk.scratch.file("hp.dump")
    r = tlc.must_pass(tlc.run("HpMC", "HpMC.thorough.cfg" if chk.tier == "thorough" else "HpMC.cfg", chk.scratch, dump=dump, timeout=1800), "HpMC")
    chk.add_tlc(r, "HpMC")
    groups, n, skipped, lines = {}, 0, 0, 0
    for st in tlaval.parse_dump(dump, want=lambda b: "done = TRUE" in b):
        sc, out = st["sc"], st["out"]
        if not out["laws"]:
            raise MachineryError("HpMC: laws false in dump")
        if not out["ok"]:
            skipped += 1
            continue
        lines += bool(out["line"])
        check(chk, [sc], [out])
        n += 1
        if n in (30, 900):
            chk.sample({"scenario": _plain(sc), "spec_trend_num": _plain(out["num"]), "spec_trend_den": _plain(out["den"]), "filter_span_starts_at": out["lo"]})
        obs = [i for i, v in enumerate(sc["data"]) if not nanv(v)]
        # two scenarios can be stacked as variants when their observed hulls coincide (the filter span of a multi-variant series is the common one)
        key = (len(sc["data"]), obs[0], obs[-1], sc["lam"], sc["lev"], sc["chg"], sc["chg2"], sc["span"], sc["rev"], sc["log"])
        groups.setdefault(key, []).append((sc, out))
    os.remove(dump)
    pairs = 0
    for key, lst in sorted(groups.items(), key=repr):
        if len(lst) >= 2:
            # stacked as two variants the results must be those of the two single-variant problems
            (s1, o1), (s2, o2) = lst[0], lst[1]
            check(chk, [s1, s2], [o1, o2])
            check(chk, [s2, s1], [o2, o1])
            pairs += 2
    if not lines or not pairs:
        raise MachineryError("HpMC: no straight-line scenario or no two-variant pair generated")
    chk.replayed += n + pairs
    chk.no_claim += skipped
    chk.notes["two_variant_pairs"] = pairs
    chk.notes["straight_line_scenarios"] = lines
    chk.notes["singular_scenarios_skipped"] = skipped
    chk.exhaustive = True
    chk.rule = ("7 (quick) / 16 (thorough) data sets (2-5 periods, interior / leading / trailing missing values, a straight line, a constant) x lambda in {1, 4} (thorough: {1, 2, 4}) x level constraint in {none, first, last, "
                "before, after, interior} x change constraint in {none, interior, last, after, first} x output span in {default, inside, beyond both, "
                "beyond end, before start} x log, limited to KKT systems of dimension <= 7 (32-bit TLC integers); plus pairs stacked as two variants; "
                "a case is one scenario")
    chk.assumptions = ["lonf: complete data only (the implementation has no treatment of missing values), orders 1 and 2, 3-6 periods, comparison at 1e-6 (QP solver daqp trusted)",
                       "numpy.linalg.solve is trusted; comparison tolerance 1e-8 relative"]


def replay(chk, s):
    check(chk, [_unplain(x) for x in s["scs"]], [_unplain(x) for x in s["outs"]])
    chk.replayed += 1
    chk.states = chk.transitions = 1
    chk.sample(s)
