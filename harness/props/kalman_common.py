"""Shared by C03 and C08: run KalmanMC, run irispie's kalman_filter on each scenario."""
import os, math
import numpy as np
import irispie as ir
from .. import tlc, tlaval
from ..common import MachineryError
from .lre_common import model, per, fr, quiet

TK = 3


def nanv(v):
    return isinstance(v, tlaval.MV)


def scenarios(chk):
    dump = chk.scratch.file("kalman.dump")
    r = tlc.must_pass(tlc.run("KalmanMC", "KalmanMC.thorough.cfg" if chk.tier == "thorough" else "KalmanMC.cfg", chk.scratch, dump=dump, timeout=3600), "KalmanMC")
    chk.add_tlc(r, "KalmanMC")
    out = []
    for st in tlaval.parse_dump(dump, want=lambda b: "done = TRUE" in b):
        if not st["out"]["ok"]:
            raise MachineryError("KalmanMC: Lyapunov check false in dump")
        out.append((st["sc"], st["out"]))
    os.remove(dump)
    out.sort(key=lambda so: repr(so[0]))
    return out


def steady_levels(m, names):
    lv = m.get_steady_levels()
    return {n: float(np.ravel(lv[n])[0]) for n in names}


def has_extra(sc):
    return any(fr(x) != 0 for row in sc.get("dsd", ()) for x in row) or any(fr(x) != 0 for x in sc.get("dsw", ()))


def run_filter(sc, out, deviation=False, rescale=False, fresh=True):
    m = model(out["src"], True, fresh=fresh)
    stds = {"std_" + n: math.sqrt(float(fr(v))) for n, v in zip(out["shocks"], sc["sd"])}
    stds.update({"std_" + n: math.sqrt(float(fr(sc["sdw"]))) for n in out["mshocks"]})
    m.assign(**stds)
    steady = steady_levels(m, list(out["vars"]) + list(out["mvars"]))
    db = ir.Databox()
    for i, n in enumerate(out["mvars"]):
        vals = [math.nan if nanv(row[i]) else float(row[i]) - (steady[n] if deviation else 0.0) for row in sc["data"]]
        db[n] = ir.Series(start=per(1), values=np.array(vals, dtype=float))
    kw = {"return_info": True}
    if has_extra(sc):
        # time-varying standard deviations supplied as data: only the periods that differ are given, the others fall back to the parameter
        for k, n in enumerate(out["shocks"]):
            vals = [math.sqrt(float(fr(sc["sd"][k]) + fr(sc["dsd"][t][k]))) if fr(sc["dsd"][t][k]) != 0 else math.nan for t in range(TK)]
            if not all(math.isnan(v) for v in vals):
                db["std_" + n] = ir.Series(start=per(1), values=np.array(vals, dtype=float))
        for n in out["mshocks"]:
            vals = [math.sqrt(float(fr(sc["sdw"]) + fr(sc["dsw"][t]))) if fr(sc["dsw"][t]) != 0 else math.nan for t in range(TK)]
            if not all(math.isnan(v) for v in vals):
                db["std_" + n] = ir.Series(start=per(1), values=np.array(vals, dtype=float))
        kw["stds_from_data"] = True
    if deviation:
        kw["deviation"] = True
    if rescale:
        kw["rescale_variance"] = True
    res, info = quiet(m.kalman_filter, db, ir.Span(per(1), per(TK)), **kw)
    return m, res, info, steady


def val(res, group, name, t):
    try:
        s = res[group][name]
        d = s.get_data(per(t))
        return float(d[0, 0]) if d.size else math.nan
    except Exception:
        return math.nan
