"""C08 - smoothed estimates reproduce the data and are a simulation of the model.

Spec: KalmanMC.tla - Inv_SmoothMatchesData (smoothed measurement variables equal the data where observed, zero variance),
Inv_SmoothMeasurementEq and Inv_SmoothTransitionEq (the smoothed means satisfy every measurement equation with the smoothed
measurement shocks and every transition equation with the smoothed transition shocks, exactly) are checked by TLC on the exact
conditional moments. Binding: on kalman_filter's own output the same clauses are evaluated with the structural coefficients emitted by
the spec, the smoothed values are compared with the spec's, the model is re-simulated from the smoothed initial condition with the
smoothed shocks, and deviation mode is compared with level mode minus steady state; histories simulate -> filter and filter ->
simulate on one solved model are both exercised.
"""
import math
import numpy as np
import irispie as ir
from ..common import MachineryError
from .C09 import _plain
from .kalman_common import scenarios, run_filter, val, nanv, TK
from .lre_common import fr, per, quiet, model


def check(chk, sc, out, history):
    payload = {"kind": "smooth", "sc": _plain(sc), "src": list(out["src"]), "history": history}
    tag = "smooth:%s:%s" % (sc["id"], history)
    desc = "model %s data %s variances %s / %s (%s)" % (sc["id"], _plain(sc["data"]), _plain(sc["sd"]), _plain(sc["sdw"]), history)
    try:
        fresh = history in ("fresh", "measurement equations written as a block")
        if history == "simulate-first":
            # the same solved model is first used for an anticipated-shock simulation, then for filtering
            m0 = model(out["src"], True)
            db0 = ir.Databox.steady(m0, ir.Span(per(0), per(TK + 2)))
            for n in out["shocks"]:
                db0["ant_" + n][per(2)] = 0.5
            quiet(m0.simulate, db0, ir.Span(per(1), per(TK)), method="first_order")
        m, res, info, steady = run_filter(sc, out, fresh=fresh)
        md, resd, infod, _ = run_filter(sc, out, deviation=True, fresh=fresh)
    except Exception as ex:
        chk.mismatch(tag + ":raised:" + type(ex).__name__, desc + ": raised %r" % (ex,), payload)
        return
    nx, ny, ne, nw = len(out["vars"]), len(out["mvars"]), len(out["shocks"]), len(out["mshocks"])
    names = list(out["vars"]) + list(out["mvars"]) + list(out["shocks"]) + list(out["mshocks"])
    sm = lambda n, t: val(res, "smooth_med", n, t)
    # 1. smoothed = data where data exist; equal to the spec's conditional means
    for t in range(1, TK + 1):
        for i, n in enumerate(out["mvars"]):
            d = sc["data"][t - 1][i]
            if not nanv(d) and not abs(sm(n, t) - float(d)) <= 1e-8:
                chk.mismatch(tag + ":data", desc + ": smoothed %s in period %d is %r, the observation is %r" % (n, t, sm(n, t), d), payload)
                return
        for q, n in enumerate(names):
            e = float(fr(out["smooth"][t - 1]["mean"][q]))
            g = sm(n, t)
            if math.isnan(g) and nx <= q < nx + ny and nanv(sc["data"][t - 1][q - nx]):
                continue
            if math.isnan(g) or abs(g - e) > 1e-8 * max(1.0, abs(e)):
                chk.mismatch(tag + ":value", desc + ": smoothed %s in period %d is %r, conditional mean %r" % (n, t, g, e), payload)
                return
    # 2. equations on the implementation's own smoothed output (coefficients of the structural form emitted by the spec)
    me, te = out["meq"], out["teq"]
    for t in range(2, TK + 1):
        for i, q in enumerate(me):
            if nanv(sc["data"][t - 1][i]) and math.isnan(sm(out["mvars"][i], t)):
                continue
            rhs = float(fr(q["d"])) + sum(float(fr(c)) * sm(out["vars"][j - 1], t + sh) for (c, j, sh) in q["tx"]) \
                + sum(float(fr(c)) * sm(out["mshocks"][k - 1], t) for (c, k) in q["tw"])
            if not abs(sm(out["mvars"][i], t) - rhs) <= 1e-8 * max(1.0, abs(rhs)):
                chk.mismatch(tag + ":measurement-equation", desc + ": smoothed %s in period %d is %r, its measurement equation gives %r" % (out["mvars"][i], t, sm(out["mvars"][i], t), rhs), payload)
                return
        for i, q in enumerate(te):
            if any(sh > 0 for (_, _, sh) in q["tx"]):
                continue          # backward-looking equations only
            r = float(fr(q["c"])) + sum(float(fr(c)) * sm(out["vars"][j - 1], t + sh) for (c, j, sh) in q["tx"]) \
                + sum(float(fr(c)) * sm(out["shocks"][k - 1], t) for (c, k) in q["te"])
            if not abs(r) <= 1e-8:
                chk.mismatch(tag + ":transition-equation", desc + ": transition equation %d has residual %r on the smoothed values in period %d" % (i + 1, r, t), payload)
                return
    # 3. re-simulation from the smoothed initial condition with the smoothed shocks
    try:
        db = ir.Databox.steady(m, ir.Span(per(0), per(TK + 1)))
        for n in out["vars"]:
            db[n][per(1)] = sm(n, 1)
        for n in list(out["shocks"]) + list(out["mshocks"]):
            for t in range(2, TK + 1):
                db[n][per(t)] = sm(n, t)
        sim = quiet(m.simulate, db, ir.Span(per(2), per(TK)), method="first_order")
        for n in list(out["vars"]) + list(out["mvars"]):
            for t in range(2, TK + 1):
                g, e = float(sim[n].get_data(per(t))[0, 0]), sm(n, t)
                if math.isnan(e):
                    continue
                if not abs(g - e) <= 1e-8 * max(1.0, abs(e)):
                    chk.mismatch(tag + ":resimulation", desc + ": re-simulated %s in period %d is %r, smoothed %r" % (n, t, g, e), payload)
                    return
    except Exception as ex:
        chk.mismatch(tag + ":resimulation:raised:" + type(ex).__name__, desc + ": re-simulation raised %r" % (ex,), payload)
        return
    # 4. deviation mode on data minus steady state = level mode minus steady state
    for group in ("predict_med", "update_med", "smooth_med"):
        for n in names:
            for t in range(1, TK + 1):
                a, b = val(res, group, n, t), val(resd, group, n, t)
                if math.isnan(a) and math.isnan(b):
                    continue
                e = a - steady.get(n, 0.0)
                if math.isnan(b) or abs(b - e) > 1e-8 * max(1.0, abs(e)):
                    chk.mismatch(tag + ":deviation", desc + ": %s of %s in period %d is %r in deviation mode, level mode minus steady state gives %r" % (group, n, t, b, e), payload)
                    return


def check_clauses(chk, sc, out, history):
    """C08 clauses on the filter's own output for models without exact moments in the spec (unit root, forward-looking with anticipated shocks)."""
    import os
    payload = {"kind": "smooth-clauses", "sc": _plain(sc), "src": list(out["src"]), "history": history}
    tag = "smooth-clauses:%s:%s" % (sc["id"], history)
    T = len(sc["data"])
    desc = "model %s data %s anticipated %s measurement-shock means %s (%s)" % (sc["id"], _plain(sc["data"]), _plain(sc["ant"]), _plain(sc.get("wmean", ())), history)
    try:
        m = model(out["src"], bool(out.get("linear", True)), fresh=(history == "fresh"))
        span = ir.Span(per(1), per(T))
        db = ir.Databox()
        for i, n in enumerate(out["mvars"]):
            db[n] = ir.Series(start=per(1), values=np.array([math.nan if nanv(r[i]) else float(r[i]) for r in sc["data"]], dtype=float))
        ant = {}
        for (t, k, v) in sc["ant"]:
            n = "ant_" + out["shocks"][k - 1]
            if n not in db:
                db[n] = ir.Series(start=per(1), values=np.zeros(T))
            db[n][per(t)] = float(v)
            ant[(n, t)] = float(v)
        # (the standard deviations of the measurement shocks differ from one where their means are given: clauses do not depend on them)
        if len(out["mshocks"]):
            m.assign(**{"std_" + n: (2.0 if len(sc.get("wmean", ())) else 1.0) for n in out["mshocks"]})
        for (t, k, v) in sc.get("wmean", ()):
            n = out["mshocks"][k - 1]
            if n not in db:
                db[n] = ir.Series(start=per(1), values=np.zeros(T))
            db[n][per(t)] = float(v)
        if history == "simulate-first":
            db0 = ir.Databox.steady(m, ir.Span(per(0), per(T + 2)))
            for n in out["shocks"]:
                db0["ant_" + n][per(2)] = 0.5
            quiet(m.simulate, db0, span, method="first_order")
        res, info = quiet(m.kalman_filter, db, span, return_info=True, shocks_from_data=True)
    except Exception as ex:
        chk.mismatch(tag + ":raised:" + type(ex).__name__, desc + ": raised %r" % (ex,), payload)
        return
    logv = set(out.get("logv", ()))
    raw = lambda n, t: val_t(res, "smooth_med", n, t)          # reported in levels
    # (the equations of the spec are written in the logarithms of log-variables)
    sm = lambda n, t: (math.log(raw(n, t)) if raw(n, t) > 0 else math.nan) if n in logv else raw(n, t)
    for t in range(1, T + 1):
        for i, n in enumerate(out["mvars"]):
            d = sc["data"][t - 1][i]
            if not nanv(d) and not abs(sm(n, t) - float(d)) <= 1e-7:
                chk.mismatch(tag + ":data", desc + ": smoothed %s in period %d is %r, the observation is %r" % (n, t, sm(n, t), d), payload)
                return
    for t in range(2, T + 1):
        for i, q in enumerate(out["meq"]):
            if math.isnan(sm(out["mvars"][i], t)):
                continue
            rhs = float(fr(q["d"])) + sum(float(fr(c)) * sm(out["vars"][j - 1], t + sh) for (c, j, sh) in q["tx"]) \
                + sum(float(fr(c)) * sm(out["mshocks"][k - 1], t) for (c, k) in q["tw"])
            if not abs(sm(out["mvars"][i], t) - rhs) <= 1e-7 * max(1.0, abs(rhs)):
                chk.mismatch(tag + ":measurement-equation", desc + ": smoothed %s in period %d is %r, its measurement equation gives %r" % (out["mvars"][i], t, sm(out["mvars"][i], t), rhs), payload)
                return
        for i, q in enumerate(out["teq"]):
            if any(sh > 0 for (_, _, sh) in q["tx"]):
                continue
            r = float(fr(q["c"])) + sum(float(fr(c)) * sm(out["vars"][j - 1], t + sh) for (c, j, sh) in q["tx"]) \
                + sum(float(fr(c)) * (sm(out["shocks"][k - 1], t) + ant.get(("ant_" + out["shocks"][k - 1], t), 0.0)) for (c, k) in q["te"])
            if not abs(r) <= 1e-7:
                chk.mismatch(tag + ":transition-equation", desc + ": transition equation %d has residual %r on the smoothed values in period %d" % (i + 1, r, t), payload)
                return
    try:
        dbs = ir.Databox.steady(m, ir.Span(per(0), per(T + 1)))
        for n in out["vars"]:
            dbs[n][per(1)] = raw(n, 1)
        for n in list(out["shocks"]) + list(out["mshocks"]):
            for t in range(2, T + 1):
                dbs[n][per(t)] = raw(n, t)
        for (n, t), v in ant.items():
            dbs[n][per(t)] = v
        sim = quiet(m.simulate, dbs, ir.Span(per(2), per(T)), method="first_order")
        for n in list(out["vars"]) + list(out["mvars"]):
            for t in range(2, T + 1):
                g, e = float(sim[n].get_data(per(t))[0, 0]), raw(n, t)
                if math.isnan(e):
                    continue
                if not abs(g - e) <= 1e-7 * max(1.0, abs(e)):
                    chk.mismatch(tag + ":resimulation", desc + ": re-simulated %s in period %d is %r, smoothed %r" % (n, t, g, e), payload)
                    return
    except Exception as ex:
        chk.mismatch(tag + ":resimulation:raised:" + type(ex).__name__, desc + ": re-simulation raised %r" % (ex,), payload)


def val_t(res, group, name, t):
    try:
        d = res[group][name].get_data(per(t))
        return float(d[0, 0]) if d.size else math.nan
    except Exception:
        return math.nan


def run(chk):
    from .. import tlc as _tlc, tlaval as _tv
    import os as _os
    dumpc = chk.scratch.file("kalmanc.dump")
    rc = _tlc.must_pass(_tlc.run("KalmanMC", "KalmanMC.clauses.cfg", chk.scratch, dump=dumpc, timeout=600), "KalmanMC/clauses")
    chk.add_tlc(rc, "KalmanMC/clauses")
    nc = 0
    for st in _tv.parse_dump(dumpc, want=lambda b: "done = TRUE" in b):
        for history in ("fresh", "simulate-first", "shared"):
            check_clauses(chk, st["sc"], st["out"], history)
            nc += 1
    _os.remove(dumpc)
    chk.replayed += nc
    chk.notes["clause_only_runs"] = nc
    scen = scenarios(chk)
    n = nblock = 0
    for sc, out in scen:
        for history in ("fresh", "simulate-first", "shared"):
            check(chk, sc, out, history)
            n += 1
        if len(out["mvars"]) >= 2:
            # the same model with its measurement equations written as a simultaneous block (same meaning, non-symmetric Jacobian)
            check(chk, sc, dict(out, src=out["srcb"]), "measurement equations written as a block")
            n += 1
            nblock += 1
    if not nblock:
        raise MachineryError("KalmanMC: no scenario with a measurement block")
    chk.notes["runs_with_measurement_equations_as_block"] = nblock
    sc, out = scen[3]
    chk.sample({"scenario": _plain(sc), "spec_smoothed_means": _plain([m_["mean"] for m_ in out["smooth"]])})
    chk.replayed += n
    chk.exhaustive = True
    chk.rule = ("the KalmanMC scenarios (models L1, L9, LK, LK2 x data sets with missing values x variances) x 3 histories of the solved model "
                "(freshly solved; used for an anticipated-shock simulation first; shared with earlier filter runs); a case is one filter run with its re-simulation")
    chk.assumptions = ["smoothed measurement variables are not reported in periods without an observation; clauses are evaluated where they are reported",
                       "transition equations and re-simulation are checked from the second filter period on (the pre-sample state is not part of the output)"]


def replay(chk, s):
    raise MachineryError("re-run ./check C08 (scenarios are regenerated deterministically)")
