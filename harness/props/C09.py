"""C09 - periods behave as calendar-consistent integers and spans as their ranges.

Spec: Calendar.tla / CalendarMC.tla (laws checked by TLC on every enumerated period),
Spans.tla / SpansStep.tla (every span state x operation) / SpansHist.tla (mutation histories).
Binding: the dumped / simulated behaviours are replayed through irispie and every observation compared.
"""
import os, glob, random
import irispie as ir
from .. import tlc, tlaval
from ..common import MachineryError
from . import calendar_common as cal

OTHER = {"Y": "Q", "H": "M", "Q": "M", "M": "Q", "D": "I", "I": "D"}


# ------------------------------------------------------------------------------------------------
# periods
# ------------------------------------------------------------------------------------------------
def _expect(chk, cond, fp, what, payload):
    if not cond:
        chk.mismatch(fp, what, payload)
    return cond


def check_period(chk, p, o):
    f = p["f"]
    payload = {"kind": "period", "p": dict(p), "out": _plain(o)}
    try:
        t = cal.period(f, o)
    except Exception as ex:
        chk.mismatch("period:ctor:%s:%s" % (f, type(ex).__name__), "constructor raised %r for %s" % (ex, o["repr"]), payload)
        return
    # --- arithmetic and order against p + k ---------------------------------------------------
    for k, trip in o["add"].items():
        try:
            q = t + k
            ok = (q - t == k) and (t + (q - t) == q) and ((k + t) == q) and (q - k == t)
            _expect(chk, ok, "period:addsub:%s" % f, "%s: p+(q-p)==q / (p+k)-p==k fails for k=%d" % (o["repr"], k), payload)
            if f != "I":
                _expect(chk, (q.year, q.segment) == (trip[1], trip[2]) if f != "D" else (q.year == trip[1]),
                        "period:add-year-seg:%s" % f,
                        "%s + %d is %r, spec says (year, segment)=(%d, %d)" % (o["repr"], k, q, trip[1], trip[2]), payload)
                q2 = cal.CTOR[f](trip[1], trip[2])
                _expect(chk, q2 == q and hash(q2) == hash(q) and not (q2 != q), "period:add-eq-hash:%s" % f,
                        "%s + %d = %r differs from / hashes differently than the period built from (%d, %d)" % (o["repr"], k, q, trip[1], trip[2]), payload)
            else:
                q2 = ir.ii(trip)
                _expect(chk, q2 == q and hash(q2) == hash(q), "period:add-eq-hash:I", "ii(%d)+%d" % (o["n"], k), payload)
            cmp_ok = ((t < q) == (k > 0) and (t > q) == (k < 0) and (t <= q) == (k >= 0) and (t >= q) == (k <= 0)
                      and (t == q) == (k == 0) and (t != q) == (k != 0))
            _expect(chk, cmp_ok, "period:order:%s" % f, "%s compared with itself + %d disagrees with the order" % (o["repr"], k), payload)
        except Exception as ex:
            chk.mismatch("period:addsub:%s:%s" % (f, type(ex).__name__), "%s + %d raised %r" % (o["repr"], k, ex), payload)
    # --- mixing frequencies is rejected ----------------------------------------------------------
    g = OTHER[f]
    try:
        other = type(cal.CTOR[g](2020, 1))(t.serial)      # same internal number, other frequency
    except Exception:
        other = cal.CTOR[g](2020, 1)
    for name, fn in (("<", lambda: t < other), ("<=", lambda: t <= other), (">", lambda: t > other), (">=", lambda: t >= other),
                     ("-", lambda: t - other), ("==", lambda: t == other), ("!=", lambda: t != other),
                     ("Span", lambda: ir.Span(t, other))):
        try:
            r = fn()
            # equality may also answer "not equal" instead of raising; it must never answer "equal"
            if name == "==" and r is False:
                continue
            if name == "!=" and r is True:
                continue
            chk.mismatch("period:mixed:%s" % name, "%s %s <%s period> returned %r instead of being rejected" % (o["repr"], name, g, r), payload)
        except Exception:
            pass
    if f == "I":
        return
    # --- accessors ------------------------------------------------------------------------------
    try:
        _expect(chk, t.year == o["year"] and t.get_year() == o["year"], "period:year:%s" % f, "%s .year=%r spec %d" % (o["repr"], t.year, o["year"]), payload)
    except Exception as ex:
        chk.mismatch("period:year:%s:%s" % (f, type(ex).__name__), "%s .year raised %r" % (o["repr"], ex), payload)
    for acc in ("segment", "to_year_segment"):
        try:
            got = t.segment if acc == "segment" else t.to_year_segment()
            want = o["seg"] if acc == "segment" else (o["year"], o["seg"])
            _expect(chk, got == want, "period:%s:%s" % (acc, f), "%s .%s=%r spec %r" % (o["repr"], acc, got, want), payload)
        except Exception as ex:
            chk.mismatch("period:%s:%s:%s" % (acc, f, type(ex).__name__), "%s .%s raised %r" % (o["repr"], acc, ex), payload)
    # calendar dates of the period (tiling was checked on these by TLC)
    try:
        for pos, want in (("start", o["ymds"]), ("end", o["ymde"])):
            got = tuple(t.to_ymd(position=pos)) if f != "D" else tuple(t.to_ymd())
            _expect(chk, got == tuple(want), "period:ymd-%s:%s" % (pos, f), "%s to_ymd(%s)=%r spec %r" % (o["repr"], pos, got, want), payload)
        import datetime
        d0 = t.to_python_date(position="start").toordinal()
        d1 = t.to_python_date(position="end").toordinal()
        _expect(chk, (d0, d1) == (o["sday"], o["eday"]), "period:days:%s" % f, "%s covers days %d..%d, spec %d..%d" % (o["repr"], d0, d1, o["sday"], o["eday"]), payload)
        nxt = (t + 1).to_python_date(position="start").toordinal()
        _expect(chk, nxt == d1 + 1, "period:tiling:%s" % f, "%s ends on day %d but its successor starts on %d" % (o["repr"], d1, nxt), payload)
    except Exception as ex:
        chk.mismatch("period:ymd:%s:%s" % (f, type(ex).__name__), "%s calendar dates raised %r" % (o["repr"], ex), payload)
    # --- every calendar day belongs to exactly the period the calendar says (tiling, seen from the days) -------
    if f == "D":
        try:
            import datetime
            day = datetime.date.fromordinal(o["n"])
            for g, per_pos in o["rf"].items():
                trip = per_pos["start"][0]
                want = cal.CTOR[g](trip[1], trip[2])
                got = ir.Period.from_python_date(day, frequency=cal.FREQ[g])
                got2 = ir.Period.from_ymd(cal.FREQ[g], day.year, day.month, day.day)
                ok = got == want and got2 == want and (got.year, got.segment) == (trip[1], trip[2])
                d0 = got.to_python_date(position="start").toordinal()
                d1 = got.to_python_date(position="end").toordinal()
                ok = ok and d0 <= o["n"] <= d1
                _expect(chk, ok, "period:day-membership:%s" % g, "day %s belongs to %r (days %d..%d), spec %r" % (day, got, d0, d1, want), payload)
        except Exception as ex:
            chk.mismatch("period:day-membership:%s" % type(ex).__name__, "%s: period containing the day raised %r" % (o["repr"], ex), payload)
    # --- keyword shifts ---------------------------------------------------------------------------
    for kw, n in o["kw"].items():
        try:
            got = t.shift(kw)
            if isinstance(n, tlaval.MV):
                _expect(chk, got is None, "period:shift-%s:%s" % (kw, f), "%s.shift(%s)=%r, spec: no period" % (o["repr"], kw, got), payload)
            else:
                _expect(chk, got is not None and got - t == n - o["n"] and type(got) is type(t), "period:shift-%s:%s" % (kw, f),
                        "%s.shift(%s)=%r, spec: %+d periods" % (o["repr"], kw, got, n - o["n"]), payload)
        except Exception as ex:
            chk.mismatch("period:shift-%s:%s:%s" % (kw, f, type(ex).__name__), "%s.shift(%r) raised %r" % (o["repr"], kw, ex), payload)


def _plain(v):
    if isinstance(v, dict):
        return {str(k): _plain(x) for k, x in v.items()}
    if isinstance(v, (tuple, list, frozenset)):
        return [_plain(x) for x in v]
    return v if not isinstance(v, tlaval.MV) else str(v)


# ------------------------------------------------------------------------------------------------
# spans
# ------------------------------------------------------------------------------------------------
def _bases():
    return {"Q": ir.qq(2019, 3), "M": ir.mm(2019, 11), "Y": ir.yy(2019), "H": ir.hh(2019, 2),
            "D": ir.dd(2020, 2, 27), "I": ir.ii(-2)}


class SpanWorld:
    """Maps abstract serials to periods of one frequency and abstract spans to irispie Spans."""

    def __init__(self, f):
        self.f, self.base = f, _bases()[f]
        self.other = _bases()[OTHER[f]]

    def per(self, n):
        return self.base + n

    def bound(self, b):
        if b[0] == "abs":
            return self.per(b[1])
        return (ir.start if b[0] == "start" else ir.end) + b[1]

    def span(self, sp):
        return ir.Span(self.bound(sp["s"]), self.bound(sp["e"]), sp["st"])

    def ctx(self, cs, ce):
        return ir.dates.ResolutionContext(self.per(cs), self.per(ce))

    def apply(self, span, op):
        """Returns (result or None). Raises whatever irispie raises."""
        name = op[0]
        if name == "reverse":
            return _none(span.reverse())
        if name == "shift_start":
            return _none(span.shift_start(op[1]))
        if name == "shift_end":
            return _none(span.shift_end(op[1]))
        if name == "shift":
            return _none(span.shift(op[1]))
        if name == "reversed":
            return span.reversed()
        if name == "copy":
            return span.copy()
        if name == "add":
            return span + op[1]
        if name == "radd":
            return op[1] + span
        if name == "sub":
            return span - op[1]
        if name == "rstep":
            return span >> op[1]
        if name == "lstep":
            return span << op[1]
        if name == "resolve":
            return span.resolve(self.ctx(op[1], op[2]))
        if name == "resolve_mixed":
            return span.resolve(ir.dates.ResolutionContext(self.other, self.other + 3))
        raise MachineryError("unknown span op %r" % (op,))

    def observe_diff(self, span, obs):
        """Compare a real span with the spec's observation record; return a description or None."""
        if obs["none"]:
            return None
        if span is None:
            return "no span returned"
        if not isinstance(span, ir.Span):
            return "result is %r, not a Span" % type(span).__name__
        if span.step != obs["st"]:
            return "step %r, spec %r" % (span.step, obs["st"])
        if (span.direction == "forward") != (obs["st"] > 0):
            return "direction %r with step %r" % (span.direction, obs["st"])
        if not obs["resolved"]:
            if not span.needs_resolve or bool(span):
                return "span should still need resolving"
            if bool(span.start) == obs["openS"] or bool(span.end) == obs["openE"]:
                return "open ends differ: start resolved=%r end resolved=%r" % (bool(span.start), bool(span.end))
            probes = ((1, 5), (6, 2))
            for (cs, ce), it in zip(probes, obs["probes"]):
                got = tuple(x - self.base for x in span.resolve(self.ctx(cs, ce)))
                if got != tuple(it):
                    return "resolved against context (%d, %d) enumerates %r, spec %r" % (cs, ce, got, tuple(it))
            return None
        if span.needs_resolve or not bool(span):
            return "span should be resolved"
        it = tuple(obs["iter"])
        got = tuple(x - self.base for x in span)
        if got != it:
            return "iterates %r, spec %r" % (got, it)
        if len(span) != obs["len"]:
            return "len %r, spec %r" % (len(span), obs["len"])
        if (span.start - self.base, span.end - self.base) != (obs["s"], obs["e"]):
            return "start/end %r..%r, spec %r..%r" % (span.start - self.base, span.end - self.base, obs["s"], obs["e"])
        n = len(it)
        for i in range(-n, n):
            if span[i] - self.base != it[i]:
                return "span[%d]=%r, spec %r" % (i, span[i] - self.base, it[i])
        for i in (n, -n - 1):
            try:
                span[i]
                return "span[%d] did not raise for length %d" % (i, n)
            except IndexError:
                pass
        for a, b in ((0, 2), (1, None), (None, -1), (-2, None), (1, 3)):
            got = tuple(x - self.base for x in span[a:b])
            if got != it[a:b]:
                return "span[%r:%r]=%r, spec %r" % (a, b, got, it[a:b])
        if not (span == ir.Span(self.per(obs["s"]), self.per(obs["e"]), obs["st"])):
            return "span != Span(start, end, step) built from its own description"
        if it and all(type(x) is type(self.base) for x in span) is False:
            return "periods of a different class"
        return None


def _none(x):
    if x is not None:
        raise AssertionError("in-place operation returned %r" % (x,))
    return None


def check_span_step(chk, st, freqs):
    pre, op, post = st["pre"], st["op"], st["post"]
    for f in freqs:
        w = SpanWorld(f)
        payload = {"kind": "span-step", "freq": f, "pre": _plain(pre), "op": _plain(op), "post": _plain(post)}
        fp = "span:%s" % op[0]
        try:
            span = w.span(pre)
        except Exception as ex:
            chk.mismatch(fp + ":ctor:" + type(ex).__name__, "Span%r raised %r" % (_plain(pre), ex), payload)
            continue
        try:
            res = w.apply(span, op)
            raised = None
        except MachineryError:
            raise
        except Exception as ex:
            res, raised = None, ex
        if post["rej"]:
            _expect(chk, raised is not None, fp + ":not-rejected", "%s on %r (%s) should be rejected, returned %r" % (op, _plain(pre), f, res), payload)
        elif raised is not None:
            chk.mismatch(fp + ":raised:" + type(raised).__name__, "%s on %r (%s) raised %r" % (op, _plain(pre), f, raised), payload)
            continue
        d = w.observe_diff(span, post["sp"])
        _expect(chk, d is None, fp + ":receiver", "after %s on %r (%s) the receiver %s" % (op, _plain(pre), f, d), payload)
        if post["hasres"] and not post["res"]["none"]:
            d = w.observe_diff(res, post["res"])
            _expect(chk, d is None, fp + ":result", "%s on %r (%s): result %s" % (op, _plain(pre), f, d), payload)
            _expect(chk, res is not span, fp + ":alias", "%s returned the receiver itself" % (op,), payload)


def check_span_history(chk, states, f):
    """states: list of dicts with cur/last/res/rej/obs, as produced by SpansHist."""
    w = SpanWorld(f)
    hist = [_plain(s["last"]) for s in states]
    payload = {"kind": "span-hist", "freq": f, "init": _plain(states[0]["cur"]), "ops": hist[1:],
               "obs": [_plain(s["obs"]) for s in states]}
    try:
        span = w.span(states[0]["cur"])
    except Exception as ex:
        chk.mismatch("span:ctor:" + type(ex).__name__, "Span%r raised %r" % (_plain(states[0]["cur"]), ex), payload)
        return
    d = w.observe_diff(span, states[0]["obs"]["cur"])
    if d is not None:
        chk.mismatch("span:init", "fresh span %r (%s) %s" % (_plain(states[0]["cur"]), f, d), payload)
        return
    for i, s in enumerate(states[1:], 1):
        op = s["last"]
        try:
            res = w.apply(span, op)
            raised = None
        except MachineryError:
            raise
        except Exception as ex:
            res, raised = None, ex
        where = "step %d (%s) of history %s on %r (%s)" % (i, _plain(op), hist[1:i + 1], _plain(states[0]["cur"]), f)
        if s["rej"]:
            if raised is None:
                chk.mismatch("span:%s:not-rejected" % op[0], where + ": should be rejected", payload)
                return
        elif raised is not None:
            chk.mismatch("span:%s:raised:%s" % (op[0], type(raised).__name__), where + ": raised %r" % (raised,), payload)
            return
        if not s["obs"]["recv"]["none"]:
            d = w.observe_diff(span, s["obs"]["recv"])
            if d is not None:
                chk.mismatch("span:%s:receiver" % op[0], where + ": receiver " + d, payload)
                return
        if not isinstance(s["res"], tlaval.MV):      # functional result: the history continues on it
            if res is span:
                chk.mismatch("span:%s:alias" % op[0], where + ": returned the receiver itself", payload)
                return
            span = res
        d = w.observe_diff(span, s["obs"]["cur"])
        if d is not None:
            chk.mismatch("span:%s:state" % op[0], where + ": " + d, payload)
            return


# ------------------------------------------------------------------------------------------------
# ---- code -> spec: recorded span histories validated by TLC against TraceSpans.tla ---------------------------------------------
def _observe_span(w, span):
    """What can be observed of a real span through the public API, in the format of Spans!Observe."""
    if span is None:
        return {"resolved": False, "none": True}
    if span.needs_resolve:
        probes = []
        for (cs, ce) in ((1, 5), (6, 2)):
            probes.append(tuple(int(x - w.base) for x in span.resolve(w.ctx(cs, ce))))
        return {"resolved": False, "none": False, "st": int(span.step), "openS": not bool(span.start), "openE": not bool(span.end), "probes": tuple(probes)}
    it = tuple(int(x - w.base) for x in span)
    return {"resolved": True, "none": False, "s": int(span.start - w.base), "e": int(span.end - w.base), "st": int(span.step), "len": len(span), "iter": it}


def _rand_bound(rnd):
    r = rnd.random()
    if r < 0.6:
        return ("abs", rnd.randint(-20, 20))
    return (rnd.choice(("start", "end")), rnd.randint(-5, 5))


def _rand_span_op(rnd):
    kind = rnd.choice(("reverse", "reversed", "copy", "shift_start", "shift_end", "shift", "add", "radd", "sub", "rstep", "lstep", "resolve", "resolve"))
    if kind in ("reverse", "reversed", "copy"):
        return (kind,)
    if kind in ("rstep", "lstep"):
        return (kind, rnd.choice((-6, -4, -3, -2, -1, 1, 2, 3, 5, 6)))
    if kind == "resolve":
        return ("resolve", rnd.randint(-8, 8), rnd.randint(-8, 8))
    return (kind, rnd.randint(-9, 9))


def record_span_trace(rnd, f, nsteps):
    w = SpanWorld(f)
    init = {"s": _rand_bound(rnd), "e": _rand_bound(rnd), "st": rnd.choice((-5, -3, -2, -1, 1, 1, 2, 3, 4, 6))}
    span = w.span(init)
    trace = {"init": init, "obs0": _observe_span(w, span), "steps": ()}
    steps = []
    for _ in range(nsteps):
        op = _rand_span_op(rnd)
        raised, res = False, None
        try:
            res = w.apply(span, op)
        except MachineryError:
            raise
        except Exception:
            raised = True
        recv = _observe_span(w, span)
        robs = _observe_span(w, res) if (res is not None and not raised) else {"resolved": False, "none": True}
        steps.append({"op": op, "raised": raised, "recv": recv, "res": robs, "alias": res is span})
        if res is not None and not raised:
            span = res
        if not span.needs_resolve and (abs(span.start - w.base) > 200 or abs(span.end - w.base) > 200):
            break
    trace["steps"] = tuple(steps)
    return trace


def span_trace_direction(chk, ntraces, nsteps):
    import random, copy
    from .. import tracecheck
    rnd = random.Random(chk.seed * 7561 + 9)
    traces, freqs = [], []
    for i in range(ntraces):
        f = "QMDIYH"[i % 6]
        t = record_span_trace(rnd, f, nsteps)
        for j, st in enumerate(t["steps"]):
            if st["alias"]:
                chk.mismatch("span-trace:alias", "recorded span history (%s): step %d %s returned the receiver itself" % (f, j + 1, _plain(st["op"])), {"kind": "span-trace", "freq": f, "trace": _plain(t)})
        traces.append(t)
        freqs.append(f)
    lit = [{"init": t["init"], "obs0": t["obs0"], "steps": tuple({k: v for k, v in st.items() if k != "alias"} for st in t["steps"])} for t in traces]
    rejected, _, r = tracecheck.validate_literal_parallel("TraceSpans", "TraceSpans.cfg", "Spans", {}, lit, chk.scratch, chunks=8, timeout=3600)
    nsteps_total = sum(len(t["steps"]) for t in traces)
    chk.tlc_runs.append({"run": "TraceSpans (recorded histories)", "generated": r.generated, "distinct": r.distinct, "traces": len(traces), "steps": nsteps_total, "wall_s": round(r.wall, 1)})
    chk.states += r.distinct
    chk.transitions += r.generated
    diag = {}
    if rejected:
        idx = sorted(rejected)
        _, d2, _ = tracecheck.validate_literal("TraceSpans", "TraceSpansDiag.cfg", "Spans", {}, [lit[i] for i in idx], chk.scratch, timeout=1800, tag="diag")
        for x in d2:
            if isinstance(x, tuple) and len(x) > 3 and isinstance(x[1], int):
                diag.setdefault((idx[x[1] - 1], x[2]), x)
    for i, line in sorted(rejected.items()):
        t = traces[i]
        st = t["steps"][line - 1] if 0 < line <= len(t["steps"]) else None
        if st is None:
            chk.mismatch("span-trace:init", "recorded span history (%s): the fresh span %s is observed as %s" % (freqs[i], _plain(t["init"]), _plain(t["obs0"])), {"kind": "span-trace", "freq": freqs[i], "trace": _plain(lit[i])})
            continue
        d = diag.get((i, line))
        chk.mismatch("span-trace:%s" % st["op"][0], "recorded span history (%s) is not a behaviour of Spans.tla: step %d %s raised=%s; observed receiver %s, result %s; the spec predicts (rejected, receiver, result) %s; "
                     "operations so far %s on %s" % (freqs[i], line, _plain(st["op"]), st["raised"], _plain(st["recv"]), _plain(st["res"]), _plain(d[3:]) if d else "?",
                                                       [_plain(s_["op"]) for s_ in t["steps"][:line - 1]], _plain(t["init"])), {"kind": "span-trace", "freq": freqs[i], "trace": _plain(lit[i]), "line": line})
    # a history with one corrupted observation must be rejected at exactly that line
    corrupted, expect = [], []
    for i, t in enumerate(lit):
        if i in rejected or len(t["steps"]) < 4:
            continue
        j = len(t["steps"]) // 2
        c = copy.deepcopy(t)
        o = dict(c["steps"][j]["recv"])
        if o.get("resolved"):
            o["len"] = o["len"] + 1
        elif not o.get("none"):
            o["st"] = o["st"] + 1
        else:
            continue
        steps = list(c["steps"]); steps[j] = dict(steps[j], recv=o); c["steps"] = tuple(steps)
        corrupted.append(c)
        expect.append(j + 1)
        if len(corrupted) >= 4:
            break
    if corrupted:
        rej2, _, _ = tracecheck.validate_literal("TraceSpans", "TraceSpans.cfg", "Spans", {}, corrupted, chk.scratch, timeout=1800, tag="corrupt")
        got = [rej2.get(i) for i in range(len(corrupted))]
        if got != expect:
            raise MachineryError("TraceSpans: corrupted histories were rejected at lines %s, expected %s (trace validation does not bind)" % (got, expect))
        chk.notes["corrupted_span_histories_rejected"] = len(corrupted)
    chk.traces += len(traces)
    chk.notes["recorded_span_histories_validated_by_tlc"] = len(traces)
    chk.notes["recorded_span_steps"] = nsteps_total


def run(chk):
    rnd = random.Random(chk.seed)
    thorough = chk.tier == "thorough"
    # 1. periods
    scen = cal.scenarios(chk)
    for p, o in scen:
        check_period(chk, p, o)
        chk.replayed += 1
    chk.sample({"period": scen[len(scen) // 3][0], "spec_out": _plain(scen[len(scen) // 3][1])})
    # 2. spans, one test per transition
    dump = chk.scratch.file("spans.dump")
    r = tlc.must_pass(tlc.run("SpansStep", "SpansStep.cfg", chk.scratch, dump=dump), "SpansStep")
    chk.add_tlc(r, "SpansStep")
    n = 0
    for st in tlaval.parse_dump(dump, want=lambda b: "done = TRUE" in b):
        freqs = "YHQMDI" if thorough else ("YHQMDI"[n % 6], "YHQMDI"[(n // 6 + 3) % 6])
        check_span_step(chk, st, freqs)
        n += 1
        if n == 1000:
            chk.sample({"span_step": {"pre": _plain(st["pre"]), "op": _plain(st["op"]), "post": _plain(st["post"])}})
    os.remove(dump)
    if n * 2 != r.distinct:
        raise MachineryError("SpansStep: %d transitions parsed, %d states reported" % (n, r.distinct))
    chk.replayed += n
    # 3. span histories: exhaustive check of the laws in a window, then simulated behaviours replayed
    r = tlc.must_pass(tlc.run("SpansHist", "SpansHist.%s.cfg" % chk.tier, chk.scratch, timeout=3600), "SpansHist")
    chk.add_tlc(r, "SpansHist/" + chk.tier)
    simdir = chk.scratch.sub("sim")
    num = 20000 if thorough else 2500
    r = tlc.run("SpansHist", "SpansHist.sim.cfg", chk.scratch, workers=1, simulate="file=%s/tr,num=%d" % (simdir, num),
                depth=14, seed=chk.seed % 10**6, timeout=1800)
    if r.violated or r.error:
        raise MachineryError("SpansHist simulation failed:\n" + r.out[-2000:])
    files = sorted(glob.glob(simdir + "/tr_*"))
    if len(files) < num // 2:
        raise MachineryError("SpansHist simulation produced only %d behaviours" % len(files))
    for i, fn in enumerate(files):
        states = tlaval.parse_sim_file(fn)
        check_span_history(chk, states, "YHQMDI"[i % 6])
        if i == 0:
            chk.sample({"span_history": {"init": _plain(states[0]["cur"]), "ops": [_plain(s["last"]) for s in states[1:]],
                                         "final": _plain(states[-1]["obs"]["cur"])}})
    chk.replayed += len(files)
    chk.notes["span_histories_replayed"] = len(files)
    chk.notes["span_transitions_replayed"] = n
    chk.notes["periods_replayed"] = len(scen)
    span_trace_direction(chk, 3000 if thorough else 400, 14)
    chk.exhaustive = True
    chk.rule = ("periods: every period of the configured calendar windows (all regular periods of the listed years, every day of the "
                "listed day-years, integer serials) x 17 offsets x 4 keyword shifts; spans: every (span state, operation) pair of "
                "SpansStep (bounds -1..5, open ends +-1, steps +-1..3) in 2 (quick) or 6 (thorough) frequencies, plus simulated "
                "mutation histories of depth 14 from SpansHist; a case is one period / one transition / one history")
    chk.assumptions = ["Python's datetime.date.toordinal numbering is the serial of a daily period (public: to_python_date)",
                       "Span slices with a negative step and Span - Period ranges are not part of the statement and are not checked",
                       "half-yearly/yearly 'middle' positions are only required to lie inside the period (C11)"]


def replay(chk, sc):
    if sc["kind"] == "period":
        o = tlaval._Rec(sc["out"])
        o["add"] = {int(k): (tuple(v) if isinstance(v, list) else v) for k, v in sc["out"]["add"].items()}
        o["kw"] = {k: (tlaval.MV(v) if isinstance(v, str) else v) for k, v in sc["out"]["kw"].items()}
        check_period(chk, sc["p"], o)
    else:
        raise MachineryError("replay of %s scenarios: re-run the check (span scenarios are regenerated deterministically)" % sc["kind"])
    chk.replayed += 1
    chk.states = 1
    chk.transitions = 1
    chk.sample(sc)
