"""Adapter between the abstract Series of Series.tla and irispie.Series (shared by C10 and others)."""
import math
import numpy as np
import irispie as ir
from .. import tlaval
from ..common import MachineryError

MV = tlaval.MV


def bases():
    return {"Q": ir.qq(2019, 3), "M": ir.mm(2019, 11), "Y": ir.yy(2019), "H": ir.hh(2019, 2),
            "D": ir.dd(2020, 2, 27), "I": ir.ii(-2)}


def is_mv(x, name=None):
    return isinstance(x, MV) and (name is None or str(x) == name)


def val_to_float(v):
    if is_mv(v, "NaN"):
        return math.nan
    if isinstance(v, tuple) and isinstance(v[0], str):     # symbolic exact value
        tag = v[0]
        if tag == "p2":
            return float(np.float64(2.0) ** np.float64(v[1]))
        if tag == "pct2":
            return float(100.0 * (np.float64(2.0) ** np.float64(v[1]) - 1.0))
        if tag == "ln2":
            return v[1] * math.log(2.0)
        raise MachineryError("unknown symbolic value %r" % (v,))
    if isinstance(v, tuple):          # exact rational <<num, den>>
        return v[0] / v[1]
    if is_mv(v):
        raise MachineryError("cannot convert %r to a number" % (v,))
    return float(v)


class World:
    def __init__(self, f):
        self.f = f
        self.base = bases()[f]

    def per(self, n):
        return self.base + n

    def periods(self, P, as_span=False):
        P = tuple(P)
        if as_span and len(P) > 1 and all(b - a == 1 for a, b in zip(P, P[1:])):
            return ir.Span(self.per(P[0]), self.per(P[-1]))
        if as_span and len(P) == 1:
            return self.per(P[0])
        return tuple(self.per(n) for n in P)

    def build(self, c):
        """irispie Series from a canonical record [nv, start, rows]."""
        if is_mv(c["start"]):
            return ir.Series(num_variants=c["nv"])
        rows = np.array([[val_to_float(v) for v in row] for row in c["rows"]], dtype=float)
        x = ir.Series(num_variants=c["nv"], start=self.per(c["start"]), values=rows)
        return x

    def project(self, x):
        """(nv, start offset or None, rows as lists of floats) as stored."""
        data = np.asarray(x.data, dtype=float)
        start = None if x.start is None else x.start - self.base
        return (data.shape[1] if data.ndim == 2 else None, start, data.tolist())

    def as_map(self, x):
        nv, start, rows = self.project(x)
        m = {}
        if start is not None:
            for i, row in enumerate(rows):
                for v, val in enumerate(row):
                    if not (isinstance(val, float) and math.isnan(val)):
                        m[(start + i, v)] = val
        return nv, start, len(rows), m


def close(a, b, tol=1e-9):
    return abs(a - b) <= tol * max(1.0, abs(b))


def any_cells_of(c):
    out = set()
    if not is_mv(c["start"]):
        for i, row in enumerate(c["rows"]):
            for v, val in enumerate(row):
                if is_mv(val, "AnyVal"):
                    out.add((c["start"] + i, v))
    return out


def diff_series(w, x, c, exact, what, ignore=()):
    """Compare an irispie Series with the spec's canonical record. Returns None or a description."""
    if not isinstance(x, ir.Series):
        return "%s is %s, not a Series" % (what, type(x).__name__)
    nv, start, nrows, m = w.as_map(x)
    if nv != c["nv"]:
        return "%s has %r variants, spec %d" % (what, nv, c["nv"])
    # expected map
    em, any_cells = {}, set(ignore)
    if not is_mv(c["start"]):
        for i, row in enumerate(c["rows"]):
            for v, val in enumerate(row):
                if is_mv(val, "NaN"):
                    continue
                if is_mv(val, "AnyVal"):
                    any_cells.add((c["start"] + i, v))
                    continue
                em[(c["start"] + i, v)] = val_to_float(val)
    for k in set(m) | set(em):
        if k in any_cells:
            continue
        if k not in m:
            return "%s is missing at period %+d variant %d, spec %r" % (what, k[0], k[1], em[k])
        if k not in em:
            return "%s has %r at period %+d variant %d, spec NaN" % (what, m[k], k[0], k[1])
        if not close(m[k], em[k]):
            return "%s has %r at period %+d variant %d, spec %r" % (what, m[k], k[0], k[1], em[k])
    # span must cover the support (it does by construction of as_map); internal consistency of the reported span
    if start is None:
        if nrows != 0:
            return "%s has no start but %d rows" % (what, nrows)
    if exact and not any_cells:
        estart = None if is_mv(c["start"]) else c["start"]
        erows = 0 if estart is None else len(c["rows"])
        if start != estart or nrows != erows:
            return "%s is stored as start=%r with %d rows; trimmed form is start=%r with %d rows" % (what, start, nrows, estart, erows)
    # public span accessors agree with the stored data
    try:
        if start is not None and nrows > 0:
            if x.end - x.start + 1 != nrows or len(x.periods) != nrows or x.shape != (nrows, nv):
                return "%s: start/end/periods/shape disagree with the data (%r..%r, %d rows)" % (what, x.start, x.end, nrows)
    except Exception as ex:
        return "%s: span accessors raised %r" % (what, ex)
    return None


def snapshot(w, x):
    nv, start, rows = w.project(x)
    return (nv, start, repr(rows))
