"""C16 - block decomposition of an incidence matrix is a valid sequential ordering.

Spec: Blocks.tla (SolveBlock/Finish; partition and sequential-validity invariants; no deadlock before Finish, checked by TLC
on all matrices with a perfect matching up to MaxN). Binding (code -> spec): the block sequence returned by blaze() for every
matrix, and the outcome of Sequential.sequentialize() for every dependency digraph, are recorded as traces and validated by TLC
against TraceBlocks.tla (each returned block must be an enabled SolveBlock step, the last step must enable Finish).
"""
import itertools, random
import numpy as np
import irispie as ir
from irispie.incidences import blazer
from .. import tlc, tracecheck
from ..common import MachineryError


def has_pm(im):
    n = im.shape[0]
    match = [-1] * n

    def try_row(r, seen):
        for c in range(n):
            if im[r, c] and not seen[c]:
                seen[c] = True
                if match[c] < 0 or try_row(match[c], seen):
                    match[c] = r
                    return True
        return False
    return all(try_row(r, [False] * n) for r in range(n))


def all_matrices(n):
    for bits in itertools.product((0, 1), repeat=n * n):
        im = np.array(bits, dtype=bool).reshape(n, n)
        if has_pm(im):
            yield im


def sampled(n, rnd, kind):
    while True:
        if kind == "dense":
            im = np.array([[rnd.random() < 0.7 for _ in range(n)] for _ in range(n)], dtype=bool)
        elif kind == "sparse":
            im = np.array([[rnd.random() < 0.25 for _ in range(n)] for _ in range(n)], dtype=bool)
            for i, j in enumerate(rnd.sample(range(n), n)):
                im[i, j] = True
        elif kind == "triangular":
            im = np.tril(np.array([[rnd.random() < 0.5 for _ in range(n)] for _ in range(n)], dtype=bool)) | np.eye(n, dtype=bool)
        else:  # block-structured
            im = np.zeros((n, n), dtype=bool)
            pos = 0
            while pos < n:
                size = min(rnd.choice((1, 2, 3)), n - pos)
                im[pos:pos + size, pos:pos + size] = True
                if pos:
                    im[pos:pos + size, :pos] = np.array([[rnd.random() < 0.3 for _ in range(pos)] for _ in range(size)])
                pos += size
        rp, cp = rnd.sample(range(n), n), rnd.sample(range(n), n)
        im = im[rp, :][:, cp]
        if has_pm(im):
            return im


def blaze_trace(im, rnd, relabel):
    n = im.shape[0]
    if relabel:
        eids = tuple(rnd.sample(range(100, 100 + 3 * n), n))
        qids = tuple(rnd.sample(range(0, 3 * n), n))
    else:
        eids, qids = tuple(range(n)), tuple(range(n))
    t = {"kind": "blaze", "n": n, "im": im.astype(int).tolist(), "eids": list(eids), "qids": list(qids)}
    try:
        blocks = blazer.blaze(im.copy(), eids=eids, qids=qids)
        t["blocks"] = [{"e": [int(x) for x in b.eids], "q": [int(x) for x in b.qids]} for b in blocks]
        t["exc"] = None
    except Exception as ex:
        t["blocks"] = []
        t["exc"] = repr(ex)
    return t


def seq_trace(dep, extra, rnd):
    """Sequential model whose equation i reads lhs j at shift 0 iff dep[i][j]; extra adds lags/leads (no dependency)."""
    n = len(dep)
    names = ["v%d" % i for i in range(n)]
    eqs = []
    for i in range(n):
        terms = ["%d" % (i + 1)]
        for j in range(n):
            if dep[i][j] and i != j:
                terms.append("0.5*%s" % names[j])
            sh = extra[i][j]
            if sh:
                terms.append("0.25*%s{%+d}" % (names[j], sh))
        eqs.append("%s = %s;" % (names[i], " + ".join(terms)))
    src = "!equations\n" + "\n".join(eqs) + "\n"
    t = {"kind": "seq", "n": n, "dep": [[int(bool(dep[i][j])) for j in range(n)] for i in range(n)], "src": src}
    m = ir.Sequential.from_string(src)
    before = tuple(m.equation_strings)
    try:
        order = m.sequentialize()
        t["raised"] = False
        t["order"] = [int(x) for x in order]
        after = tuple(m.equation_strings)
        t["reordered"] = bool(len(order) == n and sorted(order) == list(range(n)) and after == tuple(before[k] for k in order)
                              and tuple(m.lhs_names_in_equations) == tuple(names[k] for k in order))
        t["is_sequential"] = bool(m.is_sequential)
        t["unchanged"] = after == before
    except Exception as ex:
        t["raised"] = True
        t["order"] = []
        t["reordered"] = False
        t["is_sequential"] = False
        t["unchanged"] = tuple(m.equation_strings) == before
        t["exc"] = repr(ex)
    return t


def run(chk):
    rnd = random.Random(chk.seed)
    thorough = chk.tier == "thorough"
    # 1. the design: exhaustive check of the Blocks machine
    r = tlc.must_pass(tlc.run("Blocks", "Blocks.thorough.cfg" if thorough else "Blocks.cfg", chk.scratch, coverage=True, timeout=7200), "Blocks")
    chk.add_tlc(r, "Blocks/mc")
    for act in ("SolveBlock", "Finish"):
        if act in r.coverage and r.coverage[act][1] == 0:
            raise MachineryError("Blocks: action %s never taken (vacuous)" % act)
    # 2. traces of blaze()
    traces = []
    for n in (1, 2, 3):
        for im in all_matrices(n):
            traces.append(blaze_trace(im, rnd, relabel=False))
            traces.append(blaze_trace(im, rnd, relabel=True))
    four = list(all_matrices(4)) if thorough else None
    if thorough:
        for im in four:
            traces.append(blaze_trace(im, rnd, relabel=False))
            traces.append(blaze_trace(im, rnd, relabel=True))
    else:
        # every 4x4 matrix with a perfect matching is still run through blaze; one in 6 (seeded) goes to TLC in the quick tier
        for k, im in enumerate(all_matrices(4)):
            if (k + chk.seed) % 6 == 0:
                traces.append(blaze_trace(im, rnd, relabel=bool(k % 2)))
    for n in (5, 6, 7, 8):
        for kind in ("dense", "sparse", "triangular", "block"):
            for _ in range(60 if thorough else 12):
                traces.append(blaze_trace(sampled(n, rnd, kind), rnd, relabel=True))
    nblaze = len(traces)
    # 3. traces of Sequential.sequentialize()
    for n in (1, 2, 3):
        pairs = [(i, j) for i in range(n) for j in range(n) if i != j]
        for bits in itertools.product((0, 1), repeat=len(pairs)):
            dep = [[0] * n for _ in range(n)]
            for (i, j), b in zip(pairs, bits):
                dep[i][j] = b
            for variant in range(2):
                extra = [[0] * n for _ in range(n)]
                if variant:
                    for i in range(n):
                        for j in range(n):
                            extra[i][j] = rnd.choice((0, 0, -1, -2, 1, 2))
                traces.append(seq_trace(dep, extra, rnd))
    for _ in range(400 if thorough else 80):
        n = rnd.choice((4, 5, 6))
        dep = [[int(i != j and rnd.random() < 0.25) for j in range(n)] for i in range(n)]
        if rnd.random() < 0.6:      # make it acyclic under a hidden order
            perm = rnd.sample(range(n), n)
            rank = {v: k for k, v in enumerate(perm)}
            dep = [[dep[i][j] if rank[j] < rank[i] else 0 for j in range(n)] for i in range(n)]
        extra = [[rnd.choice((0, 0, 0, -1, 1, 2)) for _ in range(n)] for _ in range(n)]
        traces.append(seq_trace(dep, extra, rnd))
    for t in traces:
        if t["kind"] == "blaze" and t["exc"]:
            chk.mismatch("blaze:raised", "blaze raised %s on %s" % (t["exc"], t["im"]), t)
    slim = [{k: v for k, v in t.items() if k not in ("src", "exc")} for t in traces]
    rejected, r = tracecheck.validate("TraceBlocks", "TraceBlocks.cfg", slim, chk.scratch, timeout=7200)
    chk.add_tlc(r, "TraceBlocks")
    for i, furthest in sorted(rejected.items()):
        t = traces[i]
        if t["kind"] == "blaze":
            chk.mismatch("blaze:invalid-blocks", "blaze(%s, eids=%s, qids=%s) returned %s: TLC accepts only the first %d block(s) as SolveBlock steps "
                         "(not a valid sequential block ordering)" % (t["im"], t["eids"], t["qids"], t["blocks"], max(furthest - 1, 0)), t)
        else:
            chk.mismatch("seq:%s" % ("raised" if t["raised"] else "order"),
                         "Sequential.sequentialize() on\n%s\n%s - rejected by TraceBlocks (dep=%s, unchanged=%s, reordered=%s)" % (
                             t["src"], ("raised " + t.get("exc", "")) if t["raised"] else "returned %s" % t["order"], t["dep"], t["unchanged"], t["reordered"]), t)
    chk.traces += len(traces)
    chk.sample(traces[40])
    chk.sample({k: v for k, v in traces[nblaze + 30].items()})
    chk.notes["blaze_traces"] = nblaze
    chk.notes["sequentialize_traces"] = len(traces) - nblaze
    chk.exhaustive = thorough
    chk.rule = ("blaze traces: every boolean matrix with a perfect matching for n <= 3 (two id labelings), every 4x4 one (thorough; one in six "
                "seeded in quick), sampled dense/sparse/triangular/block-structured permuted matrices n = 5..8 with random labels; sequentialize "
                "traces: every dependency digraph on <= 3 equations with and without lags/leads, sampled n = 4..6; each trace validated by TLC")
    chk.assumptions = ["structural non-singularity = existence of a perfect matching of the block's sub-matrix"]


def replay(chk, t):
    slim = [{k: v for k, v in t.items() if k not in ("src", "exc")}]
    if t["kind"] == "blaze":
        new = blaze_trace(np.array(t["im"], dtype=bool), random.Random(0), False)
        new["eids"], new["qids"] = t["eids"], t["qids"]
        blocks = blazer.blaze(np.array(t["im"], dtype=bool), eids=tuple(t["eids"]), qids=tuple(t["qids"]))
        new["blocks"] = [{"e": [int(x) for x in b.eids], "q": [int(x) for x in b.qids]} for b in blocks]
        slim = [{k: v for k, v in new.items() if k not in ("src", "exc")}]
    rejected, r = tracecheck.validate("TraceBlocks", "TraceBlocks.cfg", slim, chk.scratch)
    chk.add_tlc(r, "TraceBlocks")
    if rejected:
        chk.mismatch("replay", "trace rejected again", t)
    chk.traces += 1
    chk.sample(t)
