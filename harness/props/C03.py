"""C03 - Kalman filter, smoother and likelihood equal exact Gaussian conditioning.

Spec: KalmanMC.tla over GaussSS: the joint Gaussian distribution of states, measurement variables and shocks of periods 1..3 built
from the library's reduced form (unconditional start = exact Lyapunov solution); predicted / updated / smoothed means and variances
as conditional moments given the observations before / up to / in all periods (exact rational solves); one-step prediction errors,
their covariances, determinants and quadratic forms for the likelihood. Binding: kalman_filter(..., return_info=True) output groups
and the likelihood are compared with the spec for every scenario (missing-data masks, variances, deviation, rescale_variance).
"""
import math
import numpy as np
import irispie as ir
from ..common import MachineryError
from .C09 import _plain
from .kalman_common import scenarios, run_filter, val, nanv, TK
from .lre_common import fr


def close(g, e, tol=1e-8):
    return not math.isnan(g) and abs(g - e) <= tol * max(1.0, abs(e))


def check(chk, sc, out, deviation):
    payload = {"kind": "kalman", "sc": _plain(sc), "src": list(out["src"]), "deviation": deviation}
    tag = "kalman:%s%s" % (sc["id"], ":dev" if deviation else "")
    desc = "model %s data %s shock variances %s measurement variance %s deviation=%s" % (sc["id"], _plain(sc["data"]), _plain(sc["sd"]), _plain(sc["sdw"]), deviation)
    try:
        m, res, info, steady = run_filter(sc, out, deviation=deviation)
    except Exception as ex:
        chk.mismatch(tag + ":raised:" + type(ex).__name__, desc + ": raised %r" % (ex,), payload)
        return
    nx, ny, ne, nw = len(out["vars"]), len(out["mvars"]), len(out["shocks"]), len(out["mshocks"])
    names = list(out["vars"]) + list(out["mvars"]) + list(out["shocks"]) + list(out["mshocks"])
    shift = lambda n: (steady[n] if (deviation and n in steady) else 0.0)
    for group, key in (("predict", "predict"), ("update", "update"), ("smooth", "smooth")):
        for t in range(1, TK + 1):
            mom = out[key][t - 1]
            for q, n in enumerate(names):
                e = float(fr(mom["mean"][q])) - shift(n)
                g = val(res, group + "_med", n, t)
                is_meas = nx <= q < nx + ny
                if math.isnan(g) and is_meas and nanv(sc["data"][t - 1][q - nx]):
                    continue      # a measurement variable without an observation is not reported in that period
                if not close(g, e):
                    chk.mismatch("%s:%s_med" % (tag, group), desc + ": %s_med of %s in period %d is %r, conditional mean %r" % (group, n, t, g, e), payload)
                    return
                if q < nx:
                    ev = float(fr(mom["var"][q]))
                    gs = val(res, group + "_std", n, t)
                    if math.isnan(gs) or abs(gs * gs - ev) > 1e-8 * max(1.0, ev):
                        chk.mismatch("%s:%s_std" % (tag, group), desc + ": %s_std of %s in period %d is %r (variance %r), conditional variance %r" % (group, n, t, gs, gs * gs, ev), payload)
                        return
    # prediction errors and the likelihood
    total_n = 0
    nll_exp, contrib_exp, quad_sum = 0.0, [], 0.0
    for t in range(1, TK + 1):
        pe = out["pe"][t - 1]
        n = pe["n"]
        obs_idx = [i for i in range(ny) if not nanv(sc["data"][t - 1][i])]
        for a, i in enumerate(obs_idx):
            e = float(fr(pe["v"][a]))
            g = val(res, "predict_err", out["mvars"][i], t)
            if not close(g, e):
                chk.mismatch(tag + ":predict_err", desc + ": prediction error of %s in period %d is %r, exact %r" % (out["mvars"][i], t, g, e), payload)
                return
        try:
            F = np.asarray(res["predict_mse_obs"][0][t - 1], dtype=float)
            Fe = np.array([[float(fr(x)) for x in row] for row in pe["F"]], dtype=float).reshape(n, n)
            if F.shape != Fe.shape or (n and not np.allclose(F, Fe, rtol=1e-8, atol=1e-9)):
                chk.mismatch(tag + ":predict_mse_obs", desc + ": prediction-error covariance in period %d is %s, exact %s" % (t, F.tolist(), Fe.tolist()), payload)
                return
        except MachineryError:
            raise
        except Exception as ex:
            chk.mismatch(tag + ":predict_mse_obs:" + type(ex).__name__, desc + ": reading predict_mse_obs raised %r" % (ex,), payload)
            return
        c = 0.5 * (n * math.log(2 * math.pi) + math.log(float(fr(pe["det"]))) + float(fr(pe["quad"]))) if n else 0.0
        contrib_exp.append(c)
        nll_exp += c
        total_n += n
        quad_sum += float(fr(pe["quad"]))
    g = float(info["neg_log_likelihood"])
    if not close(g, nll_exp):
        chk.mismatch(tag + ":neg_log_likelihood", desc + ": neg_log_likelihood %r, negative log-density of the observations %r" % (g, nll_exp), payload)
        return
    cs = info["neg_log_likelihood_contributions"]
    got_c = [float(cs.get_data(ir.qq(2020, 1) + t)[0, 0]) for t in range(TK)]
    for t, (gc, ec) in enumerate(zip(got_c, contrib_exp), 1):
        if not close(gc, ec):
            chk.mismatch(tag + ":contributions", desc + ": likelihood contribution of period %d is %r, exact %r (a period without observations must contribute 0)" % (t, gc, ec), payload)
            return
    if not close(sum(got_c), g):
        chk.mismatch(tag + ":contributions-sum", desc + ": contributions sum to %r, total %r" % (sum(got_c), g), payload)
        return
    # the same through neg_log_likelihood(...) if available, and variance rescaling
    if not deviation and total_n:
        try:
            m2, res2, info2, _ = run_filter(sc, out, rescale=True)
            scale_exp = quad_sum / total_n
            gsc = float(info2["var_scale"])
            if not close(gsc, scale_exp):
                chk.mismatch(tag + ":var_scale", desc + ": var_scale %r, sum of normalised squared prediction errors / number of observations = %r" % (gsc, scale_exp), payload)
                return
        except Exception as ex:
            chk.mismatch(tag + ":rescale:raised:" + type(ex).__name__, desc + ": rescale_variance=True raised %r" % (ex,), payload)


def run(chk):
    scen = scenarios(chk)
    n = 0
    for sc, out in scen:
        check(chk, sc, out, deviation=False)
        check(chk, sc, out, deviation=True)
        n += 2
    sc, out = scen[len(scen) // 2]
    chk.sample({"scenario": _plain(sc), "spec_smoothed_means_period2": _plain(out["smooth"][1]["mean"]),
                "spec_prediction_error_cov": _plain([pe["F"] for pe in out["pe"]])})
    chk.replayed += n
    chk.exhaustive = True
    chk.rule = ("models L1, L9 (lagged state in the measurement equation), LK (two observables, two measurement shocks), LK2 (two states) x 3-4 data sets "
                "with missing-value masks incl. periods without observations x 2 shock variances x 2 measurement variances, 3 periods, level and "
                "deviation mode, rescale_variance; a case is one filter run")
    chk.assumptions = ["stationary models started from their unconditional distribution; diffuse initialisation (unit roots) is not covered",
                       "variances are chosen so that stationary covariances are small rationals; stds are assigned as their square roots; numpy trusted"]


def replay(chk, s):
    raise MachineryError("re-run ./check C03 (scenarios are regenerated deterministically)")
