"""C03 - Kalman filter, smoother and likelihood equal exact Gaussian conditioning.

Spec: KalmanMC.tla over GaussSS: the joint Gaussian distribution of states, measurement variables and shocks of periods 1..3 built
from the library's reduced form (unconditional start = exact Lyapunov solution); predicted / updated / smoothed means and variances
as conditional moments given the observations before / up to / in all periods (exact rational solves); one-step prediction errors,
their covariances, determinants and quadratic forms for the likelihood. Binding: kalman_filter(..., return_info=True) output groups
and the likelihood are compared with the spec for every scenario (missing-data masks, variances, deviation, rescale_variance).
"""
import math
import numpy as np
import irispie as ir
from ..common import MachineryError
from .C09 import _plain
from .kalman_common import scenarios, run_filter, val, nanv, TK, has_extra
from .lre_common import fr


def close(g, e, tol=1e-8):
    return not math.isnan(g) and abs(g - e) <= tol * max(1.0, abs(e))


def check(chk, sc, out, deviation):
    payload = {"kind": "kalman", "sc": _plain(sc), "src": list(out["src"]), "deviation": deviation}
    tag = "kalman:%s%s" % (sc["id"], ":dev" if deviation else "")
    desc = "model %s data %s shock variances %s%s measurement variance %s deviation=%s" % (sc["id"], _plain(sc["data"]), _plain(sc["sd"]),
        (" plus %s (transition) and %s (measurement) in periods 1..%d supplied as std data (stds_from_data=True)" % (_plain(sc["dsd"]), _plain(sc["dsw"]), TK)) if has_extra(sc) else "", _plain(sc["sdw"]), deviation)
    try:
        m, res, info, steady = run_filter(sc, out, deviation=deviation)
    except Exception as ex:
        chk.mismatch(tag + ":raised:" + type(ex).__name__, desc + ": raised %r" % (ex,), payload)
        return
    nx, ny, ne, nw = len(out["vars"]), len(out["mvars"]), len(out["shocks"]), len(out["mshocks"])
    names = list(out["vars"]) + list(out["mvars"]) + list(out["shocks"]) + list(out["mshocks"])
    shift = lambda n: (steady[n] if (deviation and n in steady) else 0.0)
    for group, key in (("predict", "predict"), ("update", "update"), ("smooth", "smooth")):
        for t in range(1, TK + 1):
            mom = out[key][t - 1]
            for q, n in enumerate(names):
                e = float(fr(mom["mean"][q])) - shift(n)
                g = val(res, group + "_med", n, t)
                is_meas = nx <= q < nx + ny
                if math.isnan(g) and is_meas and nanv(sc["data"][t - 1][q - nx]):
                    continue      # a measurement variable without an observation is not reported in that period
                if not close(g, e):
                    chk.mismatch("%s:%s_med" % (tag, group), desc + ": %s_med of %s in period %d is %r, conditional mean %r" % (group, n, t, g, e), payload)
                    return
                if q < nx:
                    ev = float(fr(mom["var"][q]))
                    gs = val(res, group + "_std", n, t)
                    if math.isnan(gs) or abs(gs * gs - ev) > 1e-8 * max(1.0, ev):
                        chk.mismatch("%s:%s_std" % (tag, group), desc + ": %s_std of %s in period %d is %r (variance %r), conditional variance %r" % (group, n, t, gs, gs * gs, ev), payload)
                        return
    # prediction errors and the likelihood
    total_n = 0
    nll_exp, contrib_exp, quad_sum, logdet_sum = 0.0, [], 0.0, 0.0
    for t in range(1, TK + 1):
        pe = out["pe"][t - 1]
        n = pe["n"]
        obs_idx = [i for i in range(ny) if not nanv(sc["data"][t - 1][i])]
        for a, i in enumerate(obs_idx):
            e = float(fr(pe["v"][a]))
            g = val(res, "predict_err", out["mvars"][i], t)
            if not close(g, e):
                chk.mismatch(tag + ":predict_err", desc + ": prediction error of %s in period %d is %r, exact %r" % (out["mvars"][i], t, g, e), payload)
                return
        try:
            F = np.asarray(res["predict_mse_obs"][0][t - 1], dtype=float)
            Fe = np.array([[float(fr(x)) for x in row] for row in pe["F"]], dtype=float).reshape(n, n)
            if F.shape != Fe.shape or (n and not np.allclose(F, Fe, rtol=1e-8, atol=1e-9)):
                chk.mismatch(tag + ":predict_mse_obs", desc + ": prediction-error covariance in period %d is %s, exact %s" % (t, F.tolist(), Fe.tolist()), payload)
                return
        except MachineryError:
            raise
        except Exception as ex:
            chk.mismatch(tag + ":predict_mse_obs:" + type(ex).__name__, desc + ": reading predict_mse_obs raised %r" % (ex,), payload)
            return
        c = 0.5 * (n * math.log(2 * math.pi) + math.log(float(fr(pe["det"]))) + float(fr(pe["quad"]))) if n else 0.0
        contrib_exp.append(c)
        nll_exp += c
        total_n += n
        quad_sum += float(fr(pe["quad"]))
        logdet_sum += math.log(float(fr(pe["det"]))) if n else 0.0
    g = float(info["neg_log_likelihood"])
    if not close(g, nll_exp):
        chk.mismatch(tag + ":neg_log_likelihood", desc + ": neg_log_likelihood %r, negative log-density of the observations %r" % (g, nll_exp), payload)
        return
    cs = info["neg_log_likelihood_contributions"]
    got_c = [float(cs.get_data(ir.qq(2020, 1) + t)[0, 0]) for t in range(TK)]
    for t, (gc, ec) in enumerate(zip(got_c, contrib_exp), 1):
        if not close(gc, ec):
            chk.mismatch(tag + ":contributions", desc + ": likelihood contribution of period %d is %r, exact %r (a period without observations must contribute 0)" % (t, gc, ec), payload)
            return
    if not close(sum(got_c), g):
        chk.mismatch(tag + ":contributions-sum", desc + ": contributions sum to %r, total %r" % (sum(got_c), g), payload)
        return
    # the same through neg_log_likelihood(...) if available, and variance rescaling
    if not deviation and total_n and quad_sum == 0:
        chk.no_claim += 1       # the data equal their predictions exactly: the maximum-likelihood scale is 0 and the concentrated likelihood unbounded
    elif not deviation and total_n:
        try:
            m2, res2, info2, _ = run_filter(sc, out, rescale=True)
            scale_exp = quad_sum / total_n
            gsc = float(info2["var_scale"])
            if not close(gsc, scale_exp):
                chk.mismatch(tag + ":var_scale", desc + ": var_scale %r, sum of normalised squared prediction errors / number of observations = %r" % (gsc, scale_exp), payload)
                return
            # the likelihood concentrated with respect to the common variance scale, at its maximiser s2 = Q / N:
            # 1/2 [ N log 2pi + sum log det F_t + N log s2 + N ]   (N = number of observations, not of periods)
            nll_resc = 0.5 * (total_n * math.log(2 * math.pi) + logdet_sum + total_n * math.log(scale_exp) + total_n)
            g2 = float(info2["neg_log_likelihood"])
            if not close(g2, nll_resc):
                chk.mismatch(tag + ":rescaled-likelihood", desc + ": with rescale_variance=True neg_log_likelihood is %r, the negative log-density at the maximum-likelihood "
                             "variance scale is %r (N = %d observations in %d periods)" % (g2, nll_resc, total_n, TK), payload)
                return
            # per-period contributions at the rescaled variances: 1/2 [ n_t log 2pi + log det F_t + n_t log s2 + quad_t / s2 ]; they sum to the total
            cs2 = info2["neg_log_likelihood_contributions"]
            got_c2 = [float(cs2.get_data(ir.qq(2020, 1) + t)[0, 0]) for t in range(TK)]
            exp_c2 = [0.5 * (out["pe"][t]["n"] * (math.log(2 * math.pi) + math.log(scale_exp)) + math.log(float(fr(out["pe"][t]["det"]))) + float(fr(out["pe"][t]["quad"])) / scale_exp)
                      if out["pe"][t]["n"] else 0.0 for t in range(TK)]
            if not close(sum(got_c2), g2) or any(not close(a_, b_) for a_, b_ in zip(got_c2, exp_c2)):
                chk.mismatch(tag + ":rescaled-contributions", desc + ": with rescale_variance=True the likelihood contributions are %r and sum to %r, the total is %r (contributions at the "
                             "rescaled variances: %r)" % (got_c2, sum(got_c2), g2, exp_c2), payload)
                return
            # means are unchanged by the rescaling, variances are multiplied by the scale
            for t in range(1, TK + 1):
                for q, n_ in enumerate(names[:nx]):
                    e = float(fr(out["smooth"][t - 1]["mean"][q]))
                    g_ = val(res2, "smooth_med", n_, t)
                    ev = float(fr(out["smooth"][t - 1]["var"][q])) * scale_exp
                    gs = val(res2, "smooth_std", n_, t)
                    if not close(g_, e) or math.isnan(gs) or abs(gs * gs - ev) > 1e-8 * max(1.0, ev):
                        chk.mismatch(tag + ":rescaled-moments", desc + ": with rescale_variance=True smoothed %s in period %d is %r with variance %r; exact mean %r, variance x scale %r" % (
                            n_, t, g_, gs * gs, e, ev), payload)
                        return
        except Exception as ex:
            chk.mismatch(tag + ":rescale:raised:" + type(ex).__name__, desc + ": rescale_variance=True raised %r" % (ex,), payload)


def check_two_variants(chk, items):
    """Two std parameterisations of one model as the two variants of ONE model object, same data: every variant has the moments of its own
    scenario, also with rescale_variance=True (each variant rescaled by ITS OWN variance scale, once)."""
    from .lre_common import model, per, quiet
    (sc1, o1), (sc2, o2) = items
    payload = {"kind": "kalman-variants", "scs": [_plain(sc1), _plain(sc2)], "src": list(o1["src"])}
    tag = "kalman-variants:%s" % sc1["id"]
    desc = "model %s with two variants (shock variances %s | %s, measurement variances %s | %s) on data %s" % (
        sc1["id"], _plain(sc1["sd"]), _plain(sc2["sd"]), _plain(sc1["sdw"]), _plain(sc2["sdw"]), _plain(sc1["data"]))
    try:
        m = model(o1["src"], True, fresh=True)
        m.alter_num_variants(2)
        stds = {"std_" + n: [math.sqrt(float(fr(sc1["sd"][i]))), math.sqrt(float(fr(sc2["sd"][i])))] for i, n in enumerate(o1["shocks"])}
        stds.update({"std_" + n: [math.sqrt(float(fr(sc1["sdw"]))), math.sqrt(float(fr(sc2["sdw"])))] for n in o1["mshocks"]})
        m.assign(**stds)
        db = ir.Databox()
        for i, n in enumerate(o1["mvars"]):
            db[n] = ir.Series(start=per(1), values=np.array([math.nan if nanv(row[i]) else float(row[i]) for row in sc1["data"]], dtype=float))
        results = {}
        for resc in (False, True):
            results[resc] = quiet(m.kalman_filter, db, ir.Span(per(1), per(TK)), return_info=True, **({"rescale_variance": True} if resc else {}))
    except Exception as ex:
        chk.mismatch(tag + ":raised:" + type(ex).__name__, desc + ": raised %r" % (ex,), payload)
        return
    nx = len(o1["vars"])
    for v, out in enumerate((o1, o2)):
        n_obs = sum(pe["n"] for pe in out["pe"])
        if not n_obs:
            return
        scale = sum(float(fr(pe["quad"])) for pe in out["pe"]) / n_obs
        for resc in (False, True):
            res, info = results[resc]
            f = scale if resc else 1.0
            for grp in ("predict", "update", "smooth"):
                for t in range(1, TK + 1):
                    for q, n in enumerate(o1["vars"]):
                        e = float(fr(out[grp][t - 1]["mean"][q]))
                        ev_ = float(fr(out[grp][t - 1]["var"][q])) * f
                        try:
                            g = float(res[grp + "_med"][n].get_data(per(t))[0, v])
                            gs = float(res[grp + "_std"][n].get_data(per(t))[0, v])
                        except Exception as ex:
                            chk.mismatch(tag + ":output:" + type(ex).__name__, desc + ": reading %s of %s variant %d raised %r" % (grp, n, v, ex), payload)
                            return
                        if not close(g, e) or math.isnan(gs) or abs(gs * gs - ev_) > 1e-8 * max(1.0, ev_):
                            chk.mismatch(tag + (":rescaled" if resc else "") + ":" + grp, desc + ": rescale_variance=%s: %s %s of variant %d in period %d is %r with variance %r; exact mean %r, variance%s %r" % (
                                resc, grp, n, v, t, g, gs * gs, e, " x its own scale" if resc else "", ev_), payload)
                            return


def check_recursion_clauses(chk, sc, out):
    """Unit-root models (diffuse initial condition): no exact moments in the spec; what the statement implies for ANY model is evaluated on the
    filter's own output: (i) the predicted mean is the transition equation applied to the updated mean of the previous period with zero shocks,
    (ii) without an observation the update changes nothing, (iii) in the last period smoothing changes nothing, (iv) predicted measurement
    variables follow the measurement equations on the predicted states."""
    from .C08 import val_t
    from .lre_common import model, per, quiet
    payload = {"kind": "kalman-clauses", "sc": _plain(sc), "src": list(out["src"])}
    tag = "kalman-clauses:%s" % sc["id"]
    T = len(sc["data"])
    desc = "model %s data %s (diffuse / unknown initial condition)" % (sc["id"], _plain(sc["data"]))
    try:
        m = model(out["src"], True, fresh=True)
        db = ir.Databox()
        for i, n in enumerate(out["mvars"]):
            db[n] = ir.Series(start=per(1), values=np.array([math.nan if nanv(r[i]) else float(r[i]) for r in sc["data"]], dtype=float))
        res, info = quiet(m.kalman_filter, db, ir.Span(per(1), per(T)), return_info=True)
    except Exception as ex:
        chk.mismatch(tag + ":raised:" + type(ex).__name__, desc + ": raised %r" % (ex,), payload)
        return
    g = lambda group, n, t: val_t(res, group, n, t)
    for t in range(2, T + 1):
        for i, q in enumerate(out["teq"]):
            if any(sh > 0 or sh < -1 for (_, _, sh) in q["tx"]):
                continue
            r = float(fr(q["c"])) + sum(float(fr(c)) * (g("predict_med", out["vars"][j - 1], t) if sh == 0 else g("update_med", out["vars"][j - 1], t - 1)) for (c, j, sh) in q["tx"])
            if not abs(r) <= 1e-7:
                chk.mismatch(tag + ":prediction-step", desc + ": transition equation %d has residual %r with the predicted means of period %d and the updated means of period %d (zero shocks)" % (i + 1, r, t, t - 1), payload)
                return
        for i, q in enumerate(out["meq"]):
            if any(sh != 0 for (_, _, sh) in q["tx"]):
                continue
            rhs = float(fr(q["d"])) + sum(float(fr(c)) * g("predict_med", out["vars"][j - 1], t) for (c, j, sh) in q["tx"])
            gm = g("predict_med", out["mvars"][i], t)
            if not math.isnan(gm) and not abs(gm - rhs) <= 1e-7 * max(1.0, abs(rhs)):
                chk.mismatch(tag + ":predicted-measurement", desc + ": predicted %s in period %d is %r, its measurement equation on the predicted states gives %r" % (out["mvars"][i], t, gm, rhs), payload)
                return
    for t in range(1, T + 1):
        if all(nanv(x) for x in sc["data"][t - 1]):
            for n in out["vars"]:
                for grp in ("med", "std"):
                    a, b = g("update_" + grp, n, t), g("predict_" + grp, n, t)
                    if not (abs(a - b) <= 1e-8 * max(1.0, abs(b))):
                        chk.mismatch(tag + ":update-without-observation", desc + ": period %d has no observation but update_%s of %s is %r, predict_%s %r" % (t, grp, n, a, grp, b), payload)
                        return
    for n in out["vars"]:
        for grp in ("med", "std"):
            a, b = g("smooth_" + grp, n, T), g("update_" + grp, n, T)
            if not (abs(a - b) <= 1e-7 * max(1.0, abs(b))):
                chk.mismatch(tag + ":last-period", desc + ": in the last period smooth_%s of %s is %r, update_%s %r" % (grp, n, a, grp, b), payload)
                return


def run(chk):
    from .. import tlc as _tlc, tlaval as _tv
    import os as _os
    dumpc = chk.scratch.file("kalmanc.dump")
    rc = _tlc.must_pass(_tlc.run("KalmanMC", "KalmanMC.clauses.cfg", chk.scratch, dump=dumpc, timeout=600), "KalmanMC/clauses")
    chk.add_tlc(rc, "KalmanMC/clauses")
    nc = 0
    for st in _tv.parse_dump(dumpc, want=lambda b: "done = TRUE" in b):
        if len(st["sc"]["ant"]) == 0 and len(st["sc"].get("wmean", ())) == 0 and not len(st["out"].get("logv", ())):
            check_recursion_clauses(chk, st["sc"], st["out"])
            nc += 1
    _os.remove(dumpc)
    chk.replayed += nc
    chk.notes["clause_only_runs_unit_root"] = nc
    scen = scenarios(chk)
    n = 0
    groups = {}
    for sc, out in scen:
        check(chk, sc, out, deviation=False)
        check(chk, sc, out, deviation=True)
        n += 2
        if not has_extra(sc):
            groups.setdefault((sc["id"], repr(_plain(sc["data"]))), []).append((sc, out))
        else:
            chk.notes["runs_with_time_varying_stds"] = chk.notes.get("runs_with_time_varying_stds", 0) + 2
    npairs = 0
    for key, lst in sorted(groups.items()):
        if len(lst) >= 2 and npairs < (200 if chk.tier == "thorough" else 24):
            check_two_variants(chk, [lst[0], lst[-1]])
            check_two_variants(chk, [lst[-1], lst[0]])
            npairs += 2
    if not npairs:
        raise MachineryError("KalmanMC: no pair of scenarios for the two-variant filter")
    n += npairs
    chk.notes["two_variant_filter_runs"] = npairs
    sc, out = scen[len(scen) // 2]
    chk.sample({"scenario": _plain(sc), "spec_smoothed_means_period2": _plain(out["smooth"][1]["mean"]),
                "spec_prediction_error_cov": _plain([pe["F"] for pe in out["pe"]])})
    if not chk.notes.get("runs_with_time_varying_stds"):
        raise MachineryError("KalmanMC: no scenario with time-varying standard deviations")
    chk.replayed += n
    chk.exhaustive = True
    chk.rule = ("models L1, L9 (lagged state in the measurement equation), LK (two observables, two measurement shocks), LK2 (two states) x 3-4 data sets "
                "with missing-value masks incl. periods without observations x 2 shock variances (one of them also with an extra variance in period 2 supplied as std data) x 2 measurement variances, 3 periods, level and "
                "deviation mode, rescale_variance; a case is one filter run")
    chk.assumptions = ["stationary models are started from their unconditional distribution and decided by exact moments; for unit-root models (diffuse / unknown "
                       "initial condition) only the recursion clauses (prediction step, update without observation, last period, predicted measurement) are decided",
                       "variances are chosen so that stationary covariances are small rationals; stds are assigned as their square roots; numpy trusted"]


def replay(chk, s):
    raise MachineryError("re-run ./check C03 (scenarios are regenerated deterministically)")
