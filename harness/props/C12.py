"""C12 - aggregation and disaggregation respect calendar membership and are consistent.

Spec: Convert.tla (membership through Calendar.tla; documented methods; Law_RoundTrip and Law_Membership checked by TLC),
ConvertMC.tla (scenario enumerator); Arip.tla for the arip method. Binding: every computed scenario replayed through irispie.
"""
import os, math
import numpy as np
import irispie as ir
from .. import tlc, tlaval
from ..common import MachineryError
from .series_common import World, diff_series, snapshot, is_mv, val_to_float
from . import calendar_common as cal
from .C09 import _plain
from .C10 import _unplain


class PWorld(World):
    def __init__(self, base):
        self.base = base
        self.f = None


def build(rec):
    """(world, series) for a spec record [f, n0, ys, rows]; period numbers are offsets from the first period."""
    if is_mv(rec["n0"]):
        return None, ir.Series(num_variants=1)
    base = cal.CTOR[rec["f"]](rec["ys"][0], rec["ys"][1])
    w = PWorld(base)
    rows = np.array([[val_to_float(v) for v in row] for row in rec["rows"]], dtype=float)
    return w, ir.Series(num_variants=rows.shape[1], start=base, values=rows)


def canon(rec):
    if is_mv(rec["n0"]):
        return tlaval._Rec({"nv": None, "start": tlaval.MV("None"), "rows": ()})
    return tlaval._Rec({"nv": len(rec["rows"][0]), "start": 0, "rows": rec["rows"]})


def check(chk, sc, out):
    payload = {"kind": "convert", "sc": _plain(sc), "out": _plain(out)}
    F = cal.FREQ[sc["tf"]]
    ws, x = build(out["src"])
    if ws is None or x.start is None:
        return          # an empty series has no frequency: conversion is not defined for it
    snap = snapshot(ws, x)
    if sc["kind"] == "agg":
        sel = list(sc["select"]) if len(sc["select"]) else None
        kw = {"method": sc["method"], "discard_missing": sc["discard"], "select": sel}
        tag = "agg:%s->%s:%s%s%s" % (sc["f"], sc["tf"], sc["method"], ":discard" if sc["discard"] else "", ":select" if sel else "")
        call = "aggregate"
    else:
        kw = {"method": sc["method"]}
        tag = "dis:%s->%s:%s" % (sc["f"], sc["tf"], sc["method"])
        if sc["tf"] == "D":
            tag = "dis:regular->D"       # one call site: the number of days per period is taken as 365 // frequency
        call = "disaggregate"
    form = "method" if (sc["n0"] + sc["len"]) % 2 else "func"
    desc = "%s(%s, %s) [%s form] on %s series starting %r with rows %s" % (call, sc["tf"], kw, form, sc["f"], x.start, _plain(out["src"]["rows"])[:12])
    try:
        if form == "method":
            y = x.copy()
            getattr(y, call)(F, **kw)
        else:
            y = getattr(ir, call)(x, F, **kw)
    except Exception as ex:
        chk.mismatch(tag + ":raised:" + type(ex).__name__, desc + ": raised %r" % (ex,), payload)
        return
    if snapshot(ws, x) != snap:
        chk.mismatch(tag + ":input-modified", desc + ": input modified", payload)
    res = out["res"]
    c = canon(res)
    if is_mv(res["n0"]):
        if y.start is not None and y.data.size and not np.all(np.isnan(y.data)):
            chk.mismatch(tag, desc + ": spec says the result is empty, got %r" % (y,), payload)
        return
    c["nv"] = len(res["rows"][0])
    wr = PWorld(cal.CTOR[res["f"]](res["ys"][0], res["ys"][1]))
    if y.start is not None and type(y.start) is not type(wr.base):
        chk.mismatch(tag + ":frequency", desc + ": result has frequency of %r" % (y.start,), payload)
        return
    d = diff_series(wr, y, c, True, "result (periods counted from %r)" % (wr.base,))
    if d:
        chk.mismatch(tag, desc + ": " + d, payload)


LOWBASE = {"Y": lambda: ir.yy(2020), "H": lambda: ir.hh(2020, 1)}


def check_arip(chk, sc, out):
    payload = {"kind": "arip", "sc": _plain(sc), "out": _plain(out)}
    lf, hf, w = sc["fr"]
    tag = "arip:%s:%s" % (sc["form"], sc["agg"])
    if not out["ok"]:
        chk.no_claim += 1
        return
    if not out["check"]:
        raise MachineryError("AripMC: solution check false in dump")
    base = LOWBASE[lf]()
    y = np.array([[val_to_float(v)] for v in sc["y"]], dtype=float)
    x = ir.Series(start=base, values=y)
    hbase = base.refrequent(cal.FREQ[hf], position="start")
    n = len(sc["y"]) * w
    tv = [val_to_float(v) for v in sc["tgt"]]
    target = None
    if not all(math.isnan(v) for v in tv):
        target = ir.Series(start=hbase, values=np.array(tv, dtype=float).reshape(-1, 1))
    desc = "disaggregate(%s->%s, arip, model=(%s, %s), target=%s) on %s" % (lf, hf, sc["form"], sc["agg"], _plain(sc["tgt"]), _plain(sc["y"]))
    try:
        kw = {"model": (sc["form"], sc["agg"])}
        if target is not None:
            kw["target"] = target
        z = ir.disaggregate(x, cal.FREQ[hf], method="arip", **kw)
    except Exception as ex:
        chk.mismatch(tag + ":raised:" + type(ex).__name__, desc + ": raised %r" % (ex,), payload)
        return
    exp = [num / den for (num, den) in out["x"]]
    got = z.get_data(ir.Span(hbase, hbase + n - 1)).flatten().tolist()
    for j, (g, e) in enumerate(zip(got, exp)):
        if not (abs(g - e) <= 1e-8 * max(1.0, abs(e))):
            chk.mismatch(tag, desc + ": high-frequency value %d is %r, exact optimum %r (all: %s vs %s)" % (j + 1, g, e, got, exp), payload)
            return


def run(chk):
    dump = chk.scratch.file("arip.dump")
    r = tlc.must_pass(tlc.run("AripMC", "AripMC.cfg", chk.scratch, dump=dump, timeout=900), "AripMC")
    chk.add_tlc(r, "AripMC")
    na = 0
    for st in tlaval.parse_dump(dump, want=lambda b: "done = TRUE" in b):
        check_arip(chk, st["sc"], st["out"])
        na += 1
        if na == 40:
            chk.sample({"arip_scenario": _plain(st["sc"]), "spec_exact_optimum": _plain(st["out"])})
    os.remove(dump)
    chk.replayed += na
    chk.notes["arip_scenarios"] = na
    dump = chk.scratch.file("convert.dump")
    r = tlc.must_pass(tlc.run("ConvertMC", "ConvertMC.cfg", chk.scratch, dump=dump, timeout=3600), "ConvertMC")
    chk.add_tlc(r, "ConvertMC")
    n = 0
    for st in tlaval.parse_dump(dump, want=lambda b: "done = TRUE" in b):
        if not st["out"]["law"]:
            raise MachineryError("ConvertMC: law false in dump")
        check(chk, st["sc"], st["out"])
        n += 1
        if n in (50, 20000):
            chk.sample({"scenario": _plain(st["sc"]), "spec_result": _plain(st["out"]["res"])})
    os.remove(dump)
    chk.replayed += n
    chk.exhaustive = True
    chk.rule = ("aggregate: all 10 finer->coarser pairs of {D,M,Q,H,Y} x starts in every segment of a year (regular) or around month/quarter/"
                "year ends and leap days (daily) x 2-4 lengths x 7 missing-value/variant patterns x 7 methods x discard_missing x select; "
                "disaggregate: all 10 coarser->finer pairs x starts x lengths 1..3 x patterns x {flat, first, middle, last}; a case is one scenario")
    chk.rule += ("; arip: Y->H, H->Q, Y->Q x diff/rate forms x sum/mean/first/last x low data incl. an interior missing value x 0-2 target "
                 "values, the exact constrained optimum computed in the spec by fraction-free elimination of the KKT system")
    chk.assumptions = ["min/max over a group with some (not all) members missing are unspecified; 'middle' is position n div 2 (0-based) of the group",
                       "products over daily groups are out of bound (TLC 32-bit integers)"]


def replay(chk, s):
    check(chk, _unplain(s["sc"]), _unplain(s["out"]))
    chk.replayed += 1
    chk.states = chk.transitions = 1
    chk.sample(s)
