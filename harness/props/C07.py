"""C07 - simulation plans hit exogenized points exactly; swaps invert a simulation.

Spec: PlansMC.tla on top of LinearRE/ModelLib: targets taken from an ordinary simulation, the same shocks endogenized (anticipated or
unanticipated mode, prior input 0 or 1/2); the spec solves for the instruments through the exact impact matrix and TLC checks
Inv_SwapRecovers (they are the original shocks) and Inv_PlannedPathHolds. Binding: every non-singular scenario is run through
SimulationPlan + simulate(plan=...) under first_order and (level mode) stacked_time and compared: exogenized points hit, shocks recovered,
whole path, untouched shocks unchanged.  Known finding: stacked_time ignores unanticipated targets dated after their instrument.
"""
import os, math
import numpy as np
import irispie as ir
from .. import tlc, tlaval
from ..common import MachineryError
from .C09 import _plain
from .lre_common import model, per, fr, quiet, level_of, state_of

TN = 4


def check(chk, sc, out, method):
    payload = {"kind": "plan", "sc": _plain(sc), "pairs": _plain(out["pairs"]), "src": list(out["src"])}
    mode = sc["mode"]
    tag = "plan:%s:%s:%s" % (method, mode, sc["id"])
    if method == "stacked_time" and mode == "unant" and any(p[1] != p[3] for p in out["pairs"]):
        # known finding: the stacked-time simulator honours an unanticipated target only in the first period of a frame
        tag = "plan:stacked_time:unant:instrument-date-differs-from-target-date"
    desc = "model %s %s plan %s (mode %s, prior %s, deviation=%s, init %s, u=%s, a=%s)" % (
        sc["id"], method, _plain(out["pairs"]), mode, _plain(sc["prior"]), sc["dev"], _plain(sc["init"]), sorted(sc["u"]), sorted(sc["a"]))
    dev = bool(sc["dev"])
    logv = set(out["logv"])
    pathx = dict(out["pathx"])
    try:
        m = model(out["src"], out["linear"])
        span = ir.Span(per(1), per(TN))
        db = ir.Databox.steady(m, ir.Span(per(-1), per(TN + 2)), deviation=dev)
        for j, n in enumerate(out["vars"]):
            for k in (-1, 0):
                db[n][per(k)] = level_of(n, logv, fr(pathx[k][j]), dev)
        for j, n in enumerate(out["shocks"]):
            for k in range(1, TN + 1):
                db[n][per(k)] = float(fr(out["uin"][k - 1][j]))
                db["ant_" + n][per(k)] = float(fr(out["ain"][k - 1][j]))
        plan = ir.SimulationPlan(m, span)
        for (j, sx, i, se) in out["pairs"]:
            var, shock = out["vars"][j - 1], out["shocks"][i - 1]
            db[var][per(sx)] = level_of(var, logv, fr(pathx[sx][j - 1]), dev)
            if mode == "ant":
                plan.exogenize_anticipated([per(sx)], var)
                plan.endogenize_anticipated([per(se)], "ant_" + shock)
            else:
                plan.exogenize_unanticipated([per(sx)], var)
                plan.endogenize_unanticipated([per(se)], shock)
        kw = {"method": method, "plan": plan, "deviation": dev}
        if method == "stacked_time":
            kw["solver_settings"] = {"step_tolerance": 1e6}
        sim = quiet(m.simulate, db, span, **kw)
    except Exception as ex:
        chk.mismatch(tag if tag.endswith("target-date") else tag + ":raised:" + type(ex).__name__, desc + ": raised %r" % (ex,), payload)
        return
    # exogenized points hit, whole path recovered
    for j, n in enumerate(out["vars"]):
        for k in range(1, TN + 1):
            e = float(fr(pathx[k][j]))
            g = state_of(n, logv, float(sim[n].get_data(per(k))[0, 0]))
            if not abs(g - e) <= 1e-8 * max(1.0, abs(e)):
                is_target = any(p[0] == j + 1 and p[1] == k for p in out["pairs"])
                chk.mismatch(tag if tag.endswith("target-date") else tag + (":target" if is_target else ":path"), desc + ": %s in period %d is %r, %s %r" % (
                    n, k, g, "exogenized to" if is_target else "path of the ordinary simulation", e), payload)
                return
    # shocks: instruments recovered, all others equal to their inputs
    instr = {(p[2], p[3]): float(fr(tv)) for p, tv in zip(out["pairs"], out["truth"])}
    for j, n in enumerate(out["shocks"]):
        for k in range(1, TN + 1):
            for kind, name, inp in (("unant", n, out["uin"]), ("ant", "ant_" + n, out["ain"])):
                g = float(sim[name].get_data(per(k))[0, 0])
                if kind == mode and (j + 1, k) in instr:
                    e = instr[(j + 1, k)]
                    what = "endogenized shock %s in period %d is %r, the shock of the ordinary simulation is %r" % (name, k, g, e)
                    fp = ":recovered"
                else:
                    e = float(fr(inp[k - 1][j]))
                    what = "shock %s in period %d (not endogenized) is %r, input %r" % (name, k, g, e)
                    fp = ":other-shocks"
                if not abs(g - e) <= 1e-8 * max(1.0, abs(e)):
                    chk.mismatch(tag if tag.endswith("target-date") else tag + fp, desc + ": " + what, payload)
                    return


def run(chk):
    dump = chk.scratch.file("plans.dump")
    r = tlc.must_pass(tlc.run("PlansMC", "PlansMC.thorough.cfg" if chk.tier == "thorough" else "PlansMC.cfg", chk.scratch, dump=dump, timeout=7200), "PlansMC")
    chk.add_tlc(r, "PlansMC")
    n = skipped = 0
    for st in tlaval.parse_dump(dump, want=lambda b: "fin = TRUE" in b):
        sc, out = st["sc"], st["out"]
        if not out["ok"]:
            skipped += 1
            continue
        if out["recovered"] != out["truth"]:
            raise MachineryError("PlansMC: swap law false in dump")
        check(chk, sc, out, "first_order")
        n += 1
        if not sc["dev"]:                       # stacked time has no deviation mode
            check(chk, sc, out, "stacked_time")
            n += 1
        if n in (11, 900):
            chk.sample({"scenario": _plain(sc), "pairs": _plain(out["pairs"]), "spec_recovered_shocks": _plain(out["truth"]),
                        "spec_path": {str(k): _plain(v) for k, v in sorted(dict(out["pathx"]).items())}})
    os.remove(dump)
    chk.replayed += n
    chk.no_claim += skipped
    chk.notes["singular_patterns_excluded"] = skipped
    chk.exhaustive = True
    chk.rule = ("library models L1, L2, L3, L9 x level/deviation x 2 initial windows x 3 unanticipated x 3 anticipated base profiles x anticipated/"
                "unanticipated mode x 5-7 (target, instrument) patterns (same date, instrument before/after the target, two pairs) x prior input 0 or 1/2 "
                "of the endogenized shock; singular patterns excluded by the spec; methods first_order and (level mode) stacked_time; a case is one planned simulation")
    chk.assumptions = ["stacked_time has no deviation mode: level-mode scenarios only; solver_settings step_tolerance disabled as in C06",
                       "models and parameter values are those of the library"]


def replay(chk, s):
    raise MachineryError("re-run ./check C07 (scenarios are regenerated deterministically)")
