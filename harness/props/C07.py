"""C07 - simulation plans hit exogenized points exactly; swaps invert a simulation.

Spec: PlansMC.tla on top of LinearRE/ModelLib: targets taken from an ordinary simulation, the same shocks endogenized (anticipated or
unanticipated mode, prior input 0 or 1/2); the spec solves for the instruments through the exact impact matrix and TLC checks
Inv_SwapRecovers (they are the original shocks) and Inv_PlannedPathHolds. Binding: every non-singular scenario is run through
SimulationPlan + simulate(plan=...) under first_order and (level mode) stacked_time and compared: exogenized points hit, shocks recovered,
whole path, untouched shocks unchanged.  Known finding: stacked_time ignores unanticipated targets dated after their instrument.
"""
import os, math, zlib
import numpy as np
import irispie as ir
from .. import tlc, tlaval
from ..common import MachineryError
from .C09 import _plain
from .lre_common import model, per, fr, quiet, level_of, state_of

TN = 4


FINDING_TAGS = ("target-date", "instrument-and-target")


def break_between(out):
    """Frame by frame (force_split_frames=True) a new frame starts in every period with a non-zero unanticipated input shock and at every
    endogenized unanticipated shock; True if such a break separates some target from its (earlier) instrument."""
    breaks = {k for k in range(1, TN + 1) if any(fr(x) != 0 for x in out["uin"][k - 1])} | {p[3] for p in out["pairs"]}
    return any(any(se < b <= sx for b in breaks) for (j, sx, i, se) in out["pairs"])


def build(sc, out, deterministic=False, edited=False):
    """Model, input databox and plan of one scenario.  edited: the plan is first given one (target, instrument) pair too many, on a date it
    does not use, which is then taken out again (status=False) - the plan means what it finally registers; the input databox keeps a
    stale value of the variable and of the shock on that date."""
    mode = sc["mode"]
    dev = bool(sc["dev"])
    logv = set(out["logv"])
    pathx = dict(out["pathx"])
    m = model(out["src"], out["linear"], deterministic=deterministic)
    span = ir.Span(per(1), per(TN))
    db = ir.Databox.steady(m, ir.Span(per(-1), per(TN + 2)), deviation=dev)
    for j, n in enumerate(out["vars"]):
        for k in (-1, 0):
            db[n][per(k)] = level_of(n, logv, fr(pathx[k][j]), dev)
    for j, n in enumerate(out["shocks"]):
        for k in range(1, TN + 1):
            db[n][per(k)] = float(fr(out["uin"][k - 1][j]))
            db["ant_" + n][per(k)] = float(fr(out["ain"][k - 1][j]))
    plan = ir.SimulationPlan(m, span)
    if edited:
        used = {p[1] for p in out["pairs"]} | {p[3] for p in out["pairs"]}
        free = [k for k in range(1, TN + 1) if k not in used]
        if free:
            k = free[-1]
            var, shock = out["vars"][0], out["shocks"][0]
            if mode == "ant":
                plan.exogenize_anticipated([per(k)], var)
                plan.endogenize_anticipated([per(k)], "ant_" + shock)
                plan.exogenize_anticipated([per(k)], var, status=False)
                plan.endogenize_anticipated([per(k)], "ant_" + shock, status=False)
            else:
                plan.exogenize_unanticipated([per(k)], var)
                plan.endogenize_unanticipated([per(k)], shock)
                plan.exogenize_unanticipated([per(k)], var, status=False)
                plan.endogenize_unanticipated([per(k)], shock, status=False)
            db[var][per(k)] = 99.0          # stale: not a target any more
    for (j, sx, i, se) in out["pairs"]:
        var, shock = out["vars"][j - 1], out["shocks"][i - 1]
        db[var][per(sx)] = level_of(var, logv, fr(pathx[sx][j - 1]), dev)
        if mode == "ant":
            plan.exogenize_anticipated([per(sx)], var)
            plan.endogenize_anticipated([per(se)], "ant_" + shock)
        else:
            plan.exogenize_unanticipated([per(sx)], var)
            plan.endogenize_unanticipated([per(se)], shock)
    return m, db, plan, span


def compare(chk, sim, vid, sc, out, tag, desc, payload):
    """Variant vid of the simulated databox against the spec: exogenized points hit, whole path recovered, instruments recovered, others untouched."""
    mode = sc["mode"]
    logv = set(out["logv"])
    pathx = dict(out["pathx"])
    for j, n in enumerate(out["vars"]):
        for k in range(1, TN + 1):
            e = float(fr(pathx[k][j]))
            g = state_of(n, logv, float(sim[n].get_data(per(k))[0, vid]))
            if not abs(g - e) <= 1e-8 * max(1.0, abs(e)):
                is_target = any(p[0] == j + 1 and p[1] == k for p in out["pairs"])
                chk.mismatch(tag if tag.endswith(FINDING_TAGS) else tag + (":target" if is_target else ":path"), desc + ": %s in period %d is %r, %s %r" % (
                    n, k, g, "exogenized to" if is_target else "path of the ordinary simulation", e), payload)
                return False
    # shocks: instruments recovered, all others equal to their inputs
    instr = {(p[2], p[3]): float(fr(tv)) for p, tv in zip(out["pairs"], out["truth"])}
    for j, n in enumerate(out["shocks"]):
        for k in range(1, TN + 1):
            for kind, name, inp in (("unant", n, out["uin"]), ("ant", "ant_" + n, out["ain"])):
                g = float(sim[name].get_data(per(k))[0, vid])
                if kind == mode and (j + 1, k) in instr:
                    e = instr[(j + 1, k)]
                    what = "endogenized shock %s in period %d is %r, the shock of the ordinary simulation is %r" % (name, k, g, e)
                    fp = ":recovered"
                else:
                    e = float(fr(inp[k - 1][j]))
                    what = "shock %s in period %d (not endogenized) is %r, input %r" % (name, k, g, e)
                    fp = ":other-shocks"
                if not abs(g - e) <= 1e-8 * max(1.0, abs(e)):
                    chk.mismatch(tag if tag.endswith(FINDING_TAGS) else tag + fp, desc + ": " + what, payload)
                    return False
    return True


def describe(sc, out, method):
    return "model %s %s plan %s (mode %s, prior %s, deviation=%s, init %s, u=%s, a=%s)" % (
        sc["id"], method, _plain(out["pairs"]), sc["mode"], _plain(sc["prior"]), sc["dev"], _plain(sc["init"]), sorted(sc["u"]), sorted(sc["a"]))


def check(chk, sc, out, method, split=False, deterministic=False, edited=False):
    payload = {"kind": "plan", "sc": _plain(sc), "pairs": _plain(out["pairs"]), "src": list(out["src"])}
    mode = sc["mode"]
    tag = "plan:%s:%s:%s" % (method + ("/split-frames" if split else "") + ("/deterministic" if deterministic else "") + ("/edited-plan" if edited else ""), mode, sc["id"])
    if method == "stacked_time" and mode == "unant" and any(p[1] != p[3] for p in out["pairs"]):
        # known finding: the stacked-time simulator honours an unanticipated target only in the first period of a frame
        tag = "plan:stacked_time:unant:instrument-date-differs-from-target-date"
    if split and mode == "unant" and break_between(out):
        # known finding: frame by frame, an unanticipated target cannot be reached by an instrument of an earlier frame
        tag = "plan:first_order/split-frames:unant:frame-break-between-instrument-and-target"
    desc = describe(sc, out, method + (" with force_split_frames=True" if split else "") + (" on the model created with deterministic=True" if deterministic else "") +
                    (" with a plan that had a further pair registered and taken out again (status=False)" if edited else ""))
    try:
        m, db, plan, span = build(sc, out, deterministic=deterministic, edited=edited)
        kw = {"method": method, "plan": plan, "deviation": bool(sc["dev"])}
        if method == "stacked_time":
            kw["solver_settings"] = {"step_tolerance": 1e6}
        if split:
            kw["force_split_frames"] = True
        sim = quiet(m.simulate, db, span, **kw)
    except Exception as ex:
        chk.mismatch(tag if tag.endswith(FINDING_TAGS) else tag + ":raised:" + type(ex).__name__, desc + ": raised %r" % (ex,), payload)
        return
    compare(chk, sim, 0, sc, out, tag, desc, payload)


def check_data_variants(chk, items, method):
    """Two scenarios with the same model and plan but different histories, shocks and hence targets, as the two variants of ONE input
    databox: every variant must hit its own targets and recover its own shocks."""
    (sc1, out1), (sc2, out2) = items
    payload = {"kind": "plan-variants", "sc": [_plain(sc1), _plain(sc2)], "pairs": _plain(out1["pairs"])}
    tag = "plan-variants:%s:%s:%s" % (method, sc1["mode"], sc1["id"])
    desc = "two data variants in one databox; variant 0: %s; variant 1: %s" % (describe(sc1, out1, method), describe(sc2, out2, method))
    try:
        m, db1, plan, span = build(sc1, out1)
        _, db2, _, _ = build(sc2, out2)
        db = ir.Databox()
        whole = ir.Span(per(-1), per(TN + 2))
        for n in db1.keys():
            if isinstance(db1[n], ir.Series):
                db[n] = ir.Series(start=per(-1), values=np.column_stack([db1[n].get_data(whole)[:, 0], db2[n].get_data(whole)[:, 0]]))
            else:
                db[n] = db1[n]
        kw = {"method": method, "plan": plan, "deviation": bool(sc1["dev"]), "num_variants": 2}
        if method == "stacked_time":
            kw["solver_settings"] = {"step_tolerance": 1e6}
        sim = quiet(m.simulate, db, span, **kw)
    except Exception as ex:
        chk.mismatch(tag + ":raised:" + type(ex).__name__, desc + ": raised %r" % (ex,), payload)
        return False
    return compare(chk, sim, 0, sc1, out1, tag, desc + " - variant 0", payload) and compare(chk, sim, 1, sc2, out2, tag, desc + " - variant 1", payload)


def run(chk):
    dump = chk.scratch.file("plans.dump")
    r = tlc.must_pass(tlc.run("PlansMC", "PlansMC.thorough.cfg" if chk.tier == "thorough" else "PlansMC.cfg", chk.scratch, dump=dump, timeout=7200), "PlansMC")
    chk.add_tlc(r, "PlansMC")
    n = skipped = ndet = nedit = nsc = 0
    groups = {}
    for st in tlaval.parse_dump(dump, want=lambda b: "fin = TRUE" in b):
        sc, out = st["sc"], st["out"]
        if not out["ok"]:
            skipped += 1
            continue
        if out["recovered"] != out["truth"]:
            raise MachineryError("PlansMC: swap law false in dump")
        nsc += 1
        h_ = zlib.crc32(repr(_plain(sc)).encode())       # (a sample that does not depend on the order of TLC's dump)
        check(chk, sc, out, "first_order")
        n += 1
        if chk.tier == "thorough" or h_ % 2 == 0:
            check(chk, sc, out, "first_order", split=True)
            n += 1
        if chk.tier == "thorough" or h_ % 6 == 0:
            # the same model declared deterministic (no std parameters: shocks are add-factors); the meaning of a plan is unchanged
            check(chk, sc, out, "first_order", deterministic=True)
            n += 1
            ndet += 1
        if chk.tier == "thorough" or h_ % 6 == 3:
            check(chk, sc, out, "first_order", edited=True)
            if not sc["dev"] and not (sc["mode"] == "unant" and any(p[1] != p[3] for p in out["pairs"])):
                check(chk, sc, out, "stacked_time", edited=True)
                n += 1
            n += 1
            nedit += 1
        groups.setdefault((sc["id"], sc["mode"], sc["dev"], repr(_plain(out["pairs"]))), []).append((sc, out))
        if not sc["dev"]:                       # stacked time has no deviation mode
            check(chk, sc, out, "stacked_time")
            n += 1
        if n in (11, 900):
            chk.sample({"scenario": _plain(sc), "pairs": _plain(out["pairs"]), "spec_recovered_shocks": _plain(out["truth"]),
                        "spec_path": {str(k): _plain(v) for k, v in sorted(dict(out["pathx"]).items())}})
    os.remove(dump)
    nv = 0
    for key, lst in sorted(groups.items()):
        if len(lst) < 2:
            continue
        lst.sort(key=lambda so: repr(_plain(so[0])))
        first, last = lst[0], lst[-1]
        if repr(_plain(first[1]["pathx"])) == repr(_plain(last[1]["pathx"])):
            continue
        check_data_variants(chk, [first, last], "first_order")
        nv += 1
        if not key[2] and not (key[1] == "unant" and any(p[1] != p[3] for p in first[1]["pairs"])):
            check_data_variants(chk, [last, first], "stacked_time")
            nv += 1
    if not nv:
        raise MachineryError("PlansMC: no pair of scenarios for the two-variant databox")
    chk.notes["two_data_variant_planned_simulations"] = nv
    chk.notes["planned_simulations_on_deterministic_models"] = ndet
    chk.notes["scenarios_with_an_edited_plan"] = nedit
    if not nedit or not ndet:
        raise MachineryError("PlansMC: no scenario was run with an edited plan / on a deterministic model")
    chk.replayed += n + nv
    chk.no_claim += skipped
    chk.notes["singular_patterns_excluded"] = skipped
    chk.exhaustive = True
    chk.rule = ("library models L1, L2, L3, L9 x level/deviation x 2 initial windows x 3 unanticipated x 3 anticipated base profiles x anticipated/"
                "unanticipated mode x 5-7 (target, instrument) patterns (same date, instrument before/after the target, two pairs) x prior input 0 or 1/2 "
                "of the endogenized shock; singular patterns excluded by the spec; methods first_order and (level mode) stacked_time; a case is one planned simulation")
    chk.assumptions = ["stacked_time has no deviation mode: level-mode scenarios only; solver_settings step_tolerance disabled as in C06",
                       "models and parameter values are those of the library"]


def replay(chk, s):
    raise MachineryError("re-run ./check C07 (scenarios are regenerated deterministically)")
