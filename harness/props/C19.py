"""C19 - databox, dataslate and CSV conversions are lossless on the selected names and span.

Spec: Databox.tla (databoxes over a heap of item objects: deep copies allocate, shallow copies share, databox-level
overlay/underlay/clip/prepend change series objects in place; CSV and dataslate round trips create fresh objects with the same
content on the selected names/span; frame conditions as action properties), DataboxHist.tla (histories over three handles).
Binding: simulated behaviours are replayed through irispie.Databox (real CSV files, real Dataslates) and after every step all
handles are compared: names, contents, descriptions, frequencies and the object-sharing structure.
"""
import os, glob, math
import numpy as np
import irispie as ir
from irispie.dataslates.main import Dataslate
from .. import tlc, tlaval
from ..common import MachineryError
from .series_common import World, diff_series, is_mv, val_to_float
from .C09 import _plain

BASE = {"Q": lambda: ir.qq(2020, 2), "M": lambda: ir.mm(2019, 12), "I": lambda: ir.ii(3)}


class FWorld(World):
    def __init__(self, f):
        self.f = f
        self.base = BASE[f]()


W = {}


def world(f):
    if f not in W:
        W[f] = FWorld(f)
    return W[f]


def build_item(it):
    if it["kind"] == "num":
        return float(it["v"])
    x = world(it["f"]).build(it["c"])
    if it["desc"]:
        x.set_description(it["desc"])
    return x


def diff_item(obj, it, what):
    if it["kind"] == "num":
        if isinstance(obj, ir.Series) or not isinstance(obj, (int, float)) or float(obj) != float(it["v"]):
            return "%s is %r, spec number %r" % (what, obj, it["v"])
        return None
    if not isinstance(obj, ir.Series):
        return "%s is %r, spec a series" % (what, type(obj).__name__)
    w = world(it["f"])
    if obj.start is not None and type(obj.start) is not type(w.base):
        return "%s has frequency of %r, spec %s" % (what, obj.start, it["f"])
    d = diff_series(w, obj, it["c"], False, what)
    if d:
        return d
    desc = obj.get_description() or ""
    if desc != it["desc"]:
        return "%s has description %r, spec %r" % (what, desc, it["desc"])
    return None


def selection(sel):
    if sel[0] == "list":
        return list(sel[1])
    if sel[1] == "ab":
        return lambda n: n in ("a", "b", "x_a", "x_b")
    return lambda n: n != "k"


def apply(op, boxes, h, g, k, spec_after, tmpdir, step):
    name = op[0]
    A = boxes[h]
    if name == "keep":
        A.keep(selection(op[1]))
    elif name == "remove":
        A.remove(selection(op[1]))
    elif name == "rename":
        rn = op[1]
        if rn[0] == "list":
            A.rename(list(rn[1]), list(rn[2]))
        else:
            pfx = rn[2]
            A.rename(selection(rn[1]), lambda n: pfx + n)
    elif name in ("copy", "shallow"):
        sel, pfx = op[1], op[2]
        kw = {"source_names": selection(sel)}
        if pfx:
            kw["target_names"] = (lambda n: pfx + n)
        boxes[k] = A.copy(**kw) if name == "copy" else A.shallow(**kw)
    elif name == "merge":
        boxes[k] = A | boxes[g]
    elif name in ("overlay", "underlay"):
        getattr(A, name)(boxes[g])
    elif name == "clip":
        f, lo, hi = op[1], op[2], op[3]
        w = world(f)
        A.clip(None if is_mv(lo) else w.per(lo), None if is_mv(hi) else w.per(hi))
    elif name == "prepend":
        f, endp = op[1], op[2]
        A.prepend(boxes[g], world(f).per(endp))
    elif name == "csv":
        sel, dr = op[1], op[2]
        names = sorted(spec_after)          # the series names the spec exports (selected names that are series)
        path = os.path.join(tmpdir, "step%d.csv" % step)
        A.to_csv_file(path, names=names, description_row=bool(dr), when_empty="silent")
        boxes[k] = ir.Databox.from_csv_file(path, description_row=bool(dr))
        os.remove(path)
    elif name == "slate":
        names, f, lo, hi, fbn, own = op[1], op[2], op[3], op[4], op[5], op[6]
        w = world(f)
        fallbacks = {fbn: 9.0} if fbn in names else None
        overwrites = {own: 7.0} if own in names else None
        ds = Dataslate.from_databox(A, tuple(names), ir.Span(w.per(lo), w.per(hi)), fallbacks=fallbacks, overwrites=overwrites)
        boxes[k] = ds.to_databox()
    else:
        raise MachineryError("unknown databox op %r" % (op,))


def check_history(chk, states, tmpdir):
    st0 = states[0]
    heap0 = st0["heap"]
    objs = {i + 1: build_item(it) for i, it in enumerate(heap0)}
    boxes = {}
    for h, names in st0["box"].items():
        db = ir.Databox()
        for n, oid in (names.items() if isinstance(names, dict) else []):
            db[n] = objs[oid]
        boxes[h] = db
    ops = [_plain(s["last"]["op"]) + [s["last"]["h"], s["last"]["g"], s["last"]["k"]] for s in states[1:]]
    payload = {"kind": "databox-hist", "ops": ops}
    for i, st in enumerate(states[1:], 1):
        last = st["last"]
        op = last["op"]
        where = "step %d %s (receiver %s, other %s, target %s) of history %s" % (i, _plain(op), last["h"], last["g"], last["k"], ops[:i])
        spec_k = st["box"][last["k"]]
        spec_k = spec_k if isinstance(spec_k, dict) else {}
        try:
            apply(op, boxes, last["h"], last["g"], last["k"], spec_k, tmpdir, i)
        except MachineryError:
            raise
        except Exception as ex:
            chk.mismatch("databox:%s:raised:%s" % (op[0], type(ex).__name__), where + ": raised %r" % (ex,), payload)
            return
        # compare every handle: names, contents, sharing structure
        seen = {}
        for h in sorted(st["box"]):
            spec_names = st["box"][h] if isinstance(st["box"][h], dict) else {}
            got = boxes[h]
            if set(got.keys()) != set(spec_names):
                role = "target" if h == last["k"] else "bystander"
                chk.mismatch("databox:%s:names:%s" % (op[0], role), where + ": databox %s has names %s, spec %s" % (h, sorted(got.keys()), sorted(spec_names)), payload)
                return
            for n, oid in spec_names.items():
                d = diff_item(got[n], st["heap"][oid - 1], "%s[%s]" % (h, n))
                if d:
                    role = "target" if h == last["k"] else "bystander"
                    chk.mismatch("databox:%s:content:%s" % (op[0], role), where + ": " + d, payload)
                    return
                if isinstance(got[n], ir.Series):
                    seen.setdefault(oid, []).append((h, n, got[n]))
        # sharing: same spec object <=> same python object (series items)
        flat = [(oid, h, n, o) for oid, lst in seen.items() for (h, n, o) in lst]
        for a in range(len(flat)):
            for b in range(a + 1, len(flat)):
                same_spec = flat[a][0] == flat[b][0]
                same_impl = flat[a][3] is flat[b][3] or (flat[a][3].data.size and flat[b][3].data.size and np.shares_memory(flat[a][3].data, flat[b][3].data))
                if same_spec != bool(same_impl):
                    chk.mismatch("databox:%s:sharing" % op[0], where + ": %s[%s] and %s[%s] %s an object, spec says they %s" % (
                        flat[a][1], flat[a][2], flat[b][1], flat[b][2], "share" if same_impl else "do not share", "do" if same_spec else "do not"), payload)
                    return


def run(chk):
    thorough = chk.tier == "thorough"
    simdir = chk.scratch.sub("sim")
    tmpdir = chk.scratch.sub("csv")
    per_worker = 90 if thorough else 16
    r = tlc.run("DataboxHist", "DataboxHist.cfg", chk.scratch, workers=16, simulate="file=%s/tr,num=%d" % (simdir, per_worker),
                depth=9, seed=chk.seed % 10**6, timeout=3600)
    if r.violated or r.error:
        raise MachineryError("DataboxHist simulation failed:\n" + r.out[-2500:])
    files = sorted(glob.glob(simdir + "/tr_*"))
    if len(files) < per_worker * 8:
        raise MachineryError("DataboxHist simulation produced only %d behaviours" % len(files))
    import re
    m = re.search(r"The number of states generated: (\d+)", r.out)
    gen = int(m.group(1)) if m else len(files) * 9
    chk.states += gen
    chk.transitions += gen
    chk.tlc_runs.append({"run": "DataboxHist/simulate (frame conditions checked as action properties on every step)", "generated": gen,
                         "behaviours": len(files), "wall_s": round(r.wall, 1)})
    opcount = {}
    for i, fn in enumerate(files):
        states = tlaval.parse_sim_file(fn)
        for s in states[1:]:
            opcount[s["last"]["op"][0]] = opcount.get(s["last"]["op"][0], 0) + 1
        check_history(chk, states, tmpdir)
        if i == 3:
            chk.sample({"databox_history": [_plain(s["last"]["op"]) + [s["last"]["h"], s["last"]["g"], s["last"]["k"]] for s in states[1:]],
                        "final_boxes": _plain(states[-1]["box"])})
    missing = {"keep", "remove", "rename", "copy", "shallow", "merge", "overlay", "underlay", "clip", "prepend", "csv", "slate"} - set(opcount)
    if missing:
        raise MachineryError("DataboxHist: operations never exercised: %s" % sorted(missing))
    chk.replayed += len(files)
    chk.notes["operations_replayed"] = opcount
    chk.rule = ("simulated behaviours of DataboxHist (depth 9, three handles, items of quarterly/monthly/integer frequency, an empty series, a number, "
                "descriptions; keep/remove/rename/copy/shallow/merge/overlay/underlay/clip/prepend/CSV round trip/dataslate round trip with list, "
                "predicate and renaming-function selections incl. absent names); a case is one behaviour; all handles compared after every step")
    chk.assumptions = ["rename onto an existing name and overlay of an object onto itself are not specified and are not generated",
                       "CSV values are small integers (no rounding involved); only series items are exported"]


def replay(chk, s):
    raise MachineryError("databox histories are regenerated deterministically from the seed: re-run ./check C19 with the same VERIF_SEED")
