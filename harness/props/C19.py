"""C19 - databox, dataslate and CSV conversions are lossless on the selected names and span.

Spec: Databox.tla (databoxes over a heap of item objects: deep copies allocate, shallow copies share, databox-level
overlay/underlay/clip/prepend change series objects in place; CSV and dataslate round trips create fresh objects with the same
content on the selected names/span; frame conditions as action properties), DataboxHist.tla (histories over three handles).
Binding: simulated behaviours are replayed through irispie.Databox (real CSV files, real Dataslates) and after every step all
handles are compared: names, contents, descriptions, frequencies and the object-sharing structure.
Code -> spec: TraceDatabox.tla validates histories RECORDED from random databoxes (all six frequencies, 1-3 variants, numbers, lists,
descriptions with commas and quotes) driven through random operations incl. CSV round trips with round / frequency_span /
delimiter / nan_str options; the CSV step is relational ("to the declared rounding").
"""
import os, glob, math
import numpy as np
import irispie as ir
from irispie.dataslates.main import Dataslate
from .. import tlc, tlaval
from ..common import MachineryError
from .series_common import World, diff_series, is_mv, val_to_float
from .C09 import _plain

BASE = {"Q": lambda: ir.qq(2020, 2), "M": lambda: ir.mm(2019, 12), "I": lambda: ir.ii(3),
        "Y": lambda: ir.yy(2018), "H": lambda: ir.hh(2019, 2), "D": lambda: ir.dd(2020, 2, 20)}


class FWorld(World):
    def __init__(self, f):
        self.f = f
        self.base = BASE[f]()


W = {}


def world(f):
    if f not in W:
        W[f] = FWorld(f)
    return W[f]


def build_item(it):
    if it["kind"] == "num":
        return float(it["v"])
    x = world(it["f"]).build(it["c"])
    if it["desc"]:
        x.set_description(it["desc"])
    return x


def diff_item(obj, it, what):
    if it["kind"] == "num":
        if isinstance(obj, ir.Series) or not isinstance(obj, (int, float)) or float(obj) != float(it["v"]):
            return "%s is %r, spec number %r" % (what, obj, it["v"])
        return None
    if not isinstance(obj, ir.Series):
        return "%s is %r, spec a series" % (what, type(obj).__name__)
    w = world(it["f"])
    if obj.start is not None and type(obj.start) is not type(w.base):
        return "%s has frequency of %r, spec %s" % (what, obj.start, it["f"])
    d = diff_series(w, obj, it["c"], False, what)
    if d:
        return d
    desc = obj.get_description() or ""
    if desc != it["desc"]:
        return "%s has description %r, spec %r" % (what, desc, it["desc"])
    return None


def selection(sel):
    if sel[0] == "list":
        return list(sel[1])
    if sel[1] == "ab":
        return lambda n: n in ("a", "b", "x_a", "x_b")
    return lambda n: n != "k"


def apply(op, boxes, h, g, k, spec_after, tmpdir, step):
    name = op[0]
    A = boxes[h]
    if name == "keep":
        A.keep(selection(op[1]))
    elif name == "remove":
        A.remove(selection(op[1]))
    elif name == "rename":
        rn = op[1]
        if rn[0] == "list":
            A.rename(list(rn[1]), list(rn[2]))
        else:
            pfx = rn[2]
            A.rename(selection(rn[1]), lambda n: pfx + n)
    elif name in ("copy", "shallow"):
        sel, pfx = op[1], op[2]
        kw = {"source_names": selection(sel)}
        if pfx:
            kw["target_names"] = (lambda n: pfx + n)
        boxes[k] = A.copy(**kw) if name == "copy" else A.shallow(**kw)
    elif name == "merge":
        boxes[k] = A | boxes[g]
    elif name in ("overlay", "underlay"):
        getattr(A, name)(boxes[g])
    elif name == "clip":
        f, lo, hi = op[1], op[2], op[3]
        w = world(f)
        A.clip(None if is_mv(lo) else w.per(lo), None if is_mv(hi) else w.per(hi))
    elif name == "prepend":
        f, endp = op[1], op[2]
        A.prepend(boxes[g], world(f).per(endp))
    elif name == "csv":
        sel, dr = op[1], op[2]
        names = sorted(spec_after)          # the series names the spec exports (selected names that are series)
        path = os.path.join(tmpdir, "step%d.csv" % step)
        A.to_csv_file(path, names=names, description_row=bool(dr), when_empty="silent")
        boxes[k] = ir.Databox.from_csv_file(path, description_row=bool(dr))
        os.remove(path)
    elif name == "slate":
        names, f, lo, hi, fbn, own = op[1], op[2], op[3], op[4], op[5], op[6]
        w = world(f)
        fallbacks = {fbn: 9.0} if fbn in names else None
        overwrites = {own: 7.0} if own in names else None
        ds = Dataslate.from_databox(A, tuple(names), ir.Span(w.per(lo), w.per(hi)), fallbacks=fallbacks, overwrites=overwrites)
        boxes[k] = ds.to_databox()
    else:
        raise MachineryError("unknown databox op %r" % (op,))


def check_history(chk, states, tmpdir):
    st0 = states[0]
    heap0 = st0["heap"]
    objs = {i + 1: build_item(it) for i, it in enumerate(heap0)}
    boxes = {}
    for h, names in st0["box"].items():
        db = ir.Databox()
        for n, oid in (names.items() if isinstance(names, dict) else []):
            db[n] = objs[oid]
        boxes[h] = db
    ops = [_plain(s["last"]["op"]) + [s["last"]["h"], s["last"]["g"], s["last"]["k"]] for s in states[1:]]
    payload = {"kind": "databox-hist", "ops": ops}
    for i, st in enumerate(states[1:], 1):
        last = st["last"]
        op = last["op"]
        where = "step %d %s (receiver %s, other %s, target %s) of history %s" % (i, _plain(op), last["h"], last["g"], last["k"], ops[:i])
        spec_k = st["box"][last["k"]]
        spec_k = spec_k if isinstance(spec_k, dict) else {}
        try:
            apply(op, boxes, last["h"], last["g"], last["k"], spec_k, tmpdir, i)
        except MachineryError:
            raise
        except Exception as ex:
            chk.mismatch("databox:%s:raised:%s" % (op[0], type(ex).__name__), where + ": raised %r" % (ex,), payload)
            return
        # compare every handle: names, contents, sharing structure
        seen = {}
        for h in sorted(st["box"]):
            spec_names = st["box"][h] if isinstance(st["box"][h], dict) else {}
            got = boxes[h]
            if set(got.keys()) != set(spec_names):
                role = "target" if h == last["k"] else "bystander"
                chk.mismatch("databox:%s:names:%s" % (op[0], role), where + ": databox %s has names %s, spec %s" % (h, sorted(got.keys()), sorted(spec_names)), payload)
                return
            for n, oid in spec_names.items():
                d = diff_item(got[n], st["heap"][oid - 1], "%s[%s]" % (h, n))
                if d:
                    role = "target" if h == last["k"] else "bystander"
                    chk.mismatch("databox:%s:content:%s" % (op[0], role), where + ": " + d, payload)
                    return
                if isinstance(got[n], ir.Series):
                    seen.setdefault(oid, []).append((h, n, got[n]))
        # sharing: same spec object <=> same python object (series items)
        flat = [(oid, h, n, o) for oid, lst in seen.items() for (h, n, o) in lst]
        for a in range(len(flat)):
            for b in range(a + 1, len(flat)):
                same_spec = flat[a][0] == flat[b][0]
                same_impl = flat[a][3] is flat[b][3] or (flat[a][3].data.size and flat[b][3].data.size and np.shares_memory(flat[a][3].data, flat[b][3].data))
                if same_spec != bool(same_impl):
                    chk.mismatch("databox:%s:sharing" % op[0], where + ": %s[%s] and %s[%s] %s an object, spec says they %s" % (
                        flat[a][1], flat[a][2], flat[b][1], flat[b][2], "share" if same_impl else "do not share", "do" if same_spec else "do not"), payload)
                    return


# ---- code -> spec: recorded databox histories validated by TLC against TraceDatabox.tla -----------------------------------------
T_ULO, T_UHI = -12, 24
T_HANDLES = ("h1", "h2", "h3")
INF_SENTINEL = 500000000        # +-inf is logged as +-INF_SENTINEL (no finite value of the driver comes near it)
NAN, NONE = tlaval.MV("NaN"), tlaval.MV("None")
NAMES = ("a", "b", "c", "d", "e", "k", "zz", "p", "q1", "r", "x_a", "x_b", "x_c")
DESCS = ("", "", "alpha", "beta, with a comma", "gamma \"quoted\"")
FREQ_ENUM = {"Y": ir.Frequency.YEARLY, "H": ir.Frequency.HALFYEARLY, "Q": ir.Frequency.QUARTERLY, "M": ir.Frequency.MONTHLY,
             "D": ir.Frequency.DAILY, "I": ir.Frequency.INTEGER}


class TState:
    """Real objects behind the handles plus what the driver has to know to stay inside the enabling conditions of Databox.tla."""
    def __init__(self, scale):
        self.scale = scale
        self.boxes = {}
        self.oid = {}          # id(series object) -> object number
        self.keep = []         # keeps the objects alive so that id() stays unique
        self.lz = set()        # object numbers whose stored span may be loose
        self.freq = {}         # object number -> frequency letter (also for empty series, which have no frequency of their own)

    def number(self, x, f=None, lz=False):
        if id(x) not in self.oid:
            self.oid[id(x)] = len(self.oid) + 1
            self.keep.append(x)
            if f is not None:
                self.freq[self.oid[id(x)]] = f
            if lz:
                self.lz.add(self.oid[id(x)])
        return self.oid[id(x)]


def _freq_of(st, x):
    if x.start is not None:
        return {"YearlyPeriod": "Y", "HalfyearlyPeriod": "H", "QuarterlyPeriod": "Q", "MonthlyPeriod": "M", "DailyPeriod": "D", "IntegerPeriod": "I"}[type(x.start).__name__]
    return st.freq.get(st.oid.get(id(x)), "?")


def _observe(st):
    """The logged projection of all handles; returns (obs, problem)."""
    obs = {}
    for h in T_HANDLES:
        items = {}
        for n in st.boxes[h].keys():
            x = st.boxes[h][n]
            if isinstance(x, ir.Series):
                f = _freq_of(st, x)
                w = world(f if f != "?" else "Q")
                nv, start, rows = w.project(x)
                out = []
                for row in rows:
                    r = []
                    for v in row:
                        if isinstance(v, float) and math.isnan(v):
                            r.append(NAN)
                        elif isinstance(v, float) and math.isinf(v):
                            r.append(INF_SENTINEL if v > 0 else -INF_SENTINEL)
                        else:
                            sv = v * st.scale
                            if abs(sv - round(sv)) > 1e-6:
                                return None, "%s[%s] holds %r, not a multiple of 1/%d" % (h, n, v, st.scale)
                            r.append(int(round(sv)))
                    out.append(tuple(r))
                items[n] = {"kind": "ser", "f": f, "desc": x.get_description() or "", "oid": st.number(x, f),
                            "c": {"nv": nv, "start": NONE if start is None else int(start), "rows": tuple(out)}}
            elif isinstance(x, (list, tuple)):
                items[n] = {"kind": "num", "v": tuple(int(v) for v in x), "oid": 0}
            else:
                sv = float(x) * st.scale
                items[n] = {"kind": "num", "v": int(round(sv)), "oid": 0}
        obs[h] = items if items else ()
    return obs, None


def _rand_item(rnd, st):
    r = rnd.random()
    if r < 0.1:
        return rnd.randint(1, 9) / 1.0 if st.scale == 1 else rnd.randint(100, 900) / st.scale, None
    if r < 0.15:
        return [rnd.randint(1, 5) for _ in range(rnd.randint(1, 3))], None
    f = rnd.choice("QQQMMYHDI")
    nv = rnd.choice((1, 1, 1, 2, 3))
    n = rnd.choice((0, 1, 2, 3, 4, 5))
    w = world(f)
    if n == 0:
        x = ir.Series(num_variants=nv)
    else:
        top = 9 if st.scale == 1 else 999
        rows = [[rnd.choice((math.nan, float(rnd.randint(-top, top)) / st.scale, float(rnd.randint(-top, top)) / st.scale)) for _ in range(nv)] for _ in range(n)]
        for edge in (0, n - 1):
            if all(math.isnan(v) for v in rows[edge]):
                rows[edge][rnd.randrange(nv)] = float(rnd.randint(1, top)) / st.scale
        if rnd.random() < 0.25:            # an infinite value is a value like any other (only NaN is "missing")
            rows[rnd.randrange(n)][rnd.randrange(nv)] = rnd.choice((math.inf, -math.inf))
        x = ir.Series(num_variants=nv, start=w.per(rnd.randint(-3, 6)), values=np.array(rows, dtype=float))
    d = rnd.choice(DESCS)
    if d:
        x.set_description(d)
    return x, f


def _spec_item(st, x, f):
    """Heap record of the spec for a freshly built item."""
    if isinstance(x, ir.Series):
        w = world(f)
        nv, start, rows = w.project(x)
        rows = tuple(tuple(NAN if math.isnan(v) else ((INF_SENTINEL if v > 0 else -INF_SENTINEL) if math.isinf(v) else int(round(v * st.scale))) for v in row) for row in rows)
        return {"kind": "ser", "f": f, "c": {"nv": nv, "start": NONE if start is None else int(start), "rows": rows},
                "desc": x.get_description() or "", "lz": False}
    if isinstance(x, list):
        return {"kind": "num", "v": tuple(x)}
    return {"kind": "num", "v": int(round(x * st.scale))}


def _sel_py(sel):
    return selection(sel)


def _names_of(db):
    return list(db.keys())


def _is_ser(db, n):
    return isinstance(db[n], ir.Series)


def _lay_names(st, A, B):
    """Port of Databox.LayNames; None when some pair cannot be broadcast (the operation is then rejected as a whole)."""
    out = []
    for n in A.keys():
        if n in B.keys() and _is_ser(A, n) and _is_ser(B, n):
            a, b = A[n], B[n]
            if a.start is None or b.start is None:
                continue
            if _freq_of(st, a) != _freq_of(st, b):
                continue
            nva, nvb = a.shape[1], b.shape[1]
            if not (nva == nvb or nva == 1 or nvb == 1):
                return None
            out.append(n)
    return out


def _sel_seq(db, sel):
    if sel[0] == "list":
        return [n for n in sel[1] if n in db.keys()]
    f = selection(sel)
    return [n for n in db.keys() if f(n)]


def _rand_sel(rnd, db):
    if rnd.random() < 0.3:
        return ("pred", rnd.choice(("ab", "notk")))
    pool = list(dict.fromkeys(_names_of(db) + list(rnd.sample(NAMES, 3))))
    return ("list", tuple(rnd.sample(pool, rnd.randint(1, min(4, len(pool))))))


def _propose(rnd, st):
    """A random operation inside the enabling conditions of Databox.tla, or None."""
    h = rnd.choice(T_HANDLES)
    A = st.boxes[h]
    others = [x for x in T_HANDLES if x != h]
    kind = rnd.choice(("keep", "remove", "rename", "rename", "copy", "copy", "shallow", "merge", "overlay", "underlay", "clip", "clip", "prepend",
                       "csv", "csv", "csv", "slate", "slate"))
    if kind in ("keep", "remove"):
        return ((kind, _rand_sel(rnd, A)), h, h, h)
    if kind == "rename":
        if rnd.random() < 0.5:
            src = list(rnd.sample(NAMES, rnd.randint(1, 3)))
            present = [n for n in src if n in A.keys()]
            free = [n for n in NAMES if n not in A.keys() and n not in src]
            if not present or len(free) < len(src):
                return None
            tgt = rnd.sample(free, len(src))
            return (("rename", ("list", tuple(src), tuple(tgt))), h, h, h)
        sel = _rand_sel(rnd, A)
        q = _sel_seq(A, sel)
        if not q or any(("x_" + n) in A.keys() for n in q) or len(set(q)) != len(q):
            return None
        return (("rename", ("func", sel, "x_")), h, h, h)
    if kind in ("copy", "shallow"):
        sel = _rand_sel(rnd, A)
        q = _sel_seq(A, sel)
        if len(set(q)) != len(q):
            return None
        pfx = rnd.choice(("", "x_"))
        if pfx and any((pfx + n) in q for n in q):
            return None
        return ((kind, sel, pfx), h, h, rnd.choice(others))
    if kind == "merge":
        return (("merge",), h, others[0], others[1]) if rnd.random() < 0.5 else (("merge",), h, others[1], others[0])
    if kind in ("overlay", "underlay"):
        g = rnd.choice(others)
        B = st.boxes[g]
        ns = _lay_names(st, A, B)
        if not ns:
            return None
        if any(A[n] is B[n] for n in ns) or len({id(A[n]) for n in ns}) != len(ns):
            return None
        top = B if kind == "overlay" else A
        if any(st.number(top[n]) in st.lz for n in ns):
            return None
        return ((kind,), h, g, h)
    if kind == "clip":
        fs = sorted({_freq_of(st, A[n]) for n in A.keys() if _is_ser(A, n)} - {"?"})
        if not fs:
            return None
        f = rnd.choice(fs)
        lo, hi = sorted((rnd.randint(-4, 10), rnd.randint(-4, 10)))
        return (("clip", f, rnd.choice((NONE, lo)), rnd.choice((NONE, hi))), h, h, h)
    if kind == "prepend":
        g = rnd.choice(others)
        B = st.boxes[g]
        ns = _lay_names(st, A, B)
        if not ns or len({id(A[n]) for n in ns}) != len(ns) or any(st.number(A[n]) in st.lz for n in ns):
            return None
        f = _freq_of(st, A[rnd.choice(ns)])
        return (("prepend", f, rnd.randint(-2, 8)), h, g, h)
    if kind == "csv":
        pool = list(dict.fromkeys(_names_of(A) + list(rnd.sample(NAMES, 2))))
        names = tuple(rnd.sample(pool, rnd.randint(1, min(5, len(pool)))))
        q = [n for n in names if n in A.keys() and _is_ser(A, n)]
        if not q:
            return None
        fs = sorted({_freq_of(st, A[n]) for n in q if A[n].start is not None})
        fspan = NONE
        if fs and rnd.random() < 0.45:
            lo, hi = sorted((rnd.randint(-4, 10), rnd.randint(-4, 10)))
            shape = rnd.choice(("span", "span", "stepped", "backward", "list"))
            if shape == "span":
                P = tuple(range(lo, hi + 1))
            elif shape == "stepped":
                P = tuple(range(lo, hi + 1, rnd.choice((2, 3))))
            elif shape == "backward":
                P = tuple(range(hi, lo - 1, -1))
            else:
                P = tuple(rnd.sample(range(lo, hi + 1), rnd.randint(1, min(4, hi - lo + 1))))
            fspan = (rnd.choice(fs), P)
        rndg = rnd.choice((NONE, NONE, 2, 1, 0)) if st.scale == 100 else rnd.choice((NONE, 0, 3))
        if st.scale == 1 and rndg == 3:
            rndg = NONE
        return (("csv", names, rnd.random() < 0.5, rndg, fspan, rnd.random() < 0.3, rnd.choice((",", ";", "|")), rnd.choice(("", "NA", "NaN")),
                 rnd.choice(("sdmx", "sdmx", "iso")) if "I" not in fs else "sdmx"),      # integer periods have no ISO date
                h, h, rnd.choice(others))
    if kind == "slate":
        f = rnd.choice("QQMYHDI")
        cand = [n for n in A.keys() if (not _is_ser(A, n) and not isinstance(A[n], list)) or (_is_ser(A, n) and _freq_of(st, A[n]) == f and A[n].shape[1] == 1 and A[n].start is not None)]
        absent = [n for n in NAMES if n not in A.keys()]
        fbn = rnd.choice(absent + cand) if (absent + cand) else "zz"
        withinf = [n for n in cand if _is_ser(A, n) and np.isinf(A[n].data).any()]
        if withinf and rnd.random() < 0.7:
            fbn = rnd.choice(withinf)          # a fallback declared for a series that holds an infinite value: only NaN is filled
        names = list(rnd.sample(cand, rnd.randint(0, min(3, len(cand)))))
        if fbn in cand and fbn not in names and rnd.random() < 0.8:
            names.append(fbn)
        if fbn in absent and rnd.random() < 0.6:
            names.append(fbn)
        if not names:
            return None
        rnd.shuffle(names)
        own = rnd.choice(names + ["none", "none"])
        lo = rnd.randint(-3, 6)
        # the last element: leading initial-condition columns that the dataslate is given and that are dropped again (not part of the meaning)
        return (("slate", tuple(names), f, lo, lo + rnd.randint(0, 5), fbn, own, rnd.choice((0, 0, 1, 2))), h, h, rnd.choice(others))
    return None


def _apply_traced(st, op, h, g, k, tmpdir, step):
    A = st.boxes[h]
    name = op[0]
    if name == "csv":
        names, dr, rndg, fspan, start_only, delim, nan_str, dates = op[1], op[2], op[3], op[4], op[5], op[6], op[7], op[8]
        kw = {"names": [n for n in names if n in A.keys() and _is_ser(A, n)], "description_row": bool(dr), "when_empty": "silent",
              "delimiter": delim, "nan_str": nan_str}
        if not is_mv(rndg):
            kw["round"] = int(rndg)
        if not is_mv(fspan):
            w = world(fspan[0])
            P = tuple(fspan[1])
            stp = (P[1] - P[0]) if len(P) > 1 else 1
            if len(P) > 1 and stp != 0 and all(b - a == stp for a, b in zip(P, P[1:])):
                kw["frequency_span"] = {FREQ_ENUM[fspan[0]]: ir.Span(w.per(P[0]), w.per(P[-1]), stp)}
            else:
                kw["frequency_span"] = {FREQ_ENUM[fspan[0]]: tuple(w.per(t) for t in P)}
        src_freq = {n: _freq_of(st, A[n]) for n in kw["names"]}
        path = os.path.join(tmpdir, "t%d.csv" % step)
        rkw = {}
        if dates == "iso":
            # periods written and read as ISO dates (the frequency then comes from the block marker only)
            kw["date_formatter"] = ir.Period.to_iso_string
            rkw["period_from_string"] = ir.Period.from_iso_string
        if start_only:
            rkw["start_period_only"] = True
        A.to_csv_file(path, **kw)
        new = ir.Databox.from_csv_file(path, description_row=bool(dr), delimiter=delim, **rkw)
        os.remove(path)
        for n in new.keys():
            if isinstance(new[n], ir.Series):
                st.number(new[n], src_freq.get(n), lz=True)
        st.boxes[k] = new
        return
    if name == "slate":
        names, f, lo, hi, fbn, own = op[1], op[2], op[3], op[4], op[5], op[6]
        w = world(f)
        fallbacks = {fbn: 9.0 / st.scale} if fbn in names else None
        overwrites = {own: 7.0 / st.scale} if own in names else None
        ini = op[7] if len(op) > 7 else 0
        if ini:
            # the dataslate also holds `ini` initial-condition columns before the span; they are dropped and the databox is built on the base span
            ds = Dataslate.from_databox(A, tuple(names), ir.Span(w.per(lo - ini), w.per(hi)), fallbacks=fallbacks, overwrites=overwrites,
                                        base_columns=tuple(range(ini, ini + hi - lo + 1)), min_max_shift=(-ini, 0))
            ds.remove_initial()
            new = ds.to_databox(span="base")
        else:
            ds = Dataslate.from_databox(A, tuple(names), ir.Span(w.per(lo), w.per(hi)), fallbacks=fallbacks, overwrites=overwrites)
            new = ds.to_databox()
        for n in new.keys():
            if isinstance(new[n], ir.Series):
                st.number(new[n], f, lz=True)
        st.boxes[k] = new
        return
    if name == "clip":
        for n in A.keys():
            if _is_ser(A, n) and _freq_of(st, A[n]) == op[1]:
                st.lz.add(st.number(A[n]))
    if name == "copy":
        before = {n: A[n] for n in A.keys()}
    apply(op, st.boxes, h, g, k, None, tmpdir, step)
    if name == "copy":
        pfx = op[2]
        for n, x in before.items():
            if isinstance(x, ir.Series) and (pfx + n) in st.boxes[k].keys() and isinstance(st.boxes[k][pfx + n], ir.Series):
                st.number(st.boxes[k][pfx + n], _freq_of(st, x), lz=st.number(x) in st.lz)
    if name == "merge":
        for n in st.boxes[k].keys():
            x = st.boxes[k][n]
            if isinstance(x, ir.Series) and id(x) not in st.oid and n in A.keys() and isinstance(A[n], ir.Series):
                st.number(x, _freq_of(st, A[n]), lz=st.number(A[n]) in st.lz)


def record_databox_trace(rnd, nsteps, tmpdir, scale):
    st = TState(scale)
    heap, box = [], {}
    for h in T_HANDLES:
        st.boxes[h] = ir.Databox()
        box[h] = {}
    pool = rnd.sample(NAMES[:7], rnd.randint(4, 6))
    for n in pool:
        x, f = _rand_item(rnd, st)
        st.boxes["h1"][n] = x
        heap.append(_spec_item(st, x, f))
        box["h1"][n] = len(heap)
        if isinstance(x, ir.Series):
            st.number(x, f)
    for n in rnd.sample(pool, rnd.randint(2, len(pool))):
        # the same names in h2: a different object, often of the same frequency (so that overlay / prepend have work to do)
        x1 = st.boxes["h1"][n]
        x, f = _rand_item(rnd, st)
        if isinstance(x1, ir.Series) and isinstance(x, ir.Series) and rnd.random() < 0.7:
            f1 = _freq_of(st, x1)
            if f1 != "?" and f1 != f:
                w = world(f1)
                nv, start, rows = world(f).project(x)
                if start is not None:
                    d = x.get_description()
                    x = ir.Series(num_variants=nv, start=w.per(start), values=np.array(rows, dtype=float))
                    if d:
                        x.set_description(d)
                    f = f1
        st.boxes["h2"][n] = x
        heap.append(_spec_item(st, x, f))
        box["h2"][n] = len(heap)
        if isinstance(x, ir.Series):
            st.number(x, f)
    obs0, problem = _observe(st)
    trace = {"scale": scale, "heap": tuple(heap), "box": {h: (box[h] if box[h] else ()) for h in T_HANDLES}, "obs0": obs0, "steps": ()}
    if problem:
        return trace, problem
    steps = []
    tries = 0
    while len(steps) < nsteps and tries < nsteps * 12:
        tries += 1
        prop = _propose(rnd, st)
        if prop is None:
            continue
        op, h, g, k = prop
        raised = False
        try:
            _apply_traced(st, op, h, g, k, tmpdir, len(steps))
        except MachineryError:
            raise
        except Exception as ex:
            raised = repr(ex)[:300]
        obs, problem = _observe(st) if not raised else (steps[-1]["obs"] if steps else obs0, None)
        spec_op = op[:6] if op[0] == "csv" else op[:7] if op[0] == "slate" else op       # delimiter, NaN string and the text form of the periods are not part of the meaning
        steps.append({"op": spec_op, "h": h, "g": g, "k": k, "raised": bool(raised), "obs": obs, "note": raised or "", "full": op})
        if problem or raised:
            trace["steps"] = tuple(steps)
            return trace, problem
        out = False
        for hh in T_HANDLES:
            for n, it in (obs[hh].items() if obs[hh] else ()):
                c = it.get("c")
                if c and not is_mv(c["start"]) and (c["start"] < T_ULO + 2 or c["start"] + len(c["rows"]) - 1 > T_UHI - 2):
                    out = True
                    if c["start"] < T_ULO - 60 or c["start"] + len(c["rows"]) - 1 > T_UHI + 60:
                        # the driver's own parameters keep every series within a few dozen periods of the window: this is no edge effect
                        trace["steps"] = tuple(steps)
                        return trace, "after step %d %s the series %s[%s] (frequency %s) lies %d periods from the base period, where no operation of this history can have put it" % (
                            len(steps), _plain(op), hh, n, it["f"], c["start"])
        if out:
            # the history has reached the edge of the window the specification is instantiated with: it ends before this step
            steps.pop()
            break
    trace["steps"] = tuple(steps)
    return trace, None


def rerecord_databox_trace(sc, tmpdir):
    """Rebuild the databoxes of a stored history and drive the real code through its operations again (for --replay)."""
    from .C10 import _unplain
    st = TState(sc["scale"])
    heap = [_unplain(it) for it in sc["heap"]]
    box = _unplain(sc["box"])
    objs = {}
    for i, it in enumerate(heap, 1):
        if it["kind"] == "num":
            objs[i] = list(it["v"]) if isinstance(it["v"], tuple) else it["v"] / st.scale
        else:
            w = world(it["f"])
            c = it["c"]
            if is_mv(c["start"]):
                x = ir.Series(num_variants=c["nv"])
            else:
                rows = np.array([[math.nan if is_mv(v) else ((math.inf if v > 0 else -math.inf) if abs(v) == INF_SENTINEL else v / st.scale) for v in row] for row in c["rows"]], dtype=float)
                x = ir.Series(num_variants=c["nv"], start=w.per(c["start"]), values=rows)
            if it["desc"]:
                x.set_description(it["desc"])
            objs[i] = x
            st.number(x, it["f"])
    for h in T_HANDLES:
        st.boxes[h] = ir.Databox()
        for n, oid in (box[h].items() if box[h] else ()):
            st.boxes[h][n] = objs[oid]
    obs0, problem = _observe(st)
    trace = {"scale": st.scale, "heap": tuple(heap), "box": box, "obs0": obs0, "steps": ()}
    steps = []
    for (op, h, g, k) in sc["ops"]:
        op = _unplain(op)
        raised = False
        try:
            _apply_traced(st, op, h, g, k, tmpdir, len(steps))
        except MachineryError:
            raise
        except Exception as ex:
            raised = repr(ex)[:300]
        obs, problem = _observe(st) if not raised else (steps[-1]["obs"] if steps else obs0, None)
        steps.append({"op": op[:6] if op[0] == "csv" else op[:7] if op[0] == "slate" else op, "h": h, "g": g, "k": k, "raised": bool(raised), "obs": obs, "note": raised or "", "full": op})
        if problem or raised:
            break
    trace["steps"] = tuple(steps)
    return trace, problem


def _tla_trace(t):
    """Strip the fields that are only for reports."""
    return {"scale": t["scale"], "heap": t["heap"], "box": t["box"], "obs0": t["obs0"],
            "steps": tuple({k: v for k, v in s.items() if k not in ("note", "full")} for s in t["steps"])}


def trace_direction(chk, ntraces, nsteps):
    import random
    from .. import tracecheck
    rnd = random.Random(chk.seed * 104729 + 19)
    tmpdir = chk.scratch.sub("tcsv")
    traces = []
    for i in range(ntraces):
        t, problem = record_databox_trace(rnd, nsteps, tmpdir, 100 if i % 2 else 1)
        if problem:
            chk.mismatch("databox-trace:value", "recorded databox history: %s; operations %s" % (problem, [_plain(s["full"]) for s in t["steps"]]),
                         {"kind": "databox-trace", "trace": _plain(_tla_trace(t))})
            continue
        traces.append(t)
    validate_databox_traces(chk, traces, selftest=True)


def validate_databox_traces(chk, traces, selftest):
    import copy
    from .. import tracecheck
    defs = {"TULo": str(T_ULO), "TUHi": str(T_UHI), "THandles": tlaval.to_tla(set(T_HANDLES))}
    lit = [_tla_trace(t) for t in traces]
    rejected, _, r = tracecheck.validate_literal_parallel("TraceDatabox", "TraceDatabox.cfg", "Databox", defs, lit, chk.scratch, chunks=12, timeout=3600)
    nsteps_total = sum(len(t["steps"]) for t in traces)
    chk.tlc_runs.append({"run": "TraceDatabox (recorded histories)", "generated": r.generated, "distinct": r.distinct, "traces": len(traces),
                         "steps": nsteps_total, "wall_s": round(r.wall, 1)})
    chk.states += r.distinct
    chk.transitions += r.generated
    opcount = {}
    for t in traces:
        for s in t["steps"]:
            opcount[s["op"][0]] = opcount.get(s["op"][0], 0) + 1
    diag = {}
    if rejected:      # second pass over the rejected traces: what does the action of the logged operation yield?
        idx = sorted(rejected)
        _, d2, _ = tracecheck.validate_literal("TraceDatabox", "TraceDataboxDiag.cfg", "Databox", defs, [lit[i] for i in idx], chk.scratch, timeout=1800, tag="diag")
        for x in d2:
            if isinstance(x, tuple) and len(x) > 3 and isinstance(x[1], int):
                diag.setdefault((idx[x[1] - 1], x[2]), x)
    not_enabled = 0
    for i, line in sorted(rejected.items()):
        t = traces[i]
        st = t["steps"][line - 1] if 0 < line <= len(t["steps"]) else None
        if st is not None and not st["raised"] and (i, line) not in diag:
            not_enabled += 1          # the driver left the enabling conditions of Databox.tla (unspecified behaviour): no claim about the rest
            continue
        if st is None:
            what = "recorded databox history: the initial databoxes are not what was built (%s)" % (_plain(t["obs0"]),)
            fp = "databox-trace:init"
        else:
            what = ("recorded databox history is not a behaviour of Databox.tla: step %d %s (receiver %s, other %s, target %s)%s; observed afterwards %s; "
                    "the action yields boxes %s over heap %s; operations so far %s; initial boxes %s over heap %s (values in units of 1/%d)" % (
                        line, _plain(st["full"]), st["h"], st["g"], st["k"], " raised " + st["note"] if st["raised"] else "", _plain(st["obs"]),
                        _plain(diag[(i, line)][3]) if (i, line) in diag else "?", _plain(diag[(i, line)][4]) if (i, line) in diag else "?",
                        [_plain(s["full"]) for s in t["steps"][:line - 1]], _plain(t["box"]), _plain(t["heap"]), t["scale"]))
            fp = "databox-trace:%s%s" % (st["op"][0], ":raised" if st["raised"] else "")
        chk.mismatch(fp, what, {"kind": "databox-trace", "scale": t["scale"], "heap": _plain(t["heap"]), "box": _plain(t["box"]),
                                "ops": [[_plain(s["full"]), s["h"], s["g"], s["k"]] for s in t["steps"]], "line": line})
    if selftest:
        corrupted, expect = [], []
        for i, t in enumerate(lit):
            if i in rejected or len(t["steps"]) < 4:
                continue
            j = len(t["steps"]) // 2
            obs = t["steps"][j]["obs"]
            cell = next(((h, n) for h in T_HANDLES for n in (obs[h] or {}) if obs[h][n]["kind"] == "ser" and not is_mv(obs[h][n]["c"]["start"])), None)
            if cell is None:
                continue
            c = copy.deepcopy(t)
            it = c["steps"][j]["obs"][cell[0]][cell[1]]
            if len(corrupted) % 2 == 0:
                rows = [list(rw) for rw in it["c"]["rows"]]
                rows[0][0] = 7777 if is_mv(rows[0][0]) else rows[0][0] + 1000
                it["c"]["rows"] = tuple(tuple(rw) for rw in rows)
            else:
                it["desc"] = it["desc"] + "?"
            corrupted.append(c)
            expect.append(j + 1)
            if len(corrupted) >= 4:
                break
        if corrupted:
            rej2, _, _ = tracecheck.validate_literal("TraceDatabox", "TraceDatabox.cfg", "Databox", defs, corrupted, chk.scratch, timeout=1800, tag="corrupt")
            got = [rej2.get(i) for i in range(len(corrupted))]
            if got != expect:
                raise MachineryError("TraceDatabox: corrupted histories were rejected at lines %s, expected %s (trace validation does not bind)" % (got, expect))
            chk.notes["corrupted_histories_rejected"] = len(corrupted)
    if not_enabled > max(3, len(traces) // 5):
        raise MachineryError("TraceDatabox: %d of %d histories left the enabling conditions of Databox.tla (driver out of sync with the spec)" % (not_enabled, len(traces)))
    chk.notes["recorded_histories_truncated_not_enabled"] = not_enabled
    chk.traces += len(traces) - not_enabled
    chk.notes["recorded_histories_validated_by_tlc"] = len(traces) - not_enabled
    chk.notes["recorded_steps"] = nsteps_total
    chk.notes["recorded_operations"] = opcount


def run(chk):
    thorough = chk.tier == "thorough"
    simdir = chk.scratch.sub("sim")
    tmpdir = chk.scratch.sub("csv")
    per_worker = 90 if thorough else 16
    r = tlc.run("DataboxHist", "DataboxHist.cfg", chk.scratch, workers=16, simulate="file=%s/tr,num=%d" % (simdir, per_worker),
                depth=9, seed=chk.seed % 10**6, timeout=3600)
    if r.violated or r.error:
        raise MachineryError("DataboxHist simulation failed:\n" + r.out[-2500:])
    files = sorted(glob.glob(simdir + "/tr_*"))
    if len(files) < per_worker * 8:
        raise MachineryError("DataboxHist simulation produced only %d behaviours" % len(files))
    import re
    m = re.search(r"The number of states generated: (\d+)", r.out)
    gen = int(m.group(1)) if m else len(files) * 9
    chk.states += gen
    chk.transitions += gen
    chk.tlc_runs.append({"run": "DataboxHist/simulate (frame conditions checked as action properties on every step)", "generated": gen,
                         "behaviours": len(files), "wall_s": round(r.wall, 1)})
    opcount = {}
    for i, fn in enumerate(files):
        states = tlaval.parse_sim_file(fn)
        for s in states[1:]:
            opcount[s["last"]["op"][0]] = opcount.get(s["last"]["op"][0], 0) + 1
        check_history(chk, states, tmpdir)
        if i == 3:
            chk.sample({"databox_history": [_plain(s["last"]["op"]) + [s["last"]["h"], s["last"]["g"], s["last"]["k"]] for s in states[1:]],
                        "final_boxes": _plain(states[-1]["box"])})
    missing = {"keep", "remove", "rename", "copy", "shallow", "merge", "overlay", "underlay", "clip", "prepend", "csv", "slate"} - set(opcount)
    if missing:
        raise MachineryError("DataboxHist: operations never exercised: %s" % sorted(missing))
    chk.replayed += len(files)
    chk.notes["operations_replayed"] = opcount
    trace_direction(chk, 1200 if thorough else 200, 12)
    chk.rule = ("simulated behaviours of DataboxHist (depth 9, three handles, items of quarterly/monthly/integer frequency, an empty series, a number, "
                "descriptions; keep/remove/rename/copy/shallow/merge/overlay/underlay/clip/prepend/CSV round trip/dataslate round trip with list, "
                "predicate and renaming-function selections incl. absent names); a case is one behaviour; all handles compared after every step")
    chk.assumptions = ["rename onto an existing name and overlay of an object onto itself are not specified and are not generated",
                       "CSV values are small integers (no rounding involved); only series items are exported"]


def replay(chk, s):
    if s.get("kind") == "databox-trace":
        t, problem = rerecord_databox_trace(s, chk.scratch.sub("tcsv"))
        if problem:
            chk.mismatch("databox-trace:value", "recorded databox history: %s" % problem, s)
        else:
            validate_databox_traces(chk, [t], selftest=False)
        return
    raise MachineryError("databox histories are regenerated deterministically from the seed: re-run ./check C19 with the same VERIF_SEED")
