"""Batch validation of traces recorded from irispie against a Trace*.tla specification (one TLC run per file)."""
import json, os, re
from . import tlc
from .common import MachineryError


def validate(module, cfg, traces, scratch, *, timeout=3600, tag="tr"):
    """traces: list of JSON-able dicts (one per trace). Returns (set of rejected 0-based indices -> furthest line, TlcResult)."""
    path = scratch.file("%s_%s.ndjson" % (module, tag))
    with open(path, "w") as f:
        for t in traces:
            f.write(json.dumps(t, separators=(",", ":")) + "\n")
    r = tlc.run(module, cfg, scratch, workers=1, env={"TRACE_FILE": path}, timeout=timeout)
    os.remove(path)
    if r.error and "REJECT" not in r.out:
        raise MachineryError("%s: TLC failed\n%s" % (module, r.error))
    if r.violated and r.violated != "Deadlock":
        raise MachineryError("%s: invariant %s violated while validating traces\n%s" % (module, r.violated, r.out[-1500:]))
    rejected = {}
    for m in re.finditer(r'<<"REJECT", (\d+), (\d+)>>', r.out):
        rejected[int(m.group(1)) - 1] = int(m.group(2))
    if not rejected and r.exit != 0:
        raise MachineryError("%s: TLC exit %s without REJECT lines\n%s" % (module, r.exit, r.out[-1500:]))
    return rejected, r


def validate_literal(module, cfg, base, defs, traces, scratch, *, timeout=3600, tag="run"):
    """Code -> spec validation with the traces passed as a TLA+ literal: the module `<module>Data` is generated in a scratch directory
    (EXTENDS `base` for the model values, defines TraceDataDef plus the constants in `defs`: name -> TLA+ text) and found by
    /verif/spec/<module>.tla through the TLA-Library path. Returns (rejected: 0-based trace index -> furthest line, diagnostics: list of
    parsed PrintT tuples, TlcResult)."""
    from . import tlaval
    d = scratch.sub("lit_%s_%s" % (module, tag))
    with open(os.path.join(d, module + "Data.tla"), "w") as f:
        f.write("---- MODULE %sData ----\nEXTENDS %s\n" % (module, base))
        for k, v in defs.items():
            f.write("%s == %s\n" % (k, v))
        f.write("TraceDataDef == <<\n" + ",\n".join(tlaval.to_tla(t) for t in traces) + "\n>>\n====\n")
    r = tlc.run(module, cfg, scratch, workers=1, timeout=timeout, library=d)
    if r.error and "REJECT" not in r.out:
        raise MachineryError("%s: TLC failed\n%s" % (module, r.error))
    if r.violated and r.violated != "Deadlock":
        raise MachineryError("%s: invariant %s violated while validating traces\n%s" % (module, r.violated, r.out[-1500:]))
    rejected = {}
    for m in re.finditer(r'<<"REJECT", (\d+), (\d+)>>', r.out):
        rejected[int(m.group(1)) - 1] = int(m.group(2))
    if not rejected and r.exit != 0:
        raise MachineryError("%s: TLC exit %s without REJECT lines\n%s" % (module, r.exit, r.out[-1500:]))
    diags = []
    for m in re.finditer(r'^<<\s*"(MISMATCH|NOTENABLED)".*(?:\n[ \t]+.*)*', r.out, flags=re.M):
        txt = m.group(0).strip()
        try:
            diags.append(tlaval.parse(txt))
        except Exception:
            diags.append((m.group(1), txt))
    return rejected, diags, r


def validate_literal_parallel(module, cfg, base, defs, traces, scratch, *, chunks=8, timeout=3600, tag="run"):
    """validate_literal over `chunks` TLC processes (the TLCSet registers need one worker per process). Indices are those of `traces`."""
    from concurrent.futures import ThreadPoolExecutor
    n = max(1, min(chunks, len(traces)))
    parts = [list(range(i, len(traces), n)) for i in range(n)]
    def one(k):
        return validate_literal(module, cfg, base, defs, [traces[i] for i in parts[k]], scratch, timeout=timeout, tag="%s%d" % (tag, k))
    with ThreadPoolExecutor(n) as ex:
        results = list(ex.map(one, range(n)))
    rejected, diags, runs = {}, [], []
    for k, (rej, dg, r) in enumerate(results):
        for i, line in rej.items():
            rejected[parts[k][i]] = line
        for x in dg:
            if isinstance(x, tuple) and len(x) > 2 and isinstance(x[1], int):
                x = (x[0], parts[k][x[1] - 1] + 1) + tuple(x[2:])
            diags.append(x)
        runs.append(r)
    total = tlc.TlcResult()
    total.generated, total.distinct, total.wall = sum(r.generated for r in runs), sum(r.distinct for r in runs), max(r.wall for r in runs)
    return rejected, diags, total
