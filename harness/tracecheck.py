"""Batch validation of traces recorded from irispie against a Trace*.tla specification (one TLC run per file)."""
import json, os, re
from . import tlc
from .common import MachineryError


def validate(module, cfg, traces, scratch, *, timeout=3600, tag="tr"):
    """traces: list of JSON-able dicts (one per trace). Returns (set of rejected 0-based indices -> furthest line, TlcResult)."""
    path = scratch.file("%s_%s.ndjson" % (module, tag))
    with open(path, "w") as f:
        for t in traces:
            f.write(json.dumps(t, separators=(",", ":")) + "\n")
    r = tlc.run(module, cfg, scratch, workers=1, env={"TRACE_FILE": path}, timeout=timeout)
    os.remove(path)
    if r.error and "REJECT" not in r.out:
        raise MachineryError("%s: TLC failed\n%s" % (module, r.error))
    if r.violated and r.violated != "Deadlock":
        raise MachineryError("%s: invariant %s violated while validating traces\n%s" % (module, r.violated, r.out[-1500:]))
    rejected = {}
    for m in re.finditer(r'<<"REJECT", (\d+), (\d+)>>', r.out):
        rejected[int(m.group(1)) - 1] = int(m.group(2))
    if not rejected and r.exit != 0:
        raise MachineryError("%s: TLC exit %s without REJECT lines\n%s" % (module, r.exit, r.out[-1500:]))
    return rejected, r
