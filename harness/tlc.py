"""Run TLC on a module of /verif/spec and parse what it reports."""
import os, re, subprocess, time, shutil
from .common import SPEC, MachineryError

JAR = "/opt/veriftools/tla/tla2tools.jar:/opt/veriftools/tla/CommunityModules-deps.jar"


class TlcResult:
    def __init__(self):
        self.exit = None
        self.out = ""
        self.generated = 0
        self.distinct = 0
        self.depth = 0
        self.violated = None      # name of violated invariant / property, if any
        self.error = None         # evaluation / parse error text, if any
        self.coverage = {}        # action name -> (distinct, total)
        self.wall = 0.0
        self.cmd = ""

    @property
    def ok(self):
        return self.exit == 0 and self.violated is None and self.error is None


def run(module, cfg, scratch, *, workers=16, dump=None, simulate=None, depth=None, seed=None,
        env=None, timeout=1800, coverage=False, deadlock=True, extra=(), dfs=False, heap="6g"):
    """Run `tlc module.tla -config cfg` with cwd=/verif/spec.

    dump: path of a state dump to write (TLA+ text); simulate: "file=...,num=N" or "num=N".
    Returns TlcResult; raises MachineryError if TLC could not run the model at all.
    """
    meta = scratch.sub("meta_%s_%d" % (module, int(time.time() * 1000) % 10**9))
    cmd = ["java", "-XX:+UseParallelGC", "-Xmx" + heap, "-Dtlc2.TLC.ide=verif"]
    if dfs:
        cmd.append("-Dtlc2.tool.queue.IStateQueue=StateDeque")
    cmd += ["-cp", JAR, "tlc2.TLC", "-workers", str(workers), "-metadir", meta, "-noGenerateSpecTE",
            "-config", cfg]
    if not deadlock:
        cmd.append("-deadlock")
    if coverage:
        cmd += ["-coverage", "1"]
    if dump:
        cmd += ["-dump", dump]
    if simulate:
        cmd += ["-simulate", simulate]
    if depth is not None:
        cmd += ["-depth", str(depth)]
    if seed is not None:
        cmd += ["-seed", str(seed)]
    cmd += list(extra)
    cmd.append(module + ".tla")
    e = dict(os.environ)
    e.pop("JAVA_TOOL_OPTIONS", None)
    if env:
        e.update(env)
    r = TlcResult()
    r.cmd = " ".join(cmd)
    t0 = time.time()
    try:
        p = subprocess.run(cmd, cwd=SPEC, env=e, stdout=subprocess.PIPE, stderr=subprocess.STDOUT,
                           timeout=timeout, text=True, errors="replace")
        r.exit, r.out = p.returncode, p.stdout
    except subprocess.TimeoutExpired as ex:
        subprocess.run(["pkill", "-f", meta], check=False)
        r.exit = -9
        r.out = (ex.stdout or b"").decode("utf8", "replace") if isinstance(ex.stdout, bytes) else (ex.stdout or "")
        if simulate is None:
            raise MachineryError("TLC timed out after %ss: %s" % (timeout, r.cmd))
    r.wall = time.time() - t0
    shutil.rmtree(meta, ignore_errors=True)
    _parse(r)
    return r


def _parse(r):
    out = r.out
    m = None
    for m in re.finditer(r"(\d+) states generated, (\d+) distinct states found", out):
        pass
    if m:
        r.generated, r.distinct = int(m.group(1)), int(m.group(2))
    m = re.search(r"The depth of the complete state graph search is (\d+)", out)
    if m:
        r.depth = int(m.group(1))
    m = re.search(r"Error: Invariant (\S+) is violated", out)
    if m:
        r.violated = m.group(1)
    m2 = re.search(r"Error: Action property (\S+) is violated|Error: Temporal properties were violated", out)
    if m2 and not r.violated:
        r.violated = m2.group(1) or "temporal"
    if "Error: Deadlock reached" in out and not r.violated:
        r.violated = "Deadlock"
    if r.violated is None and "Error:" in out:
        i = out.index("Error:")
        r.error = out[i:i + 1500]
    # coverage lines:  <Action line 12, col 1 to line 14, col 30 of module M>: 12:345
    for m in re.finditer(r"<(\w+) line \d+, col \d+ to line \d+, col \d+ of module \w+>: (\d+):(\d+)", out):
        name, d, t = m.group(1), int(m.group(2)), int(m.group(3))
        a, b = r.coverage.get(name, (0, 0))
        r.coverage[name] = (a + d, b + t)


def must_pass(r, what):
    """A spec-level failure is a machinery error (the spec is wrong), never a VIOLATION of the code."""
    if r.violated:
        raise MachineryError("%s: spec invariant %s violated in TLC run\n%s" % (what, r.violated, r.out[-3000:]))
    if r.error or r.exit != 0:
        raise MachineryError("%s: TLC failed (exit %s)\n%s" % (what, r.exit, (r.error or r.out[-3000:])))
    return r
