"""Check driver: collects spec statistics, replay counts and mismatches; applies the known-findings
file; prints VIOLATION / KNOWN-FINDING lines; writes the evidence file; decides the exit code."""
import sys, time, json, traceback, os
from . import evidence, findings
from .common import seed, save_replay, Scratch, MachineryError


class Check:
    def __init__(self, pid, tier):
        self.pid, self.tier, self.seed = pid, tier, seed()
        self.t0 = time.time()
        self.scratch = Scratch(pid)
        self.states = 0
        self.transitions = 0
        self.replayed = 0          # behaviours / scenarios replayed against the implementation
        self.traces = 0            # traces recorded from the implementation and validated by TLC
        self.samples = []
        self.mismatches = []       # dicts: fingerprint, what, payload
        self.notes = {}
        self.exhaustive = False
        self.rule = ""
        self.assumptions = []
        self.tlc_runs = []
        self.no_claim = 0

    # --- accumulation -------------------------------------------------------------------------
    def add_tlc(self, r, label):
        self.states += r.distinct
        self.transitions += r.generated
        self.tlc_runs.append({"run": label, "generated": r.generated, "distinct": r.distinct,
                              "wall_s": round(r.wall, 1),
                              "coverage": {k: v[1] for k, v in sorted(r.coverage.items())} or None})

    def sample(self, s):
        if len(self.samples) < 6:
            self.samples.append(s)

    def mismatch(self, fingerprint, what, payload):
        """Implementation left the behaviours allowed by the spec. `fingerprint` identifies the failing
        input/call site for the known-findings file; `payload` is what --replay needs."""
        self.mismatches.append({"fingerprint": fingerprint, "what": what, "payload": payload})

    # --- verdict ------------------------------------------------------------------------------
    def finish(self):
        known = findings.load(self.pid)
        seen_known, fresh = {}, []
        for m in self.mismatches:
            if m["fingerprint"] in known:
                seen_known.setdefault(m["fingerprint"], m)
            else:
                fresh.append(m)
        for fp, m in sorted(seen_known.items()):
            print("KNOWN-FINDING: property=%s %s [%s]" % (self.pid, known[fp].get("what", m["what"]), fp))
        reported = {}
        counts = {}
        for m in fresh:
            reported.setdefault(m["fingerprint"], m)
            counts[m["fingerprint"]] = counts.get(m["fingerprint"], 0) + 1
        if os.environ.get("VERIF_DEBUG"):
            for fp, m in reported.items():
                print("DEBUG %5d  %s  | %s" % (counts[fp], fp, m["what"][:260]))
        for fp, m in list(reported.items())[:10]:
            path = save_replay(self.pid, {"property": self.pid, "fingerprint": fp, "what": m["what"],
                                          "scenario": m["payload"]})
            print("VIOLATION property=%s replay=%s" % (self.pid, path))
            print("  what: %s" % m["what"][:600])
        wall = time.time() - self.t0
        extra = {"tlc_runs": self.tlc_runs, "behaviours_replayed_into_impl": self.replayed,
                 "impl_traces_checked_by_tlc": self.traces, "known_findings_seen": sorted(seen_known),
                 "no_claim_scenarios": self.no_claim}
        extra.update(self.notes)
        evidence.write(self.pid, self.tier, self.seed, states=max(self.states, 0), transitions=self.transitions,
                       traces=self.replayed + self.traces, samples=self.samples, wall=wall,
                       violations=len(reported), exhaustive=self.exhaustive, rule=self.rule,
                       assumptions=self.assumptions, extra=extra)
        print("%s tier=%s seed=%d spec_states=%d replayed=%d traces=%d known=%d violations=%d wall=%.1fs" % (
            self.pid, self.tier, self.seed, self.states, self.replayed, self.traces, len(seen_known),
            len(reported), wall))
        return 1 if reported else 0


def main(argv):
    import argparse, importlib, os
    ap = argparse.ArgumentParser()
    ap.add_argument("pid")
    ap.add_argument("--tier", default=os.environ.get("VERIF_TIER", "quick"), choices=["quick", "thorough"])
    ap.add_argument("--replay", default=None)
    a = ap.parse_args(argv)
    os.environ.setdefault("PYTHONHASHSEED", "0")
    os.environ["IRISPIE_VERIF"] = "1"
    try:
        mod = importlib.import_module("harness.props." + a.pid)
    except ModuleNotFoundError as ex:
        print("no check for %s: %s" % (a.pid, ex))
        return 2
    chk = Check(a.pid, a.tier)
    try:
        if a.replay:
            with open(a.replay) as f:
                doc = json.load(f)
            try:
                mod.replay(chk, doc["scenario"])
            except MachineryError as ex:
                if "re-run" not in str(ex):
                    raise
                # scenario sets are regenerated deterministically by TLC: run the check again (same tier as recorded is the caller's business)
                # and keep only the mismatches with the fingerprint of the replayed violation
                mod.run(chk)
                chk.mismatches = [m for m in chk.mismatches if m["fingerprint"] == doc.get("fingerprint")]
                chk.notes["replayed_fingerprint"] = doc.get("fingerprint")
        else:
            mod.run(chk)
        return chk.finish()
    except MachineryError as ex:
        # a guard of the machinery (typically: a scenario family produced no comparable case) tripped AFTER mismatches with the implementation
        # had been observed: those observations are genuine and are what to report - the guard is most likely their consequence
        known = findings.load(a.pid)
        if any(m["fingerprint"] not in known for m in chk.mismatches):
            print("NOTE %s: the run was cut short by a machinery guard (%s); the violations observed before it are reported" % (a.pid, str(ex)[:300]))
            chk.notes["cut_short_by_machinery_guard"] = str(ex)[:300]
            return chk.finish()
        print("MACHINERY-FAILURE %s: %s" % (a.pid, ex))
        return 2
    except Exception:
        traceback.print_exc()
        print("MACHINERY-FAILURE %s: unexpected exception in the harness" % a.pid)
        return 2
    finally:
        chk.scratch.cleanup()
