"""Replay of a TLC state dump over several processes (each streams the dump and takes the blocks of its shard)."""
import multiprocessing
from . import tlaval

_JOB = {}


def _tramp(i):
    j = _JOB
    return j["worker"](tlaval.iter_dump(j["path"], j["want"], shard=(i, j["n"])), i)


def map_dump(path, want, worker, nproc=14):
    """worker(state_iterator, shard_index) -> picklable result. Closures are fine: the pool is forked after the job is stored."""
    _JOB.update(path=path, want=want, worker=worker, n=nproc)
    ctx = multiprocessing.get_context("fork")
    with ctx.Pool(nproc) as pool:
        return pool.map(_tramp, range(nproc))
