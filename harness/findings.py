"""Known-findings matching. The file is committed and never written at run time."""
import json, os
from .common import VERIF

_PATH = os.path.join(VERIF, "known_findings.json")


def load(pid):
    try:
        with open(_PATH) as f:
            doc = json.load(f)
    except FileNotFoundError:
        return {}
    return {e["fingerprint"]: e for e in doc.get("findings", []) if e.get("property") == pid}
