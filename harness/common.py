"""Shared paths, scratch-directory handling and small utilities for the checks."""
import os, sys, shutil, tempfile, time, json, atexit

VERIF = os.path.dirname(os.path.dirname(os.path.abspath(__file__)))
SPEC = os.path.join(VERIF, "spec")
WORK = os.path.join(VERIF, ".work")
EVIDENCE = os.path.join(VERIF, "evidence")
REPLAYS = os.path.join(VERIF, ".work", "replays")
REPO = os.environ.get("VERIF_REPO", "/repo")
GUARD = "IRISPIE_VERIF"


def seed():
    try:
        return int(os.environ.get("VERIF_SEED", "20260925"))
    except ValueError:
        return 20260925


class Scratch:
    """Per-run scratch directory under /verif/.work, removed at exit."""

    def __init__(self, tag):
        os.makedirs(WORK, exist_ok=True)
        self.path = tempfile.mkdtemp(prefix=tag + "_", dir=WORK)
        atexit.register(self.cleanup)

    def sub(self, name):
        p = os.path.join(self.path, name)
        os.makedirs(p, exist_ok=True)
        return p

    def file(self, name):
        return os.path.join(self.path, name)

    def cleanup(self):
        shutil.rmtree(self.path, ignore_errors=True)


def save_replay(pid, payload):
    """Persist a failing scenario/history so that `./check Cxx --replay <path>` can re-run it."""
    os.makedirs(REPLAYS, exist_ok=True)
    path = os.path.join(REPLAYS, "%s_%d_%d.json" % (pid, int(time.time()), os.getpid()))
    n = 0
    while os.path.exists(path):
        n += 1
        path = path[:-5] + "_%d.json" % n
    with open(path, "w") as f:
        json.dump(payload, f, indent=1, default=str)
    return path


class MachineryError(Exception):
    """Something in the verification machinery itself failed (exit 2, never a VIOLATION)."""
