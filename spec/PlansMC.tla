------------------------------ MODULE PlansMC ------------------------------
(***************************************************************************)
(* Simulation plans on top of LinearRE (plans/simulation_plans.py,         *)
(* fords/simulators.py: _simulate_conditional).                            *)
(*                                                                         *)
(* A scenario takes an ordinary simulation (base scenario) and a set of    *)
(* pairs <<target variable, target date, instrument shock, instrument      *)
(* date>> in anticipated or unanticipated mode.  The targets are the       *)
(* values of the ordinary simulation; the instruments enter the planned    *)
(* simulation with a prior input value (0 or 1/2) instead of their true    *)
(* value.  The spec solves for the instrument values that hit the targets  *)
(* (exact impact matrix by unit perturbations, Cramer for <= 2 pairs) and  *)
(* TLC checks Inv_SwapRecovers: they are the original shocks, so the whole *)
(* path is the original one.  Singular impact matrices are excluded.       *)
(***************************************************************************)
EXTENDS LinearREMC, FiniteSets

\* full path of a scenario-like record s (fields id, dev, init, u, a as explicit profiles up/ap)
RECURSIVE PathFn(_, _, _, _)
PathFn(s, up, ap, k) == IF k <= 0 THEN InitPath(s)[k]
                        ELSE StepX(s.id, PathFn(s, up, ap, k - 1), up[k], ap, k, s.dev)

SetShock(prof, s, j, v) == [k \in DOMAIN prof |-> IF k = s THEN [i \in 1..Len(prof[k]) |-> IF i = j THEN v ELSE prof[k][i]] ELSE prof[k]]

\* pairs: <<var, target date, shock, instrument date>>
PairSets(id) == LET nv == Len(Model(id).vars) ns == Len(Model(id).shocks) IN
    { {<<1, 2, 1, 2>>}, {<<1, 3, 1, 2>>}, {<<1, 3, 1, 3>>}, {<<1, 2, 1, 3>>}, {<<nv, 3, ns, 1>>}, {<<1, 4, 1, 4>>}, {<<nv, 4, ns, 3>>} }
    \cup (IF nv = 2 /\ ns = 2 THEN { {<<1, 2, 1, 2>>, <<2, 3, 2, 3>>}, {<<1, 3, 1, 1>>, <<2, 2, 2, 2>>},
                                          {<<1, 3, 1, 3>>, <<2, 2, 2, 2>>} }      \* the first shock is the later instrument
                                   ELSE {})
PlanScen == UNION {{[id |-> id, dev |-> dv, init |-> ini, u |-> us, a |-> as, mode |-> md, pairs |-> ps, prior |-> pr] :
                      dv \in BOOLEAN, ini \in {x \in InitDevs(id) : x[1][1] # RZero}, us \in UProfiles(id),
                      as \in {x \in AProfiles(id) : Cardinality(x) <= 1}, md \in {"ant", "unant"}, ps \in PairSets(id),
                      pr \in {RZero, Q(1, 2)}} : id \in {"L1", "L2", "L3", "L6", "L9"}}
\* In anticipated mode the whole plan is known from period 1; a surprise (unanticipated shock) at or after an instrument date would
\* change the information the plan was computed under, and what "hitting the target" then means is not specified: anticipated plans
\* are combined with anticipated base shocks only, unanticipated plans with any base.
PlanScenOk(s) == IF s.mode = "ant" THEN s.u = {} ELSE s.u # {}

\* the shock profiles of the planned simulation's input: instruments at their prior value
Orig(s, md) == IF md = "ant" THEN Prof(s.id, s.a) ELSE Prof(s.id, s.u)
\* the true instrument values are those of the base scenario plus the number of the shock (so that the instruments are non-zero shocks,
\* and different shocks for different instruments: recovering them in the wrong order shows)
TrueProf(s) == LET RECURSIVE F(_, _)
                   F(prof, S) == IF S = {} THEN prof
                                 ELSE LET p == CHOOSE x \in S : TRUE IN F(SetShock(prof, p[4], p[3], RAdd(prof[p[4]][p[3]], R(p[3]))), S \ {p})
               IN F(Orig(s, s.mode), s.pairs)
PriorProf(s) == LET RECURSIVE F(_, _)
                    F(prof, S) == IF S = {} THEN prof
                                  ELSE LET p == CHOOSE x \in S : TRUE IN F(SetShock(prof, p[4], p[3], s.prior), S \ {p})
                IN F(TrueProf(s), s.pairs)
UOf(s, instr) == IF s.mode = "unant" THEN instr ELSE Prof(s.id, s.u)
AOf(s, instr) == IF s.mode = "ant" THEN instr ELSE Prof(s.id, s.a)
PathWith(s, instr, k) == PathFn(s, UOf(s, instr), AOf(s, instr), k)

PairSeq(S) == LET RECURSIVE F(_)
                  F(T) == IF T = {} THEN <<>> ELSE LET m == CHOOSE x \in T : \A y \in T : x[2] < y[2] \/ (x[2] = y[2] /\ x[1] <= y[1]) IN <<m>> \o F(T \ {m})
              IN F(S)
\* impact of instrument q on target p: difference between unit perturbation and prior
Impact(s, p, q) == LET base == PriorProf(s)
                       pert == SetShock(base, q[4], q[3], RAdd(base[q[4]][q[3]], ROne)) IN
                   RSub(PathWith(s, pert, p[2])[p[1]], PathWith(s, base, p[2])[p[1]])
Gap(s, p) == RSub(PathWith(s, TrueProf(s), p[2])[p[1]], PathWith(s, PriorProf(s), p[2])[p[1]])
Solve1(s, ps) == LET m == Impact(s, ps[1], ps[1]) IN
                 IF m = RZero THEN [ok |-> FALSE] ELSE [ok |-> TRUE, delta |-> <<RDiv(Gap(s, ps[1]), m)>>]
Solve2(s, ps) == LET m11 == Impact(s, ps[1], ps[1]) m12 == Impact(s, ps[1], ps[2])
                     m21 == Impact(s, ps[2], ps[1]) m22 == Impact(s, ps[2], ps[2])
                     det == RSub(RMul(m11, m22), RMul(m12, m21))
                     g1 == Gap(s, ps[1]) g2 == Gap(s, ps[2]) IN
                 IF det = RZero THEN [ok |-> FALSE]
                 ELSE [ok |-> TRUE, delta |-> <<RDiv(RSub(RMul(g1, m22), RMul(m12, g2)), det), RDiv(RSub(RMul(m11, g2), RMul(g1, m21)), det)>>]
SolvePlan(s) == LET ps == PairSeq(s.pairs) IN IF Len(ps) = 1 THEN Solve1(s, ps) ELSE Solve2(s, ps)

PInit == sc \in {s \in PlanScen : PlanScenOk(s)} /\ path = <<>> /\ t = 0 /\ fin = FALSE /\ out = <<>>
PCompute == /\ ~fin /\ fin' = TRUE /\ UNCHANGED <<sc, path, t>>
            /\ \E r \in {SolvePlan(sc)} : \E ps \in {PairSeq(sc.pairs)} : \E tp \in {TrueProf(sc)} : \E pp \in {PriorProf(sc)} :
                 out' = IF ~r.ok THEN [ok |-> FALSE]
                        ELSE [ok |-> TRUE, pairs |-> ps,
                              src |-> Source(Model(sc.id)), linear |-> Model(sc.id).linear, vars |-> Model(sc.id).vars, logv |-> Model(sc.id).logv,
                              shocks |-> Model(sc.id).shocks,
                              \* recovered instrument values = prior + delta; the law says they are the true ones
                              recovered |-> [i \in 1..Len(ps) |-> RAdd(sc.prior, r.delta[i])],
                              truth |-> [i \in 1..Len(ps) |-> tp[ps[i][4]][ps[i][3]]],
                              uin |-> [k \in 1..TN |-> UOf(sc, pp)[k]], ain |-> [k \in 1..TN |-> AOf(sc, pp)[k]],
                              pathx |-> [k \in CNeg1..TN |-> PathWith(sc, tp, k)]]
PNext == PCompute
PSpec == PInit /\ [][PNext]_allvars
\* exogenizing the targets and endogenizing the same shocks recovers the shocks (hence the whole path)
Inv_SwapRecovers == (fin /\ out.ok) => out.recovered = out.truth
\* the planned path still satisfies the structural equations (it is an ordinary simulation of the recovered shocks)
Inv_PlannedPathHolds == (fin /\ out.ok) => \A k \in 1..TN, i \in 1..Len(Model(sc.id).eqs) :
    Residual(sc.id, Model(sc.id).eqs[i], out.pathx, UOf(sc, TrueProf(sc)), AOf(sc, TrueProf(sc)), k, sc.dev) = RZero
=============================================================================
