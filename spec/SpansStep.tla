-------------------------- MODULE SpansStep --------------------------
(* One implementation test per transition of Spans: every (span state, operation) pair within  *)
(* the bounds, with the laws of C09 checked by TLC on every span state.                          *)
EXTENDS Spans

VARIABLES pre, op, post, done
vars == <<pre, op, post, done>>

Ks       == {-2, -1, 1, 2}
Steps    == {-3, -2, -1, 1, 2, 3}
Bounds   == {Abs(n) : n \in -1..5} \cup {<<"start", k>> : k \in -1..1} \cup {<<"end", k>> : k \in -1..1}
SpanStates == {MkSpan(s, e, st) : s \in Bounds, e \in Bounds, st \in Steps}
Ctxs     == {<<0, 4>>, <<2, 3>>, <<3, 1>>}
Ops == {<<"reverse">>, <<"reversed">>, <<"copy">>, <<"resolve_mixed">>}
       \cup {<<o, k>> : o \in {"shift_start", "shift_end", "shift", "add", "radd", "sub"}, k \in Ks}
       \cup {<<o, k>> : o \in {"rstep", "lstep"}, k \in Steps}
       \cup {<<"resolve", c[1], c[2]>> : c \in Ctxs}

Init == pre \in SpanStates /\ op \in Ops /\ post = <<>> /\ done = FALSE
Compute == /\ ~done /\ done' = TRUE
           /\ \E a \in {Apply(pre, op)} :
                post' = [rej |-> a.rej, sp |-> Observe(a.sp), res |-> Observe(a.res),
                         hasres |-> a.res # NoSpan]
           /\ UNCHANGED <<pre, op>>
Next == Compute
Spec == Init /\ [][Next]_vars

\* laws are properties of the span state; evaluate them once per state (for one fixed op)
Once == done /\ op = <<"reverse">>
Inv_Enumerates == Once => Law_Enumerates(pre)
Inv_Reverse    == Once => Law_Reverse(pre)
Inv_Shift      == Once => \A k \in Ks : Law_Shift(pre, k)
Inv_Resolve    == Once => \A c \in Ctxs : Law_Resolve(pre, c[1], c[2])
\* functional operations never change the receiver; in-place ones never return a span
Inv_Frame      == done => LET a == Apply(pre, op) IN
                     /\ (a.res # NoSpan \/ a.rej) => a.sp = pre
                     /\ op[1] \in {"reverse", "shift_start", "shift_end", "shift"} => a.res = NoSpan /\ ~a.rej
=============================================================================
