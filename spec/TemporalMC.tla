-------------------------- MODULE TemporalMC --------------------------
(* Scenario enumerator for Temporal.tla (one behaviour = one scenario + Compute). *)
EXTENDS Temporal

VARIABLES sc, out, done
vars == <<sc, out, done>>
CNeg1 == -1
CNeg2 == -2
CNeg3 == -3
CNeg4 == -4
CNeg12 == -12

\* exponent patterns over periods -3..5 (index 1..9)
ESer1(p)    == Mk(1, [ecl \in U \X (1..1) |-> IF ecl[1] \in CNeg3..5 THEN p[ecl[1] + 4] ELSE NaN])
ESer2(p, q) == Mk(2, [ecl \in U \X (1..2) |-> IF ecl[1] \in CNeg3..5 THEN (IF ecl[2] = 1 THEN p[ecl[1] + 4] ELSE q[ecl[1] + 4]) ELSE NaN])
PatSeq == <<<<0, 1, 2, 1, 3, 2, 0, 1, 1>>, <<2, 2, 0, 4, 1, 0, 3, 3, 2>>,
          <<0, 1, NaN, 1, 3, 2, 0, 1, 1>>, <<1, 0, 2, 1, 3, NaN, 0, 2, 1>>,
          <<NaN, 1, 2, 1, 0, 2, 4, 1, NaN>>, <<1, 3, 0, NaN, NaN, 2, 0, 1, 2>> >>
ESeries == 1..7          \* index of the input series
\* daily annualisation multiplies exponent differences by 365: steps of at most 2 keep 2^(365 j) inside double precision
DailyPat == <<0, 1, 2, 2, 3, 4, NaN, 5, 6>>      \* (and non-decreasing: 100 (2^-365 - 1) is -100 in double precision)
ESer(i) == IF i = 8 THEN ESer1(DailyPat) ELSE IF i <= 6 THEN ESer1(PatSeq[i]) ELSE ESer2(<<0, 1, 2, 1, 3, 2, 0, 1, 1>>, <<1, 0, 2, NaN, 3, 2, 0, 2, 1>>)

Shifts(f) == {<<"k", CNeg1>>, <<"k", CNeg2>>, <<"k", CNeg4>>}
                \cup (IF f = "I" THEN {} ELSE {<<"kw", "soy">>, <<"kw", "eopy">>, <<"kw", "tty">>})
                \cup (IF f \in {"Y", "H", "Q"} THEN {<<"kw", "yoy">>} ELSE {})
ChangeScen == {[kind |-> "change", f |-> f, fn |-> fn, sh |-> sh, E |-> E, form |-> fm] :
                  f \in Freqs, fn \in {"diff", "diff_log", "pct", "roc"}, sh \in Shifts("Q") \cup Shifts("I"), E \in ESeries, fm \in {"method", "func"}}
AChangeScen == {[kind |-> "change", f |-> f, fn |-> fn, sh |-> <<"k", CNeg1>>, E |-> E, form |-> fm] :
                  f \in Freqs \ {"D"}, fn \in {"adiff", "adiff_log", "apct", "aroc"}, E \in ESeries, fm \in {"method", "func"}}
AChangeScenD == {[kind |-> "change", f |-> "D", fn |-> fn, sh |-> <<"k", CNeg1>>, E |-> 8, form |-> fm] :
                  fn \in {"adiff", "adiff_log", "apct", "aroc"}, fm \in {"method", "func"}}
CumScen == {[kind |-> "cum", f |-> f, fn |-> fn, k |-> k, dir |-> d, init |-> i, E |-> E, a |-> ab[1], b |-> ab[2], form |-> fm] :
                  f \in {"Q", "M", "I", "Y"}, fn \in {"diff", "diff_log", "pct", "roc"}, k \in {CNeg1, CNeg2, CNeg3, CNeg4}, d \in {"fwd", "bwd"},
                  i \in {"orig", "default"}, E \in ESeries, ab \in {<<1, 5>>, <<0, 3>>, <<2, 2>>, <<CNeg1, 4>>}, fm \in {"method", "func"}}

Uncanon(c) == IF c.start = None THEN Empty(c.nv)
              ELSE Mk(c.nv, [ucl \in U \X (1..c.nv) |->
                      IF ucl[1] >= c.start /\ ucl[1] < c.start + Len(c.rows) THEN c.rows[ucl[1] - c.start + 1][ucl[2]] ELSE NaN])

\* the documented default initial value of cum_diff_log is the level 0 (not representable as a power of two,
\* and outside the statement, which speaks of the original series as initial condition)
Init == /\ sc \in {s \in ChangeScen : s.sh \in Shifts(s.f)} \cup AChangeScen \cup AChangeScenD
                   \cup {s \in CumScen : ~(s.fn = "diff_log" /\ s.init = "default")}
        /\ out = <<>> /\ done = FALSE
Compute == /\ ~done /\ done' = TRUE /\ UNCHANGED sc
           /\ \E E \in {ESer(sc.E)} :
                IF sc.kind = "change"
                THEN out' = [inp |-> Canon(E), res |-> Canon(Change(sc.f, sc.fn, sc.sh, E)), law |-> TRUE,
                             \* the same change expressed as gross rate, for the conversion helpers
                             roc |-> IF sc.fn \in {"pct", "apct", "aroc"}
                                     THEN Canon(Change(sc.f, "roc", sc.sh, E)) ELSE NoSer,
                             pct |-> IF sc.fn \in {"roc", "apct"} THEN Canon(Change(sc.f, "pct", sc.sh, E)) ELSE NoSer]
                ELSE out' = [inp |-> Canon(E), res |-> Canon(Cum(sc.fn, sc.k, sc.dir, sc.init, E, sc.a, sc.b)),
                             chg |-> Canon(Change(sc.f, sc.fn, <<"k", sc.k>>, E)),
                             law |-> Law_CumInverts(sc.fn, sc.k, sc.dir, E, sc.a, sc.b),
                             roc |-> NoSer, pct |-> NoSer]
Next == Compute
Spec == Init /\ [][Next]_vars
Inv_Law == done => out.law
=============================================================================
