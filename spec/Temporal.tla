---------------------------- MODULE Temporal ----------------------------
(***************************************************************************)
(* Temporal change and cumulation of a Series (series/_temporal.py).       *)
(*                                                                         *)
(* Input data are powers of two, x_t = 2^E[t] (E[t] an exponent or NaN),   *)
(* so that every documented formula has an exact value:                    *)
(*   diff      x_t - x_s                       an integer                  *)
(*   roc       x_t / x_s   = 2^j               <<"p2", j>>                 *)
(*   pct       100 (x_t/x_s - 1)               <<"pct2", j>>               *)
(*   diff_log  log x_t - log x_s = j ln 2      <<"ln2", j>>                *)
(* with j = E[t] - E[s]; annualised variants multiply j (or the difference)*)
(* by the annualisation factor a.  s is the reference period: t + k for a  *)
(* negative integer shift k, or the keyword period (yoy, soy, eopy, tty).  *)
(* Period number 0 is the first segment of a year.                         *)
(***************************************************************************)
EXTENDS Series

Freqs == {"Y", "H", "Q", "M", "D", "I"}
PerYear(f) == CASE f = "Y" -> 1 [] f = "H" -> 2 [] f = "Q" -> 4 [] f = "M" -> 12 [] f = "D" -> 365 [] f = "I" -> 0
AnnFactor(f) == IF f = "I" THEN 1 ELSE PerYear(f)
\* first period of the year of t (period 0 = 1 January 2020 for daily periods: 2019 has 365 days)
Soy(f, t) == IF f = "D" THEN (IF t >= 0 THEN 0 ELSE -365) ELSE t - (t % PerYear(f))

RECURSIVE Pow2(_)
Pow2(e) == IF e = 0 THEN 1 ELSE 2 * Pow2(e - 1)          \* e >= 0

\* reference period of t under a shift; NoRef = start of year under "tty" (neutral value)
CONSTANT NoRef
\* a shift is <<"k", negative integer>> or <<"kw", keyword>>
Ref(f, sh, t) == CASE sh[1] = "k"   -> t + sh[2]
                   [] sh[2] = "yoy"  -> t - PerYear(f)
                   [] sh[2] = "soy"  -> Soy(f, t)
                   [] sh[2] = "eopy" -> Soy(f, t) - 1
                   [] sh[2] = "tty"  -> IF Soy(f, t) = t THEN NoRef ELSE t - 1

Mult(fn) == fn \in {"roc", "pct", "diff_log", "aroc", "apct", "adiff_log"}
Enc(fn, j) == CASE fn \in {"roc", "aroc"} -> <<"p2", j>> [] fn \in {"pct", "apct"} -> <<"pct2", j>>
                [] fn \in {"diff_log", "adiff_log"} -> <<"ln2", j>>

\* E : exponent series (a Series whose values are exponents); result of a change function
ChangeAt(f, fn, sh, E, t, v) ==
    LET et == At(E, t, v)  s == Ref(f, sh, t)
        a == IF fn \in {"adiff", "aroc", "apct", "adiff_log"} THEN AnnFactor(f) ELSE 1 IN
    IF et = NaN THEN NaN
    ELSE IF s = NoRef
         THEN (CASE fn = "diff" -> Pow2(et) [] fn = "roc" -> <<"p2", et>> [] OTHER -> AnyVal)   \* "value unchanged"
    ELSE LET es == At(E, s, v) IN
         IF es = NaN THEN NaN
         ELSE IF Mult(fn) THEN Enc(fn, a * (et - es)) ELSE a * (Pow2(et) - Pow2(es))
Change(f, fn, sh, E) == FromFn(E.nv, LAMBDA t, v : ChangeAt(f, fn, sh, E, t, v))

\* ---- cumulation, in exponent space for the multiplicative families, in levels for diff --------
\* J : the change series in "j" units (exponent differences), or level differences for diff
JAt(fn, k, E, t, v) == LET et == At(E, t, v) es == At(E, t + k, v) IN
                       IF et = NaN \/ es = NaN THEN NaN
                       ELSE IF fn = "diff" THEN Pow2(et) - Pow2(es) ELSE et - es
\* initial condition at t: the original series (levels for diff, exponents otherwise) or the default scalar
InitAt(fn, init, E, t, v) == IF init = "default" THEN 0       \* 0 for diff; exponent 0 = level 1 otherwise
                             ELSE LET et == At(E, t, v) IN
                                  IF et = NaN THEN NaN ELSE IF fn = "diff" THEN Pow2(et) ELSE et

RECURSIVE CumFwd(_, _, _, _, _, _, _, _)
CumFwd(fn, k, init, E, a, b, t, v) ==        \* forward over a..b: y_t = y_{t+k} (+) c_t
    IF t < a + k \/ t > b THEN NaN
    ELSE IF t < a THEN InitAt(fn, init, E, t, v)
    ELSE N2(AddF, CumFwd(fn, k, init, E, a, b, t + k, v), JAt(fn, k, E, t, v))
RECURSIVE CumBwd(_, _, _, _, _, _, _, _)
CumBwd(fn, k, init, E, a, b, t, v) ==        \* backward over b..a: y_t = y_{t-k} (-) c_{t-k}
    IF t < a \/ t > b - k THEN NaN
    ELSE IF t > b THEN InitAt(fn, init, E, t, v)
    ELSE N2(SubF, CumBwd(fn, k, init, E, a, b, t - k, v), JAt(fn, k, E, t - k, v))
EncCum(fn, y) == IF y = NaN THEN NaN ELSE IF fn = "diff" THEN y ELSE <<"p2", y>>
Cum(fn, k, dir, init, E, a, b) ==
    FromFn(E.nv, LAMBDA t, v : EncCum(fn, IF dir = "fwd" THEN CumFwd(fn, k, init, E, a, b, t, v)
                                          ELSE CumBwd(fn, k, init, E, a, b, t, v)))

\* the law of C13: cumulating the change with the original as initial condition gives the original back
Law_CumInverts(fn, k, dir, E, a, b) ==
    LET Y == Cum(fn, k, dir, "orig", E, a, b)
        lo == IF dir = "fwd" THEN a + k ELSE a
        hi == IF dir = "fwd" THEN b ELSE b - k IN
    (\A t \in lo..hi, v \in Vs(E) : At(E, t, v) # NaN) =>
        \A t \in lo..hi, v \in Vs(E) : At(Y, t, v) = EncCum(fn, IF fn = "diff" THEN Pow2(At(E, t, v)) ELSE At(E, t, v))
=============================================================================
