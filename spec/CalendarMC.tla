-------------------------- MODULE CalendarMC --------------------------
(***************************************************************************)
(* Scenario enumerator over Calendar.tla: one behaviour = choose a period, *)
(* then Compute everything the property talks about for it.  TLC checks    *)
(* the laws of C09 (order, arithmetic, tiling, accessors, keyword shifts)  *)
(* and C11 (round trips, containment, monotonicity) on the specification;  *)
(* the dump of the computed states is replayed through irispie.            *)
(***************************************************************************)
EXTENDS Calendar

CONSTANTS Years,        \* years whose regular periods are enumerated
          DayYears,     \* years whose days are enumerated
          IntSerials,   \* integer-frequency serials
          Offsets       \* integer offsets k for p + k

\* constant sets for the configurations (the cfg syntax has no negative literals)
QYears      == {2, 3, 1899, 1900, 1901, 1999, 2000, 2001, 2019, 2020, 2021, 2023, 2024, 2099, 2100, 2101, 9997, 9998}
QDayYears   == {3, 1900, 2000, 2020, 2023, 2100, 9997}
TYears      == (2..12) \cup (1895..2105) \cup (9990..9998)
TDayYears   == {3, 4, 5} \cup (1896..2104) \cup {9995, 9996, 9997}
CIntSerials == {-3, -1, 0, 1, 7, 100}
COffsets    == {-400, -13, -12, -5, -4, -3, -2, -1, 0, 1, 2, 3, 4, 5, 12, 13, 400}

VARIABLES p, out, done, picked
vars == <<p, out, done, picked>>

Kws == {"yoy", "soy", "eopy", "tty"}

RegularPeriods == {FromYS(fs[1], y, fs[2]) :
                      fs \in UNION {{<<f, s>> : s \in 1..PerYear(f)} : f \in RegularFreqs}, y \in Years}
DailyPeriods   == UNION {{Per("D", DaysBeforeYear(y) + s) : s \in 1..YearLen(y)} : y \in DayYears}
IntegerPeriods == {Per("I", n) : n \in IntSerials}
Periods        == RegularPeriods \cup DailyPeriods \cup IntegerPeriods

Finer(f) == CASE f = "Y" -> {"H", "Q", "M", "D"} [] f = "H" -> {"Q", "M", "D"} [] f = "Q" -> {"M", "D"}
              [] f = "M" -> {"D"} [] OTHER -> {}

Triple(r) == <<r.n, YearOf(r), SegOf(r)>>

OutCal(q) ==
    [ n     |-> q.n, year |-> YearOf(q), seg |-> SegOf(q),
      sdmx  |-> Sdmx(q), repr |-> Repr(q), shape |-> SdmxShape(q),
      ymds  |-> StartYmd(q), ymde |-> EndYmd(q),
      ymdm  |-> IF MiddleExact(q) THEN MiddleYmd(q) ELSE <<>>,
      sday  |-> StartDay(q), eday |-> EndDay(q), mlo |-> MiddleLo(q), mhi |-> MiddleHi(q),
      add   |-> [k \in Offsets |-> Triple(Plus(q, k))],
      kw    |-> [w \in Kws |-> LET r == ShiftKw(q, w) IN IF r = None THEN None ELSE r.n],
      rf    |-> [g \in CalendarFreqs |-> [pos \in Positions |->
                    <<Triple(Refreq(q, g, pos)), Triple(RefreqHi(q, g, pos))>>]] ]

OutInt(q) ==
    [ n |-> q.n, sdmx |-> Sdmx(q), repr |-> Repr(q), shape |-> SdmxShape(q),
      add |-> [k \in Offsets |-> Plus(q, k).n] ]

\* The initial states are one seed period per (frequency, year); the period itself is chosen in a second step so that the
\* enumeration is spread over all workers (TLC generates initial states with one thread).
Seeds == {FromYS(f, y, 1) : f \in RegularFreqs, y \in Years} \cup {Per("D", DaysBeforeYear(y) + 1) : y \in DayYears} \cup IntegerPeriods
SameYear(q) == IF q.f = "I" THEN {q}
               ELSE IF q.f = "D" THEN {Per("D", q.n + s) : s \in 0..(YearLen(YearOf(q)) - 1)}
               ELSE {FromYS(q.f, YearOf(q), s) : s \in 1..PerYear(q.f)}
Init == p \in Seeds /\ out = <<>> /\ done = FALSE /\ picked = FALSE
Pick == /\ ~picked /\ picked' = TRUE /\ p' \in SameYear(p) /\ UNCHANGED <<out, done>>
Compute == /\ picked /\ ~done
           /\ done' = TRUE
           /\ out' = IF p.f = "I" THEN OutInt(p) ELSE OutCal(p)
           /\ UNCHANGED <<p, picked>>
\* every period of the configured years is reached: Seeds and SameYear tile Periods
ASSUME UNION {SameYear(q) : q \in Seeds} = Periods
Next == Pick \/ Compute
Spec == Init /\ [][Next]_vars

-----------------------------------------------------------------------------
(* C09 laws, checked on the specification *)

IsCal == done /\ p.f \in CalendarFreqs

Inv_AddSub == done =>        \* p + (q - p) = q and (p + k) - p = k, order agrees with serials
    \A k \in Offsets : LET q == Plus(p, k) IN
        /\ Plus(p, Minus(q, p)) = q
        /\ Minus(Plus(p, k), p) = k
        /\ (Lt(p, q) <=> k > 0) /\ (Lt(q, p) <=> k < 0) /\ ((p = q) <=> k = 0)

Inv_Tiling ==          \* consecutive periods tile the calendar without gap or overlap
    IsCal => /\ StartDay(p) <= EndDay(p)
             /\ EndDay(p) + 1 = StartDay(Plus(p, 1))
             /\ EndDay(Plus(p, -1)) + 1 = StartDay(p)

Inv_Accessors ==       \* year and segment agree with the calendar dates of the period
    IsCal => /\ YmdOfDay(StartDay(p))[1] = YearOf(p)
             /\ YmdOfDay(EndDay(p))[1] = YearOf(p)
             /\ FromYS(p.f, YearOf(p), SegOf(p)) = p
             /\ p.f \in RegularFreqs =>
                   /\ MonthToSeg(p.f, YmdOfDay(StartDay(p))[2]) = SegOf(p)
                   /\ MonthToSeg(p.f, YmdOfDay(EndDay(p))[2]) = SegOf(p)
                   /\ SegOf(p) \in 1..PerYear(p.f)
             /\ p.f = "D" => /\ SegOf(p) = p.n - DayNumber(YearOf(p), 1, 1) + 1
                             /\ SegOf(p) \in 1..YearLen(YearOf(p))
                             /\ LET t == YmdOfDay(p.n) IN DayNumber(t[1], t[2], t[3]) = p.n

Inv_ShiftKw ==         \* keyword shifts land on the documented period
    IsCal => /\ SegOf(ShiftKw(p, "soy")) = 1 /\ YearOf(ShiftKw(p, "soy")) = YearOf(p)
             /\ Plus(ShiftKw(p, "eopy"), 1) = ShiftKw(p, "soy")
             /\ YearOf(ShiftKw(p, "eopy")) = YearOf(p) - 1
             /\ p.f \in RegularFreqs => /\ SegOf(ShiftKw(p, "yoy")) = SegOf(p)
                                        /\ YearOf(ShiftKw(p, "yoy")) = YearOf(p) - 1
                                        /\ SegOf(ShiftKw(p, "eopy")) = PerYear(p.f)
             /\ p.f = "D" => Minus(p, ShiftKw(p, "yoy")) = 365
             /\ (ShiftKw(p, "tty") = None) <=> (p = ShiftKw(p, "soy"))
             /\ ShiftKw(p, "tty") # None => /\ ShiftKw(p, "tty") = Plus(p, -1)
                                            /\ YearOf(ShiftKw(p, "tty")) = YearOf(p)

-----------------------------------------------------------------------------
(* C11 laws, checked on the specification *)

Inv_YmdRoundTrip ==    \* (y, m, d) at any position converts back to the same period
    IsCal => \A pos \in Positions :
        /\ Containing(p.f, PosDayLo(p, pos)) = p
        /\ Containing(p.f, PosDayHi(p, pos)) = p
        /\ StartDay(p) <= PosDayLo(p, pos) /\ PosDayLo(p, pos) <= PosDayHi(p, pos) /\ PosDayHi(p, pos) <= EndDay(p)

Inv_RefreqContains ==  \* the converted period contains the chosen position of the source period
    IsCal => \A g \in CalendarFreqs, pos \in Positions :
        LET r == Refreq(p, g, pos) IN StartDay(r) <= PosDayLo(p, pos) /\ PosDayLo(p, pos) <= EndDay(r)

Inv_RefreqMonotone ==
    IsCal => \A g \in CalendarFreqs, pos \in Positions :
        /\ Refreq(p, g, pos).n <= Refreq(Plus(p, 1), g, pos).n
        /\ Refreq(p, g, pos).n <= RefreqHi(p, g, pos).n

Inv_CoarseFineCoarse == \* to a finer frequency and back never leaves the original period
    IsCal => \A g \in Finer(p.f), pos \in Positions, pos2 \in Positions :
        /\ Refreq(Refreq(p, g, pos), p.f, pos2) = p
        /\ Refreq(RefreqHi(p, g, pos), p.f, pos2) = p

\* every SDMX string (and repr) denotes one period only, and its shape determines the frequency
ASSUME TextInjective ==
    /\ Cardinality({Sdmx(q) : q \in Periods}) = Cardinality(Periods)
    /\ Cardinality({Repr(q) : q \in Periods}) = Cardinality(Periods)
    /\ \A q1, q2 \in {FromYS(f, 2020, 1) : f \in AllFreqs} : SdmxShape(q1) = SdmxShape(q2) => q1.f = q2.f

=============================================================================
