---------------------------- MODULE Convert ----------------------------
(***************************************************************************)
(* Frequency conversion of series (series/_conversions.py): aggregate and  *)
(* disaggregate, defined through calendar membership (Calendar.tla).       *)
(*                                                                         *)
(* A source series is [f, n0, rows]: frequency letter, serial of the first *)
(* period, rows of values (one column per variant; NaN = missing).         *)
(* A low-frequency period P contains the high-frequency periods whose days *)
(* lie inside P: the serials Refreq(P, hf, "start").n .. Refreq(P, hf,     *)
(* "end").n (containment is proved on Calendar by CalendarMC).             *)
(***************************************************************************)
EXTENDS Calendar

CONSTANTS NaN, AnyVal

SrcAt(S, n, v) == IF n >= S.n0 /\ n < S.n0 + Len(S.rows) THEN S.rows[n - S.n0 + 1][v] ELSE NaN
Nv(S) == IF S.rows = <<>> THEN 1 ELSE Len(S.rows[1])
FirstMember(P, hf) == Refreq(P, hf, "start").n
LastMember(P, hf)  == Refreq(P, hf, "end").n
Members(P, hf)     == [i \in 1..(LastMember(P, hf) - FirstMember(P, hf) + 1) |-> FirstMember(P, hf) + i - 1]

RECURSIVE SumQ(_), ProdQ(_), MaxQ(_), MinQ(_)
SumQ(q)  == IF q = <<>> THEN 0 ELSE Head(q) + SumQ(Tail(q))
ProdQ(q) == IF q = <<>> THEN 1 ELSE Head(q) * ProdQ(Tail(q))
MaxQ(q)  == IF Len(q) = 1 THEN q[1] ELSE LET m == MaxQ(Tail(q)) IN IF Head(q) >= m THEN Head(q) ELSE m
MinQ(q)  == IF Len(q) = 1 THEN q[1] ELSE LET m == MinQ(Tail(q)) IN IF Head(q) <= m THEN Head(q) ELSE m
HasNaNQ(q) == \E i \in 1..Len(q) : q[i] = NaN
DropNaN(q) == SelectSeq(q, LAMBDA x : x # NaN)
RECURSIVE Gcd(_, _)
Gcd(a, b) == IF b = 0 THEN a ELSE Gcd(b, a % b)
AbsI(x) == IF x < 0 THEN -x ELSE x
Ratio(n, d) == IF n % d = 0 THEN n \div d ELSE LET g == Gcd(AbsI(n), d) IN <<n \div g, d \div g>>    \* d > 0

\* the documented methods applied to the members of one group (select first, then discard)
AggGroup(method, discard, select, q0) ==
    LET q1 == IF select = <<>> THEN q0 ELSE [i \in 1..Len(select) |-> q0[select[i] + 1]]
        q  == IF discard THEN DropNaN(q1) ELSE q1 IN
    IF q = <<>> THEN NaN
    ELSE CASE method = "first" -> q[1]
           [] method = "last"  -> q[Len(q)]
           [] method \in {"min", "max"} -> IF DropNaN(q) = <<>> THEN NaN
                                           ELSE IF HasNaNQ(q) THEN AnyVal   \* order dependent, unspecified
                                           ELSE IF method = "min" THEN MinQ(q) ELSE MaxQ(q)
           [] HasNaNQ(q)       -> NaN                                     \* mean, sum, prod: missing member
           [] method = "sum"   -> SumQ(q)
           [] method = "prod"  -> ProdQ(q)
           [] method = "mean"  -> Ratio(SumQ(q), Len(q))

\* trimmed result: [f, n0 or None, rows]
TrimRows(f, lo, rows) ==
    LET obs == {i \in 1..Len(rows) : \E v \in 1..Len(rows[i]) : rows[i][v] # NaN} IN
    IF obs = {} THEN [f |-> f, n0 |-> None, rows |-> <<>>]
    ELSE LET a == CHOOSE i \in obs : \A j \in obs : i <= j
             b == CHOOSE i \in obs : \A j \in obs : i >= j IN
         [f |-> f, n0 |-> lo + a - 1, rows |-> SubSeq(rows, a, b)]

Aggregate(S, tf, method, discard, select) ==
    IF S.n0 = None THEN [f |-> tf, n0 |-> None, rows |-> <<>>] ELSE
    LET lo == Refreq(Per(S.f, S.n0), tf, "start").n
        hi == Refreq(Per(S.f, S.n0 + Len(S.rows) - 1), tf, "start").n IN
    TrimRows(tf, lo, [k \in 1..(hi - lo + 1) |-> [v \in 1..Nv(S) |->
        LET mem == Members(Per(tf, lo + k - 1), S.f) IN
        AggGroup(method, discard, select, [i \in 1..Len(mem) |-> SrcAt(S, mem[i], v)])]])

\* position of a high-frequency period inside its low-frequency period, and the size of the group
Disaggregate(S, tf, method) ==
    LET lo == FirstMember(Per(S.f, S.n0), tf)
        hi == LastMember(Per(S.f, S.n0 + Len(S.rows) - 1), tf) IN
    TrimRows(tf, lo, [k \in 1..(hi - lo + 1) |-> [v \in 1..Nv(S) |->
        LET h   == lo + k - 1
            P   == Refreq(Per(tf, h), S.f, "start")
            a   == FirstMember(P, tf)
            n   == LastMember(P, tf) - a + 1
            pos == h - a                       \* 0-based position in the group
            val == SrcAt(S, P.n, v) IN
        CASE method = "flat"   -> val
          [] method = "first"  -> IF pos = 0 THEN val ELSE NaN
          [] method = "last"   -> IF pos = n - 1 THEN val ELSE NaN
          [] method = "middle" -> IF pos = n \div 2 THEN val ELSE NaN]])

\* aggregating a disaggregated series with the matching method returns the original (C12)
Matching == {<<"flat", "mean">>, <<"flat", "first">>, <<"flat", "last">>, <<"flat", "min">>, <<"flat", "max">>,
             <<"first", "first">>, <<"last", "last">>}
Law_RoundTrip(S, tf) == \A dm \in Matching :
    Aggregate(Disaggregate(S, tf, dm[1]), S.f, dm[2], FALSE, <<>>) = TrimRows(S.f, S.n0, S.rows)
\* every high-frequency period belongs to exactly one low-frequency period: the groups tile the source
Law_Membership(S, tf) ==
    LET lo == Refreq(Per(S.f, S.n0), tf, "start").n
        hi == Refreq(Per(S.f, S.n0 + Len(S.rows) - 1), tf, "start").n IN
    /\ \A k \in lo..hi : LastMember(Per(tf, k), S.f) + 1 = FirstMember(Per(tf, k + 1), S.f)
    /\ \A i \in 1..Len(S.rows) : \E k \in lo..hi :
          FirstMember(Per(tf, k), S.f) <= S.n0 + i - 1 /\ S.n0 + i - 1 <= LastMember(Per(tf, k), S.f)
=============================================================================
