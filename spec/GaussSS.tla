------------------------------ MODULE GaussSS ------------------------------
(***************************************************************************)
(* Second moments of the solved linear model  x_t = T x_{t-1} + R e_t,     *)
(* y_t = sum_a Z_a x_{t-a} + D + Hm w_t  (fords/covariances.py).           *)
(*                                                                         *)
(* Omega is the stationary covariance of the stable variables: the unique  *)
(* solution of the Lyapunov equation  Omega = T Omega T' + R S R'  (S the  *)
(* diagonal matrix of shock variances), obtained by solving the linear     *)
(* system exactly (RatLin).  C(k) = Cov(x_t, x_{t-k}) = T^k Omega.         *)
(* Variables loaded on a unit root have no stationary covariance: NaN.     *)
(***************************************************************************)
EXTENDS RatLin, ModelLib, FiniteSets

CONSTANT NaN

\* unit-root model: g is a random walk, y is stationary and driven by both shocks
L5 == [name |-> "L5", linear |-> TRUE, vars |-> <<"g", "y">>, logv |-> {}, shocks |-> <<"eg", "ey">>,
       eqs |-> << [tx |-> << <<R(1), 1, 0>>, <<R(-1), 1, -1>> >>, te |-> << <<R(-1), 1>> >>, c |-> RZero],
                  [tx |-> << <<R(1), 2, 0>>, <<Q(-1, 2), 2, -1>>, <<R(-1), 1, 0>>, <<R(1), 1, -1>> >>, te |-> << <<R(-1), 2>> >>, c |-> RZero] >>,
       mvars |-> <<"oy">>, mshocks |-> <<"w">>,
       meqs |-> << [tx |-> << <<R(2), 2, 0>> >>, d |-> RZero, tw |-> << <<R(1), 1>> >>] >>,
       T |-> << <<R(1), RZero>>, <<RZero, Q(1, 2)>> >>, K |-> <<RZero, RZero>>,
       roots |-> <<R(1), Q(1, 2)>>, fwd |-> 0]
L5R0 == << <<R(1), RZero>>, <<R(1), R(1)>> >>
GModel(id) == IF id = "L5" THEN L5 ELSE Model(id)
GR0(id) == IF id = "L5" THEN L5R0 ELSE Rk(id, 0)
UnitVars(id) == IF id = "L5" THEN {1} ELSE {}

\* Lyapunov equation on the stable variables (their block of T must not load on the unit-root variables)
StableIdx(id) == LET RECURSIVE F(_)
                     F(S) == IF S = {} THEN <<>> ELSE LET m == CHOOSE x \in S : \A y \in S : x <= y IN <<m>> \o F(S \ {m})
                 IN F((1..Len(GModel(id).vars)) \ UnitVars(id))
Sub(M, idx, jdx) == [i \in 1..Len(idx) |-> [j \in 1..Len(jdx) |-> M[idx[i]][jdx[j]]]]
\* innovation covariance of the stable block: R S R' with S = diag(sd^2)
Innov(id, sd) == LET Rm == Sub(GR0(id), StableIdx(id), [j \in 1..Len(GModel(id).shocks) |-> j])
                     S == [i \in 1..Len(sd) |-> [j \in 1..Len(sd) |-> IF i = j THEN RMul(sd[i], sd[i]) ELSE RZero]]
                 IN RMatMul(RMatMul(Rm, S), RTranspose(Rm))
\* vec form: unknowns w[(i-1)n + j] = Omega[i][j];  Omega - T Omega T' = Q
Lyap(id, sd) == LET idx == StableIdx(id) n == Len(idx) Ts == Sub(GModel(id).T, idx, idx) Qm == Innov(id, sd)
                    A == [r \in 1..(n * n) |-> [c \in 1..(n * n) |->
                            LET i == ((r - 1) \div n) + 1 j == ((r - 1) % n) + 1 k == ((c - 1) \div n) + 1 l == ((c - 1) % n) + 1 IN
                            RSub(IF r = c THEN ROne ELSE RZero, RMul(Ts[i][k], Ts[j][l]))]]
                    b == [r \in 1..(n * n) |-> Qm[((r - 1) \div n) + 1][((r - 1) % n) + 1]]
                    s == RSolve(A, b) IN
                IF ~s.ok THEN [ok |-> FALSE]
                ELSE [ok |-> TRUE, Om |-> [i \in 1..n |-> [j \in 1..n |-> s.x[(i - 1) * n + j]]], Ts |-> Ts, Q |-> Qm]
\* the defining property, checked by TLC on every scenario
LyapOk(ly) == ly.ok => /\ ly.Om = RMatAdd(RMatMul(RMatMul(ly.Ts, ly.Om), RTranspose(ly.Ts)), ly.Q)
                       /\ ly.Om = RTranspose(ly.Om)
\* C(k) for k >= 0, and for k < 0 by transposition
Ck(ly, k) == IF k >= 0 THEN RMatMul(RMatPow(ly.Ts, k), ly.Om) ELSE RTranspose(RMatMul(RMatPow(ly.Ts, -k), ly.Om))

\* covariance of two linear combinations sum_a u_a' x_{t-a} and sum_b v_b' x_{t-j-b} of the stable variables
RECURSIVE QuadSum(_, _, _, _, _, _)
QuadSum(Cs, U, V, j, a, b) ==       \* U, V: sequences over lags 0..1 of coefficient vectors over the stable variables;
    IF a > Len(U) THEN RZero         \* Cs[k] = C(k) precomputed for k in -3..3
    ELSE IF b > Len(V) THEN QuadSum(Cs, U, V, j, a + 1, 1)
    ELSE RAdd(RDot(U[a], RMatVec(Cs[j + (b - 1) - (a - 1)], V[b])), QuadSum(Cs, U, V, j, a, b + 1))
CTable(ly) == [k \in -3..3 |-> Ck(ly, k)]
=============================================================================
