------------------------------ MODULE GaussSS ------------------------------
(***************************************************************************)
(* Second moments of the solved linear model  x_t = T x_{t-1} + R e_t,     *)
(* y_t = sum_a Z_a x_{t-a} + D + Hm w_t  (fords/covariances.py).           *)
(*                                                                         *)
(* Omega is the stationary covariance of the stable variables: the unique  *)
(* solution of the Lyapunov equation  Omega = T Omega T' + R S R'  (S the  *)
(* diagonal matrix of shock variances), obtained by solving the linear     *)
(* system exactly (RatLin).  C(k) = Cov(x_t, x_{t-k}) = T^k Omega.         *)
(* Variables loaded on a unit root have no stationary covariance: NaN.     *)
(***************************************************************************)
EXTENDS RatLin, ModelLib, FiniteSets

CONSTANT NaN

\* unit-root model: g is a random walk, y is stationary and driven by both shocks
L5 == [name |-> "L5", linear |-> TRUE, vars |-> <<"g", "y">>, logv |-> {}, shocks |-> <<"eg", "ey">>,
       eqs |-> << [tx |-> << <<R(1), 1, 0>>, <<R(-1), 1, -1>> >>, te |-> << <<R(-1), 1>> >>, c |-> RZero],
                  [tx |-> << <<R(1), 2, 0>>, <<Q(-1, 2), 2, -1>>, <<R(-1), 1, 0>>, <<R(1), 1, -1>> >>, te |-> << <<R(-1), 2>> >>, c |-> RZero] >>,
       mvars |-> <<"oy">>, mshocks |-> <<"w">>,
       meqs |-> << [tx |-> << <<R(2), 2, 0>> >>, d |-> RZero, tw |-> << <<R(1), 1>> >>] >>,
       T |-> << <<R(1), RZero>>, <<RZero, Q(1, 2)>> >>, K |-> <<RZero, RZero>>,
       roots |-> <<R(1), Q(1, 2)>>, fwd |-> 0]
L5R0 == << <<R(1), RZero>>, <<R(1), R(1)>> >>
\* one state, two observables with separate measurement shocks
LK == [name |-> "LK", linear |-> TRUE, vars |-> <<"x">>, logv |-> {}, shocks |-> <<"ex">>,
       eqs |-> << [tx |-> << <<R(1), 1, 0>>, <<Q(-1, 2), 1, -1>> >>, te |-> << <<R(-1), 1>> >>, c |-> R(-1)] >>,
       mvars |-> <<"oa", "ob">>, mshocks |-> <<"wa", "wb">>,
       meqs |-> << [tx |-> << <<R(1), 1, 0>> >>, d |-> RZero, tw |-> << <<R(1), 1>> >>],
                   [tx |-> << <<R(2), 1, 0>>, <<R(-1), 1, -1>> >>, d |-> R(1), tw |-> << <<R(1), 2>> >>] >>,
       T |-> << <<Q(1, 2)>> >>, K |-> <<R(1)>>, roots |-> <<Q(1, 2)>>, fwd |-> 0]
\* two states (x feeds z with a lag), one observable of z
LK2 == [name |-> "LK2", linear |-> TRUE, vars |-> <<"x", "z">>, logv |-> {}, shocks |-> <<"ex">>,
        eqs |-> << [tx |-> << <<R(1), 1, 0>>, <<Q(-1, 2), 1, -1>> >>, te |-> << <<R(-1), 1>> >>, c |-> RZero],
                   [tx |-> << <<R(1), 2, 0>>, <<Q(-1, 2), 2, -1>>, <<R(-1), 1, -1>> >>, te |-> <<>>, c |-> RZero] >>,
        mvars |-> <<"oz">>, mshocks |-> <<"w">>,
        meqs |-> << [tx |-> << <<R(1), 2, 0>> >>, d |-> RZero, tw |-> << <<R(1), 1>> >>] >>,
        T |-> << <<Q(1, 2), RZero>>, <<R(1), Q(1, 2)>> >>, K |-> <<RZero, RZero>>, roots |-> <<Q(1, 2), Q(1, 2)>>, fwd |-> 0]
\* as L5 but the observable loads on the level of the random walk
L5B == [L5 EXCEPT !.name = "L5B", !.mvars = <<"og">>,
                  !.meqs = << [tx |-> << <<R(1), 1, 0>>, <<R(1), 2, 0>> >>, d |-> RZero, tw |-> << <<R(1), 1>> >>] >>]
GModel(id) == CASE id = "L5" -> L5 [] id = "L5B" -> L5B [] id = "LK" -> LK [] id = "LK2" -> LK2 [] OTHER -> Model(id)
GR0(id) == CASE id = "L5" -> L5R0 [] id = "L5B" -> L5R0 [] id = "LK" -> << <<R(1)>> >> [] id = "LK2" -> << <<R(1)>>, <<RZero>> >> [] OTHER -> Rk(id, 0)
UnitVars(id) == IF id \in {"L5", "L5B"} THEN {1} ELSE {}

\* Lyapunov equation on the stable variables (their block of T must not load on the unit-root variables)
StableIdx(id) == LET RECURSIVE F(_)
                     F(S) == IF S = {} THEN <<>> ELSE LET m == CHOOSE x \in S : \A y \in S : x <= y IN <<m>> \o F(S \ {m})
                 IN F((1..Len(GModel(id).vars)) \ UnitVars(id))
Sub(M, idx, jdx) == [i \in 1..Len(idx) |-> [j \in 1..Len(jdx) |-> M[idx[i]][jdx[j]]]]
\* innovation covariance of the stable block: R S R' with S = diag(sd^2)
InnovV(id, vr) == LET Rm == Sub(GR0(id), StableIdx(id), [j \in 1..Len(GModel(id).shocks) |-> j])
                      S == [i \in 1..Len(vr) |-> [j \in 1..Len(vr) |-> IF i = j THEN vr[i] ELSE RZero]]
                  IN RMatMul(RMatMul(Rm, S), RTranspose(Rm))
\* vec form: unknowns w[(i-1)n + j] = Omega[i][j];  Omega - T Omega T' = Q
\* vr: shock variances
LyapV(id, vr) == LET idx == StableIdx(id) n == Len(idx) Ts == Sub(GModel(id).T, idx, idx) Qm == InnovV(id, vr)
                    A == [r \in 1..(n * n) |-> [c \in 1..(n * n) |->
                            LET i == ((r - 1) \div n) + 1 j == ((r - 1) % n) + 1 k == ((c - 1) \div n) + 1 l == ((c - 1) % n) + 1 IN
                            RSub(IF r = c THEN ROne ELSE RZero, RMul(Ts[i][k], Ts[j][l]))]]
                    b == [r \in 1..(n * n) |-> Qm[((r - 1) \div n) + 1][((r - 1) % n) + 1]]
                    s == RSolve(A, b) IN
                IF ~s.ok THEN [ok |-> FALSE]
                ELSE [ok |-> TRUE, Om |-> [i \in 1..n |-> [j \in 1..n |-> s.x[(i - 1) * n + j]]], Ts |-> Ts, Q |-> Qm]
Lyap(id, sd) == LyapV(id, [i \in 1..Len(sd) |-> RMul(sd[i], sd[i])])      \* sd: shock standard deviations
\* the defining property, checked by TLC on every scenario
LyapOk(ly) == ly.ok => /\ ly.Om = RMatAdd(RMatMul(RMatMul(ly.Ts, ly.Om), RTranspose(ly.Ts)), ly.Q)
                       /\ ly.Om = RTranspose(ly.Om)
\* C(k) for k >= 0, and for k < 0 by transposition
Ck(ly, k) == IF k >= 0 THEN RMatMul(RMatPow(ly.Ts, k), ly.Om) ELSE RTranspose(RMatMul(RMatPow(ly.Ts, -k), ly.Om))

\* covariance of two linear combinations sum_a u_a' x_{t-a} and sum_b v_b' x_{t-j-b} of the stable variables
RECURSIVE QuadSum(_, _, _, _, _, _)
QuadSum(Cs, U, V, j, a, b) ==       \* U, V: sequences over lags 0..1 of coefficient vectors over the stable variables;
    IF a > Len(U) THEN RZero         \* Cs[k] = C(k) precomputed for k in -5..5
    ELSE IF b > Len(V) THEN QuadSum(Cs, U, V, j, a + 1, 1)
    ELSE RAdd(RDot(U[a], RMatVec(Cs[j + (b - 1) - (a - 1)], V[b])), QuadSum(Cs, U, V, j, a, b + 1))
CTable(ly) == [k \in -5..5 |-> Ck(ly, k)]

Unit(n) == [i \in 1..n |-> RZero]
\* coefficient vectors (over the stable variables, for lags 0 and 1) of element e of the acov vector, or "unit" if it loads on a unit root
StablePos(id, j) == CHOOSE p \in 1..Len(StableIdx(id)) : StableIdx(id)[p] = j
Coefs(id, tx, lag) == [p \in 1..Len(StableIdx(id)) |->
    LET S == {i \in 1..Len(tx) : tx[i][2] = StableIdx(id)[p] /\ tx[i][3] = -lag} IN
    IF S = {} THEN RZero ELSE tx[CHOOSE i \in S : TRUE][1]]
LoadsUnit(id, tx) == \E i \in 1..Len(tx) : tx[i][2] \in UnitVars(id)
Elem(id, e) == LET m == GModel(id) nv == Len(m.vars) IN
    IF e <= nv THEN (IF e \in UnitVars(id) THEN [unit |-> TRUE]
                     ELSE [unit |-> FALSE, U |-> << [p \in 1..Len(StableIdx(id)) |-> IF StableIdx(id)[p] = e THEN ROne ELSE RZero], Unit(Len(StableIdx(id))) >>, tw |-> <<>>])
    ELSE LET q == m.meqs[e - nv] IN
         IF LoadsUnit(id, q.tx) THEN [unit |-> TRUE]
         ELSE [unit |-> FALSE, U |-> << Coefs(id, q.tx, 0), Coefs(id, q.tx, 1) >>, tw |-> q.tw]
\* measurement-shock part of the covariance (order 0 only): sum over shocks of h1 h2 sdw^2
RECURSIVE ShockCov(_, _, _, _)
ShockCov(tw1, tw2, sdw, i) == IF i > Len(tw1) THEN RZero
    ELSE LET S == {k \in 1..Len(tw2) : tw2[k][2] = tw1[i][2]} IN
         RAdd(IF S = {} THEN RZero ELSE RMul(RMul(tw1[i][1], tw2[CHOOSE k \in S : TRUE][1]), RMul(sdw, sdw)), ShockCov(tw1, tw2, sdw, i + 1))

=============================================================================
