----------------------------- MODULE Databox -----------------------------
(***************************************************************************)
(* irispie.Databox as a state machine over a heap of item objects          *)
(* (databoxes/main.py, _exports.py, _imports.py; dataslates/main.py).      *)
(*                                                                         *)
(* heap[id] is the content of item object id: a series                     *)
(*   [kind |-> "ser", f |-> frequency letter, c |-> canonical series       *)
(*    record of Series.tla, desc |-> description]                          *)
(* or a number [kind |-> "num", v |-> n].  box[h] maps the names present   *)
(* in databox handle h to object ids.  Deep copies allocate new objects,   *)
(* shallow copies share them, and databox-level overlay / underlay / clip /*)
(* prepend change the selected series objects in place - so what another   *)
(* databox sees afterwards depends on whether it shares the object.  That  *)
(* is the history-dependent part of C19; the frame conditions are the      *)
(* action properties at the end.                                           *)
(***************************************************************************)
EXTENDS Series

CONSTANTS Handles, NoItem

VARIABLES heap, box, last
dvars == <<heap, box, last>>

CNeg1 == -1
CNeg8 == -8
Uncanon(c) == IF c.start = None THEN Empty(c.nv)
              ELSE Mk(c.nv, [dcl \in U \X (1..c.nv) |->
                      IF dcl[1] >= c.start /\ dcl[1] < c.start + Len(c.rows) THEN c.rows[dcl[1] - c.start + 1][dcl[2]] ELSE NaN])

\* lz ("loose"): the stored span of the object need only cover its observations (after clip, a CSV or a dataslate round trip) - the
\* statement of C10 fixes the trimmed span after writes and arithmetic only; operations whose outcome depends on the stored span of
\* such an object (overlay / underlay with it on top) are not specified and are not taken
Ser(f, c, desc) == [kind |-> "ser", f |-> f, c |-> c, desc |-> desc, lz |-> FALSE]
Loosen(it)      == IF it.kind = "ser" THEN [it EXCEPT !.lz = TRUE] ELSE it
Num(v)          == [kind |-> "num", v |-> v]
S1(start, vals) == Canon(Mk(1, [dcl \in U \X (1..1) |-> IF dcl[1] >= start /\ dcl[1] < start + Len(vals) THEN vals[dcl[1] - start + 1] ELSE NaN]))
S2(start, rows) == Canon(Mk(2, [dcl \in U \X (1..2) |-> IF dcl[1] >= start /\ dcl[1] < start + Len(rows) THEN rows[dcl[1] - start + 1][dcl[2]] ELSE NaN]))

NextId == Len(heap) + 1
Names(h) == DOMAIN box[h]
AllNames == {"a", "b", "c", "d", "e", "k", "x_a", "x_b", "x_c", "p", "r"}

\* name selections: a list of names (absent ones are ignored, strict_names=False) or a predicate on names
Sels == {<<"list", <<"a">> >>, <<"list", <<"b", "c">> >>, <<"list", <<"zz", "a", "d">> >>, <<"list", <<"c", "zz", "b">> >>,
         <<"pred", "ab">>, <<"pred", "notk">>}
PredHolds(p, n) == IF p = "ab" THEN n \in {"a", "b", "x_a", "x_b"} ELSE n # "k"
SelSeq(h, sel) == IF sel[1] = "list" THEN SelectSeq(sel[2], LAMBDA n : n \in Names(h))
                  ELSE LET RECURSIVE F(_)
                           F(T) == IF T = {} THEN <<>> ELSE LET m == CHOOSE x \in T : TRUE IN <<m>> \o F(T \ {m})
                       IN F({n \in Names(h) : PredHolds(sel[2], n)})
SelSet(h, sel) == {SelSeq(h, sel)[i] : i \in 1..Len(SelSeq(h, sel))}
InSq(x, q) == \E i \in 1..Len(q) : q[i] = x

\* renaming: explicit target list aligned with the source list, or a function of the source name
Renamings == {<<"list", <<"a">>, <<"p">> >>, <<"list", <<"zz", "b", "c">>, <<"q1", "p", "r">> >>, <<"list", <<"b", "zz", "a">>, <<"r", "q1", "p">> >>,
              <<"func", <<"list", <<"a", "c">> >>, "x_">>, <<"func", <<"pred", "ab">>, "x_">>}
\* pairs <<source, target>> for the sources that are present
RenPairs(h, rn) == IF rn[1] = "list"
                   THEN {<<rn[2][i], rn[3][i]>> : i \in {j \in 1..Len(rn[2]) : rn[2][j] \in Names(h)}}
                   ELSE {<<n, rn[3] \o n>> : n \in SelSet(h, rn[2])}
RenOk(h, rn) == LET ps == RenPairs(h, rn) IN      \* targets are fresh names (collisions are not specified)
    /\ \A p1, p2 \in ps : p1 # p2 => p1[2] # p2[2]
    /\ \A p1 \in ps : p1[2] \notin Names(h)

Restrict(fn, S) == [n \in S |-> fn[n]]
Alloc(hp, contents) == hp \o contents        \* contents: sequence of new objects; ids NextId ..

\* ---- series semantics applied to item contents --------------------------------------------------------
OverlayC(top, bottom) == Canon(Lay(Uncanon(top), Uncanon(bottom)))
ClipC(c, lo, hi) == Canon(FromFn(c.nv, LAMBDA t, v :
                       IF (IF lo = None THEN TRUE ELSE t >= lo) /\ (IF hi = None THEN TRUE ELSE t <= hi) THEN Uncanon(c).m[t, v] ELSE NaN))
IsSer(hp, id) == hp[id].kind = "ser"
SerF(hp, id) == IF hp[id].kind = "ser" THEN hp[id].f ELSE "-"
\* names on which a databox-level overlay/underlay acts: series present in both boxes, both with observations (an empty series has no
\* frequency, the databox skips it) and of the same frequency
LayNames(hp, bh, bg) == {n \in DOMAIN bh \cap DOMAIN bg :
                           IF IsSer(hp, bh[n]) /\ IsSer(hp, bg[n])
                           THEN hp[bh[n]].f = hp[bg[n]].f /\ hp[bh[n]].c.start # None /\ hp[bg[n]].c.start # None
                           ELSE FALSE}
\* ... all of which must have compatible numbers of variants (otherwise the operation is rejected as a whole)
LayCompatible(hp, bh, bg) == \A n \in LayNames(hp, bh, bg) :
                                LET a == hp[bh[n]].c.nv  b == hp[bg[n]].c.nv IN IF a = b THEN TRUE ELSE IF a = 1 THEN TRUE ELSE b = 1

\* ---- actions ------------------------------------------------------------------------------------------
Keep(h, sel) == /\ box' = [box EXCEPT ![h] = Restrict(box[h], SelSet(h, sel))]
                /\ heap' = heap /\ last' = [op |-> <<"keep", sel>>, h |-> h, g |-> h, k |-> h, ids |-> {}]
Remove(h, sel) == /\ box' = [box EXCEPT ![h] = Restrict(box[h], Names(h) \ SelSet(h, sel))]
                  /\ heap' = heap /\ last' = [op |-> <<"remove", sel>>, h |-> h, g |-> h, k |-> h, ids |-> {}]
Rename(h, rn) == /\ RenOk(h, rn) /\ RenPairs(h, rn) # {}
                 /\ LET ps == RenPairs(h, rn) src == {p[1] : p \in ps} tgt == {p[2] : p \in ps} IN
                    box' = [box EXCEPT ![h] = [n \in (Names(h) \ src) \cup tgt |->
                               IF n \in tgt THEN box[h][(CHOOSE p \in ps : p[2] = n)[1]] ELSE box[h][n]]]
                 /\ heap' = heap /\ last' = [op |-> <<"rename", rn>>, h |-> h, g |-> h, k |-> h, ids |-> {}]
\* copy / shallow with optional selection and renaming function prefix (pfx = "" keeps the names)
CopyLike(h, k, sel, pfx, deep) ==
    /\ k # h
    /\ LET q == SelSeq(h, sel) IN
       /\ \A i, j \in 1..Len(q) : i # j => q[i] # q[j]
       /\ \A i, j \in 1..Len(q) : pfx \o q[i] = q[j] => pfx = ""       \* a target that is also a selected source is a rename collision: not specified
       /\ IF deep
          THEN /\ heap' = Alloc(heap, [i \in 1..Len(q) |-> heap[box[h][q[i]]]])
               /\ box' = [box EXCEPT ![k] = [n \in {pfx \o q[i] : i \in 1..Len(q)} |->
                                              NextId - 1 + (CHOOSE i \in 1..Len(q) : pfx \o q[i] = n)]]
          ELSE /\ heap' = heap
               /\ box' = [box EXCEPT ![k] = [n \in {pfx \o q[i] : i \in 1..Len(q)} |->
                                              box[h][q[CHOOSE i \in 1..Len(q) : pfx \o q[i] = n]]]]
    /\ last' = [op |-> <<IF deep THEN "copy" ELSE "shallow", sel, pfx>>, h |-> h, g |-> h, k |-> k, ids |-> {}]
\* h | g : a deep copy of h updated with the items of g (which stay shared with g)
Merge(h, g, k) ==
    /\ k # h /\ k # g /\ h # g
    /\ LET own == SelSeq(h, <<"pred", "notk">>) \o SelectSeq(<<"k">>, LAMBDA n : n \in Names(h))
           keepown == SelectSeq(own, LAMBDA n : n \notin Names(g)) IN
       /\ heap' = Alloc(heap, [i \in 1..Len(keepown) |-> heap[box[h][keepown[i]]]])
       /\ box' = [box EXCEPT ![k] = [n \in Names(h) \cup Names(g) |->
                     IF n \in Names(g) THEN box[g][n] ELSE NextId - 1 + (CHOOSE i \in 1..Len(keepown) : keepown[i] = n)]]
    /\ last' = [op |-> <<"merge">>, h |-> h, g |-> g, k |-> k, ids |-> {}]
\* databox-level overlay / underlay: the series objects of h are changed in place
LayOp(h, g, which) ==
    /\ h # g
    /\ LET ns == LayNames(heap, box[h], box[g]) ids == {box[h][n] : n \in ns} IN
       /\ ns # {} /\ LayCompatible(heap, box[h], box[g])
       /\ \A n \in ns : box[h][n] # box[g][n]          \* an object overlaid on itself is not specified
       /\ \A n \in ns : ~heap[IF which = "overlay" THEN box[g][n] ELSE box[h][n]].lz      \* the series on top has its trimmed span
       /\ \A n1, n2 \in ns : n1 # n2 => box[h][n1] # box[h][n2]
       /\ heap' = [id \in 1..Len(heap) |->
                     IF id \in ids
                     THEN LET n == CHOOSE x \in ns : box[h][x] = id IN
                          [heap[id] EXCEPT !.c = IF which = "overlay" THEN OverlayC(heap[box[g][n]].c, heap[id].c)
                                                 ELSE OverlayC(heap[id].c, heap[box[g][n]].c)]
                     ELSE heap[id]]
       /\ last' = [op |-> <<which>>, h |-> h, g |-> g, k |-> h, ids |-> ids]
    /\ box' = box
\* clip all series of frequency f in h to lo..hi, in place
DbClip(h, f, lo, hi) ==
    /\ LET ids == {box[h][n] : n \in {x \in Names(h) : SerF(heap, box[h][x]) = f}} IN
       /\ ids # {}
       /\ heap' = [id \in 1..Len(heap) |-> IF id \in ids THEN [heap[id] EXCEPT !.c = ClipC(heap[id].c, lo, hi), !.lz = TRUE] ELSE heap[id]]
       /\ last' = [op |-> <<"clip", f, lo, hi>>, h |-> h, g |-> h, k |-> h, ids |-> ids]
    /\ box' = box
\* prepend: a copy of g is clipped to ..endp (clip acts on the series of the frequency of endp only) and then underlaid
\* beneath every common series of h
Prepend(h, g, f, endp) ==
    /\ h # g
    /\ LET gc(n) == IF heap[box[g][n]].f = f THEN ClipC(heap[box[g][n]].c, None, endp) ELSE heap[box[g][n]].c   \* the clipped copy of g
           \* the underlay skips what is empty after clipping
           \* (contents are canonical: the first stored row holds an observation, so the clipped copy is empty iff it starts after endp)
           ns == {n \in LayNames(heap, box[h], box[g]) : IF heap[box[g][n]].f = f THEN heap[box[g][n]].c.start <= endp ELSE TRUE}
           ids == {box[h][n] : n \in ns} IN
       /\ \E n \in ns : SerF(heap, box[h][n]) = f
       /\ LayCompatible(heap, box[h], box[g])
       /\ \A n1, n2 \in ns : n1 # n2 => box[h][n1] # box[h][n2]
       /\ \A n \in ns : ~heap[box[h][n]].lz
       /\ heap' = [id \in 1..Len(heap) |->
                     IF id \in ids
                     THEN LET n == CHOOSE x \in ns : box[h][x] = id IN [heap[id] EXCEPT !.c = OverlayC(heap[id].c, gc(n))]
                     ELSE heap[id]]
       /\ last' = [op |-> <<"prepend", f, endp>>, h |-> h, g |-> g, k |-> h, ids |-> ids]
    /\ box' = box
\* CSV round trip of the series items selected by name: new objects with the same content
CsvRoundTrip(h, k, sel, descrow) ==
    /\ k # h
    /\ LET q == SelectSeq(SelSeq(h, sel), LAMBDA n : IsSer(heap, box[h][n])) IN
       /\ \A i, j \in 1..Len(q) : i # j => q[i] # q[j]
       /\ q # <<>>
       /\ heap' = Alloc(heap, [i \in 1..Len(q) |-> Loosen(IF descrow THEN heap[box[h][q[i]]] ELSE [heap[box[h][q[i]]] EXCEPT !.desc = ""])])
       /\ box' = [box EXCEPT ![k] = [n \in {q[i] : i \in 1..Len(q)} |-> NextId - 1 + (CHOOSE i \in 1..Len(q) : q[i] = n)]]
    /\ last' = [op |-> <<"csv", sel, descrow>>, h |-> h, g |-> h, k |-> k, ids |-> {}]
\* databox -> dataslate on lo..hi (frequency f) -> databox: the input values on the span, NaN elsewhere;
\* a fallback fills what is missing on the span, an overwrite replaces everything on the span; numbers are constant series
SlateItem(it, lo, hi, fb, ow) ==
    LET base == IF it = NoItem THEN Empty(1) ELSE IF it.kind = "num" THEN FromFn(1, LAMBDA t, v : it.v) ELSE Uncanon(it.c) IN
    Canon(FromFn(base.nv, LAMBDA t, v :
        IF t < lo \/ t > hi THEN NaN
        ELSE IF ow # None THEN ow
        ELSE IF base.m[t, v] = NaN /\ fb # None THEN fb ELSE base.m[t, v]))
SlateRoundTrip(h, k, names, f, lo, hi, fbn, own) ==
    /\ k # h
    /\ \A i \in 1..Len(names) :
          IF names[i] \in Names(h)
          THEN (IF heap[box[h][names[i]]].kind = "num" THEN TRUE
                ELSE heap[box[h][names[i]]].f = f /\ heap[box[h][names[i]]].c.nv = 1)
          ELSE names[i] = fbn
    /\ heap' = Alloc(heap, [i \in 1..Len(names) |->
                  Loosen(Ser(f, SlateItem(IF names[i] \in Names(h) THEN heap[box[h][names[i]]] ELSE NoItem, lo, hi,
                                          IF names[i] = fbn THEN 9 ELSE None, IF names[i] = own THEN 7 ELSE None), ""))])
    /\ box' = [box EXCEPT ![k] = [n \in {names[i] : i \in 1..Len(names)} |-> NextId - 1 + (CHOOSE i \in 1..Len(names) : names[i] = n)]]
    /\ last' = [op |-> <<"slate", names, f, lo, hi, fbn, own>>, h |-> h, g |-> h, k |-> k, ids |-> {}]

\* ---- frame conditions (C19: "exactly the selected names ... leave the rest untouched") -------------------
\* objects not named by the action keep their content; new objects are only added at the end of the heap
Prop_HeapFrame == [][/\ Len(heap') >= Len(heap)
                     /\ \A id \in 1..Len(heap) : id \notin last'.ids => heap'[id] = heap[id]]_dvars
\* only the receiver (in-place actions) or the target handle (actions returning a databox) changes its name map
Prop_BoxFrame == [][\A x \in Handles : x # last'.k => box'[x] = box[x]]_dvars
\* results of copy / csv / slate round trips share no object with any databox that existed before
Prop_Fresh == [][last'.op[1] \in {"copy", "csv", "slate"} =>
                   \A n \in DOMAIN box'[last'.k] : box'[last'.k][n] > Len(heap)]_dvars
\* keep / remove / rename never change which object a surviving, unselected name refers to
Prop_NamesFrame == [][last'.op[1] \in {"keep", "remove", "rename"} =>
                        \A n \in DOMAIN box'[last'.h] \cap DOMAIN box[last'.h] : box'[last'.h][n] = box[last'.h][n]]_dvars
Inv_Typed == \A h \in Handles : \A n \in DOMAIN box[h] : box[h][n] \in 1..Len(heap)
=============================================================================
