----------------------------- MODULE SeqSim -----------------------------
(***************************************************************************)
(* Simulation of a Sequential model (sequentials/_simulate.py,             *)
(* explanatories/main.py, plans/transforms.py) as a state machine: one     *)
(* step per (equation, period) in the chosen execution order.              *)
(*                                                                         *)
(* An equation is [lhs, tr, terms, const, identity]: tr(lhs) = sum of      *)
(* terms + const (+ residual res_<lhs> unless it is an identity).  A term  *)
(* is <<coef, name, shift, kind>>, kind "lin" (coef * name{shift}) or      *)
(* "log" (coef * log(name{shift})).  Values are integers, NaN, or          *)
(* <<"e", k>> = exp(k) for left-hand variables under log / diff_log, so    *)
(* every transform is exact.                                               *)
(*                                                                         *)
(* Step(e, t):  if the plan exogenizes lhs(e) at t (and, with when_data,   *)
(* the implied value is available) the variable takes the implied value    *)
(* and the residual is backed out so that the equation holds; otherwise    *)
(* the variable is computed from the right-hand side and the residual.     *)
(***************************************************************************)
EXTENDS Integers, Sequences, FiniteSets, TLC

CONSTANTS NaN, NoPlan

\* values: NaN, <<"i", n>> (the integer n) or <<"e", k>> (exp(k)); tagged because TLC cannot test a tuple for
\* membership in Int
IsE(v)   == v # NaN /\ v[1] = "e"
IsI(v)   == v # NaN /\ v[1] = "i"
EP(k)    == <<"e", k>>
IV(n)    == <<"i", n>>
ResName(n) == "res_" \o n

\* ---- evaluation --------------------------------------------------------------------------------
TermVal(d, term, t) == LET v == d[<<term[2], t + term[3]>>] IN
    IF v = NaN THEN NaN
    ELSE IF term[4] = "lin" THEN (IF IsI(v) THEN term[1] * v[2] ELSE NaN)
    ELSE (IF IsE(v) THEN term[1] * v[2] ELSE NaN)
RECURSIVE SumTerms(_, _, _, _)
SumTerms(d, terms, t, i) == IF i > Len(terms) THEN 0
                            ELSE LET a == TermVal(d, terms[i], t) b == SumTerms(d, terms, t, i + 1) IN
                                 IF a = NaN \/ b = NaN THEN NaN ELSE a + b
Rhs(d, eq, t) == LET s == SumTerms(d, eq.terms, t, 1) IN IF s = NaN THEN NaN ELSE s + eq.const     \* without residual
ResVal(d, eq, t) == IF eq.identity THEN 0 ELSE LET r == d[<<ResName(eq.lhs), t>>] IN IF IsI(r) THEN r[2] ELSE NaN
RhsRes(d, eq, t) == LET a == Rhs(d, eq, t) r == ResVal(d, eq, t) IN IF a = NaN \/ r = NaN THEN NaN ELSE a + r

\* level of the lhs implied by the value v of its transform
Level(d, eq, t, v) == LET prev == d[<<eq.lhs, t - 1>>] IN
    IF v = NaN THEN NaN
    ELSE CASE eq.tr = "none"     -> IV(v)
           [] eq.tr = "log"      -> EP(v)
           [] eq.tr = "diff"     -> IF IsI(prev) THEN IV(prev[2] + v) ELSE NaN
           [] eq.tr = "roc"      -> IF IsI(prev) THEN IV(prev[2] * v) ELSE NaN
           [] eq.tr = "pct"      -> IF IsI(prev) /\ (prev[2] * (100 + v)) % 100 = 0 THEN IV((prev[2] * (100 + v)) \div 100) ELSE NaN
           [] eq.tr = "diff_log" -> IF IsE(prev) THEN EP(prev[2] + v) ELSE NaN
\* value of the transform of the lhs at t (inverse of Level); NaN when not exactly representable
TrVal(d, eq, t) == LET x == d[<<eq.lhs, t>>] prev == d[<<eq.lhs, t - 1>>] IN
    IF x = NaN THEN NaN
    ELSE CASE eq.tr = "none"     -> IF IsI(x) THEN x[2] ELSE NaN
           [] eq.tr = "log"      -> IF IsE(x) THEN x[2] ELSE NaN
           [] eq.tr = "diff"     -> IF IsI(x) /\ IsI(prev) THEN x[2] - prev[2] ELSE NaN
           [] eq.tr = "roc"      -> IF IsI(x) /\ IsI(prev) /\ prev[2] > 0 /\ x[2] % prev[2] = 0 THEN x[2] \div prev[2] ELSE NaN
           [] eq.tr = "pct"      -> IF IsI(x) /\ IsI(prev) /\ prev[2] > 0 /\ (100 * x[2]) % prev[2] = 0 THEN ((100 * x[2]) \div prev[2]) - 100 ELSE NaN
           [] eq.tr = "diff_log" -> IF IsE(x) /\ IsE(prev) THEN x[2] - prev[2] ELSE NaN

\* the equation holds at t together with its residual: tr(lhs) = rhs + res
Holds(d, eq, t) == LET a == TrVal(d, eq, t) b == RhsRes(d, eq, t) IN a # NaN /\ b # NaN /\ a = b

\* ---- plans -------------------------------------------------------------------------------------
\* plan[<<lhs, t>>] = NoPlan or [tr |-> plan transform, when_data |-> BOOLEAN, sh |-> shift of the transform]; the transform's data are
\* in d under the documented name (x, log_x, diff_x, diff_log_x, roc_x, pct_x)
PlanName(ptr, n) == IF ptr = "none" THEN n ELSE ptr \o "_" \o n
\* sh: the shift of the plan transform (default -1): the change is taken against the value sh periods away
Implied(d, n, ptr, t, sh) == LET p == d[<<PlanName(ptr, n), t>>] prev == d[<<n, t + sh>>] IN
    IF p = NaN THEN NaN
    ELSE CASE ptr = "none"     -> p
           [] ptr = "log"      -> IF IsI(p) THEN EP(p[2]) ELSE NaN
           [] ptr = "diff"     -> IF IsI(prev) /\ IsI(p) THEN IV(prev[2] + p[2]) ELSE NaN
           [] ptr = "roc"      -> IF IsI(prev) /\ IsI(p) THEN IV(prev[2] * p[2]) ELSE NaN
           [] ptr = "pct"      -> IF IsI(prev) /\ IsI(p) /\ (prev[2] * (100 + p[2])) % 100 = 0 THEN IV((prev[2] * (100 + p[2])) \div 100) ELSE NaN
           [] ptr = "diff_log" -> IF IsE(prev) /\ IsI(p) THEN EP(prev[2] + p[2]) ELSE NaN

Exogenized(d, plan, eq, t) ==
    /\ ~eq.identity /\ plan[<<eq.lhs, t>>] # NoPlan
    /\ ~(plan[<<eq.lhs, t>>].when_data /\ Implied(d, eq.lhs, plan[<<eq.lhs, t>>].tr, t, plan[<<eq.lhs, t>>].sh) = NaN)

\* ---- one step -----------------------------------------------------------------------------------
SimStep(d, eq, t)  == [d EXCEPT ![<<eq.lhs, t>>] = Level(d, eq, t, RhsRes(d, eq, t))]
ExogStep(d, plan, eq, t) ==
    LET d1 == [d EXCEPT ![<<eq.lhs, t>>] = Implied(d, eq.lhs, plan[<<eq.lhs, t>>].tr, t, plan[<<eq.lhs, t>>].sh)]
        a  == TrVal(d1, eq, t)  b == Rhs(d1, eq, t) IN
    [d1 EXCEPT ![<<ResName(eq.lhs), t>>] = IF a = NaN \/ b = NaN THEN NaN ELSE IV(a - b)]
StepData(d, plan, eq, t) == IF Exogenized(d, plan, eq, t) THEN ExogStep(d, plan, eq, t) ELSE SimStep(d, eq, t)

\* execution order: the sequence of <<equation index, period>>
RECURSIVE SeqCat(_, _)
SeqCat(F(_), n) == IF n = 0 THEN <<>> ELSE SeqCat(F, n - 1) \o F(n)
Schedule(order, neq, span) ==
    IF order = "dates_equations"
    THEN SeqCat(LAMBDA i : [e \in 1..neq |-> <<e, span[i]>>], Len(span))
    ELSE SeqCat(LAMBDA e : [i \in 1..Len(span) |-> <<e, span[i]>>], neq)

\* a read is stale if it takes a value that a later step of the schedule will still overwrite
LhsCells(eqs, sched, from) == {<<eqs[sched[i][1]].lhs, sched[i][2]>> : i \in from..Len(sched)}
Reads(eq, t) == {<<eq.terms[i][2], t + eq.terms[i][3]>> : i \in 1..Len(eq.terms)}
                  \cup (IF eq.tr \in {"diff", "roc", "pct", "diff_log"} THEN {<<eq.lhs, t - 1>>} ELSE {})
StaleAt(eqs, sched, i) == Reads(eqs[sched[i][1]], sched[i][2]) \cap LhsCells(eqs, sched, i + 1) # {}
=============================================================================
