------------------------------ MODULE OlsMC ------------------------------
(* Scenario enumerator for Ols.tla. *)
EXTENDS Ols
VARIABLES sc, out, done
vars == <<sc, out, done>>
CNeg1 == -1
CNeg2 == -2

\* data generators: small integers, deterministic, distinct per column
Gen(t, j) == ((t * t + 2 * j * t + 3 * j) % 6) - 2
Gen2(t, j, g) == IF g = 0 THEN Gen(t, j) ELSE ((t * t * t + j * t + 2 * j + 1) % 5) - 1     \* a second data set (g = 1)
Rows(T, w, miss, g) == [t \in 1..T |-> [j \in 1..w |-> IF <<t, j>> \in miss THEN NaN ELSE Gen2(t, j, g)]]
\* noise-free data: y_t = 2 y_{t-1} - x_t + 1 (K = 1, nx = 1, p = 1), and y1_t = y2_{t-1} + 1, y2_t = y1_{t-1} - y2_{t-1} (K = 2)
RECURSIVE Y1(_)
Y1(t) == IF t = 1 THEN 1 ELSE 2 * Y1(t - 1) - Gen(t, 2) + 1
RECURSIVE YA(_), YB(_)
YA(t) == IF t = 1 THEN 3 ELSE YB(t - 1) + 1
YB(t) == IF t = 1 THEN 1 ELSE YA(t - 1) - YB(t - 1)

\* thorough tier: Deep <- DeepOn in the cfg (longer samples, more missing patterns, a second-order bivariate VAR, no-intercept variants)
Deep == FALSE
DeepOn == TRUE
MissSets(T, w) == {{}, {<<3, 1>>}, {<<T, w>>}, {<<2, w>>}, {<<1, 1>>}, {<<4, 1>>, <<5, w>>}}
                  \cup (IF Deep THEN {{<<2, 1>>, <<6, 1>>}, {<<3, w>>, <<4, w>>}, {<<5, 1>>}, {<<1, w>>, <<T, 1>>}, {<<T - 1, 1>>}} ELSE {})
Scen == UNION {{[K |-> kpt[1][1], nx |-> kpt[2], p |-> kpt[1][2], icpt |-> TRUE, exact |-> FALSE, g |-> g, prior |-> <<>>, data |-> Rows(kpt[3], kpt[1][1] + kpt[2], ms, g)] :
                   ms \in MissSets(kpt[3], kpt[1][1] + kpt[2]), g \in {0, 1}}
               : kpt \in ({<<1, 1>>, <<1, 2>>, <<2, 1>>} \X {0, 1} \X {7, 8})
                          \cup (IF Deep THEN ({<<1, 1>>, <<1, 2>>, <<2, 1>>} \X {0, 1} \X {9, 10}) \cup ({<<2, 2>>} \X {0} \X {9, 10}) ELSE {})}
        \cup (IF Deep THEN UNION {{[K |-> kT[1], nx |-> 0, p |-> 1, icpt |-> FALSE, exact |-> FALSE, g |-> g, prior |-> <<>>, data |-> Rows(kT[2], kT[1], ms, g)] :
                                      g \in {0, 1}, ms \in {{}, {<<3, 1>>}, {<<kT[2], kT[1]>>}}} : kT \in {1, 2} \X {7, 9}} ELSE {})
        \cup {[K |-> 1, nx |-> 1, p |-> 1, icpt |-> TRUE, exact |-> TRUE, g |-> 0, prior |-> <<>>, data |-> [t \in 1..6 |-> <<Y1(t), Gen(t, 2)>>]],
              [K |-> 2, nx |-> 0, p |-> 1, icpt |-> TRUE, exact |-> TRUE, g |-> 0, prior |-> <<>>, data |-> [t \in 1..6 |-> <<YA(t), YB(t)>>]],
              [K |-> 1, nx |-> 0, p |-> 1, icpt |-> FALSE, exact |-> FALSE, g |-> 0, prior |-> <<>>, data |-> Rows(6, 1, {}, 0)]}
        \* two exogenous variables
        \cup {[K |-> 1, nx |-> 2, p |-> 1, icpt |-> ic, exact |-> FALSE, g |-> 0, prior |-> <<>>, data |-> Rows(8, 3, ms, 0)] : ic \in BOOLEAN, ms \in {{}, {<<3, 1>>}, {<<5, 3>>}}}

\* prior dummy observations (integer parameters keep the normal equations integral)
Minn(rho, mu, kappa) == [kind |-> "minn", rho |-> rho, mu |-> mu, kappa |-> kappa]
Mean(mean, mu) == [kind |-> "mean", mean |-> mean, mu |-> mu]
PriorSets == { << Minn(1, 2, 0) >>, << Minn(0, 1, 1) >>, << Mean(2, 1) >>, << Mean(CNeg1, 2), Minn(1, 1, 1) >> }
PriorScen == {[K |-> kpn[1], nx |-> kpn[3], p |-> kpn[2], icpt |-> ic, exact |-> FALSE, g |-> 2, prior |-> pr, data |-> Rows(7, kpn[1] + kpn[3], ms, 0)] :
                 kpn \in {<<1, 1, 0>>, <<1, 1, 1>>, <<2, 1, 0>>, <<2, 1, 1>>, <<1, 2, 0>>}, ic \in BOOLEAN, pr \in PriorSets, ms \in {{}, {<<3, 1>>}}}
Init == sc \in Scen \cup PriorScen /\ out = <<>> /\ done = FALSE
Compute == /\ ~done /\ done' = TRUE /\ UNCHANGED sc
           /\ \E s \in {OlsSolve(sc)} :
                out' = IF s.ok THEN [s EXCEPT !.check = s.check /\ Law_Orthogonal(sc, s) /\ Law_NoiseFree(sc, s)] ELSE s
Next == Compute
Spec == Init /\ [][Next]_vars
Inv_Laws == (done /\ out.ok) => out.check
=============================================================================
