CONSTANTS
  NoSpan = NoSpan
  None = None
SPECIFICATION TSpec
INVARIANT TInv_Enumerates
INVARIANT TInv_Reverse
CONSTRAINT Reach
POSTCONDITION Post
CHECK_DEADLOCK FALSE
