SPECIFICATION Spec
INVARIANT Inv_SteadyEqHold
INVARIANT Inv_PlanRespected
CHECK_DEADLOCK FALSE
