CONSTANTS
  Deep <- DeepOn
SPECIFICATION Spec
INVARIANT Inv_Exists
INVARIANT Inv_Unique
CHECK_DEADLOCK FALSE
