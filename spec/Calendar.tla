--------------------------- MODULE Calendar ---------------------------
(***************************************************************************)
(* Definitional model of irispie time periods (dates.py).                  *)
(*                                                                         *)
(* Nothing here is copied from the implementation: the proleptic Gregorian *)
(* calendar is built from the leap rule and the month lengths; periods of  *)
(* regular frequencies are (year, segment) pairs numbered consecutively;   *)
(* daily periods are day numbers (day 1 = 0001-01-01, the numbering used   *)
(* by Python's date.toordinal, which the implementation exposes as the     *)
(* serial of a daily period); integer periods are plain integers.          *)
(*                                                                         *)
(* A period is a record [f |-> frequency letter, n |-> serial number].     *)
(***************************************************************************)
EXTENDS Integers, Sequences, FiniteSets, TLC

CONSTANT None          \* model value: "no period" (tty at the start of a year)

RegularFreqs  == {"Y", "H", "Q", "M"}
CalendarFreqs == RegularFreqs \cup {"D"}
AllFreqs      == CalendarFreqs \cup {"I"}
Positions     == {"start", "middle", "end"}

\* periods per year; for daily periods the documented annualisation factor 365
PerYear(f) == CASE f = "Y" -> 1 [] f = "H" -> 2 [] f = "Q" -> 4 [] f = "M" -> 12
                [] f = "D" -> 365 [] f = "I" -> 0

-----------------------------------------------------------------------------
(* The calendar *)

IsLeap(y)      == (y % 4 = 0 /\ y % 100 # 0) \/ (y % 400 = 0)
MonthLen(y, m) == IF m = 2 THEN (IF IsLeap(y) THEN 29 ELSE 28)
                  ELSE IF m \in {4, 6, 9, 11} THEN 30 ELSE 31
YearLen(y)     == IF IsLeap(y) THEN 366 ELSE 365

\* days strictly before 1 January of year y
DaysBeforeYear(y) == 365 * (y - 1) + ((y - 1) \div 4) - ((y - 1) \div 100) + ((y - 1) \div 400)

RECURSIVE DaysBeforeMonth(_, _)
DaysBeforeMonth(y, m) == IF m = 1 THEN 0 ELSE DaysBeforeMonth(y, m - 1) + MonthLen(y, m - 1)

DayNumber(y, m, d) == DaysBeforeYear(y) + DaysBeforeMonth(y, m) + d

\* inverse of DayNumber (search in the only interval where the year can be)
YearOfDay(n)  == CHOOSE y \in (((n - 1) \div 366) + 1) .. (((n - 1) \div 365) + 1) :
                     DaysBeforeYear(y) < n /\ n <= DaysBeforeYear(y + 1)
DoyOfDay(n)   == n - DaysBeforeYear(YearOfDay(n))             \* day of year, 1-based
MonthOfDoy(y, doy) == CHOOSE m \in 1..12 :
                     DaysBeforeMonth(y, m) < doy /\ doy <= DaysBeforeMonth(y, m) + MonthLen(y, m)
YmdOfDay(n)   == LET y == YearOfDay(n)
                     doy == n - DaysBeforeYear(y)
                     m == MonthOfDoy(y, doy)
                 IN <<y, m, doy - DaysBeforeMonth(y, m)>>

-----------------------------------------------------------------------------
(* Periods *)

Per(f, n) == [f |-> f, n |-> n]

\* regular period from (year, segment): consecutive numbering, PerYear per year
FromYS(f, y, s) == IF f \in RegularFreqs THEN Per(f, y * PerYear(f) + (s - 1))
                   ELSE IF f = "D" THEN Per(f, DaysBeforeYear(y) + s)
                   ELSE Per(f, s)

YearOf(p) == IF p.f \in RegularFreqs THEN p.n \div PerYear(p.f)
             ELSE IF p.f = "D" THEN YearOfDay(p.n) ELSE 0
SegOf(p)  == IF p.f \in RegularFreqs THEN (p.n % PerYear(p.f)) + 1
             ELSE IF p.f = "D" THEN DoyOfDay(p.n) ELSE p.n

Plus(p, k)  == Per(p.f, p.n + k)
Minus(p, q) == p.n - q.n            \* defined for p.f = q.f only
Lt(p, q)    == p.n < q.n

MonthsPer(f)       == 12 \div PerYear(f)                   \* regular frequencies
FirstMonth(f, s)   == (s - 1) * MonthsPer(f) + 1
LastMonth(f, s)    == s * MonthsPer(f)
MonthToSeg(f, m)   == ((m - 1) \div MonthsPer(f)) + 1

\* documented positions: start = 1st day of the first month, end = last day of the last month
StartYmd(p) == IF p.f = "D" THEN YmdOfDay(p.n)
               ELSE <<YearOf(p), FirstMonth(p.f, SegOf(p)), 1>>
EndYmd(p)   == IF p.f = "D" THEN YmdOfDay(p.n)
               ELSE LET y == YearOf(p) m == LastMonth(p.f, SegOf(p)) IN <<y, m, MonthLen(y, m)>>
StartDay(p) == IF p.f = "D" THEN p.n ELSE LET t == StartYmd(p) IN DayNumber(t[1], t[2], t[3])
EndDay(p)   == IF p.f = "D" THEN p.n ELSE LET t == EndYmd(p) IN DayNumber(t[1], t[2], t[3])

\* "middle" = the 15th day of the middle month; unambiguous for monthly and quarterly periods.
\* For half-yearly and yearly periods (even number of months) the documentation does not single
\* out a day; the property needs only a day of the period, so the admissible set is the period.
MiddleExact(p) == p.f \in {"M", "Q", "D"}
MiddleYmd(p)   == IF p.f = "D" THEN YmdOfDay(p.n)
                  ELSE <<YearOf(p), FirstMonth(p.f, SegOf(p)) + (MonthsPer(p.f) \div 2), 15>>
MiddleLo(p)    == IF MiddleExact(p) THEN LET t == MiddleYmd(p) IN DayNumber(t[1], t[2], t[3]) ELSE StartDay(p)
MiddleHi(p)    == IF MiddleExact(p) THEN MiddleLo(p) ELSE EndDay(p)

\* the period of frequency f that contains a calendar day
FromYmd(f, y, m, d) == IF f = "D" THEN Per(f, DayNumber(y, m, d))
                       ELSE Per(f, y * PerYear(f) + MonthToSeg(f, m) - 1)
Containing(f, day)  == LET t == YmdOfDay(day) IN FromYmd(f, t[1], t[2], t[3])

PosDayLo(p, pos) == CASE pos = "start" -> StartDay(p) [] pos = "end" -> EndDay(p) [] pos = "middle" -> MiddleLo(p)
PosDayHi(p, pos) == CASE pos = "start" -> StartDay(p) [] pos = "end" -> EndDay(p) [] pos = "middle" -> MiddleHi(p)

\* frequency conversion: the g-period containing the chosen position of p
Refreq(p, g, pos)   == Containing(g, PosDayLo(p, pos))
RefreqHi(p, g, pos) == Containing(g, PosDayHi(p, pos))

\* keyword shifts (series/_temporal.py documentation)
Soy(p)  == IF p.f = "D" THEN Per("D", DaysBeforeYear(YearOf(p)) + 1) ELSE FromYS(p.f, YearOf(p), 1)
ShiftKw(p, kw) == CASE kw = "yoy"  -> Plus(p, -PerYear(p.f))
                    [] kw = "soy"  -> Soy(p)
                    [] kw = "eopy" -> Plus(Soy(p), -1)
                    [] kw = "tty"  -> IF SegOf(p) = 1 THEN None ELSE Plus(p, -1)

-----------------------------------------------------------------------------
(* Text representations *)

Pad(n, w) == LET s == ToString(n) IN
             IF Len(s) >= w THEN s
             ELSE IF Len(s) = w - 1 THEN "0" \o s
             ELSE IF Len(s) = w - 2 THEN "00" \o s
             ELSE "000" \o s

YmdStr(t) == Pad(t[1], 4) \o "-" \o Pad(t[2], 2) \o "-" \o Pad(t[3], 2)

Sdmx(p) == CASE p.f = "Y" -> Pad(YearOf(p), 4)
             [] p.f = "H" -> Pad(YearOf(p), 4) \o "-H" \o ToString(SegOf(p))
             [] p.f = "Q" -> Pad(YearOf(p), 4) \o "-Q" \o ToString(SegOf(p))
             [] p.f = "M" -> Pad(YearOf(p), 4) \o "-" \o Pad(SegOf(p), 2)
             [] p.f = "D" -> YmdStr(YmdOfDay(p.n))
             [] p.f = "I" -> "(" \o ToString(p.n) \o ")"

\* shape of an SDMX string, from which the frequency is detected: (length, marker)
SdmxShape(p) == CASE p.f = "Y" -> <<4, "">> [] p.f = "H" -> <<7, "H">> [] p.f = "Q" -> <<7, "Q">>
                  [] p.f = "M" -> <<7, "-">> [] p.f = "D" -> <<10, "-">> [] p.f = "I" -> <<0, "(">>

Repr(p) == CASE p.f = "Y" -> "yy(" \o ToString(YearOf(p)) \o ")"
             [] p.f = "H" -> "hh(" \o ToString(YearOf(p)) \o "," \o ToString(SegOf(p)) \o ")"
             [] p.f = "Q" -> "qq(" \o ToString(YearOf(p)) \o "," \o ToString(SegOf(p)) \o ")"
             [] p.f = "M" -> "mm(" \o ToString(YearOf(p)) \o "," \o ToString(SegOf(p)) \o ")"
             [] p.f = "D" -> LET t == YmdOfDay(p.n) IN
                             "dd(" \o ToString(t[1]) \o "," \o ToString(t[2]) \o "," \o ToString(t[3]) \o ")"
             [] p.f = "I" -> "ii(" \o ToString(p.n) \o ")"

=============================================================================
