-------------------------- MODULE SpansHist --------------------------
(* `obs` is derived from the other variables; the model-checking configuration hides it (VIEW). *)
(* Span mutation histories: the receiver `cur` goes through in-place operations; a functional  *)
(* operation yields `res`, after which the history continues on the result.  `last` records the *)
(* operation taken so that simulated behaviours can be replayed into irispie.                    *)
EXTENDS Spans

VARIABLES cur, last, res, rej, obs
vars == <<cur, last, res, rej, obs>>

Ks       == {-3, -1, 1, 2}
Steps    == {-3, -2, -1, 1, 2, 3}
Bounds   == {Abs(n) : n \in 0..4} \cup {<<"start", 0>>, <<"end", 0>>}
Ctxs     == {<<0, 4>>, <<2, 7>>, <<3, 1>>}
Ops == {<<"reverse">>, <<"reversed">>, <<"copy">>}
       \cup {<<o, k>> : o \in {"shift_start", "shift_end", "shift", "add", "radd", "sub"}, k \in Ks}
       \cup {<<o, k>> : o \in {"rstep", "lstep"}, k \in Steps}
       \cup {<<"resolve", c[1], c[2]>> : c \in Ctxs}

Init == /\ cur \in {MkSpan(s, e, st) : s \in Bounds, e \in Bounds, st \in Steps}
        /\ last = <<"init">> /\ res = NoSpan /\ rej = FALSE
        /\ obs = [cur |-> Observe(cur), recv |-> Observe(NoSpan)]
Step(o) == \E a \in {Apply(cur, o)} :
             /\ last' = o /\ rej' = a.rej
             /\ res' = a.res
             /\ cur' = IF a.res # NoSpan THEN a.res ELSE a.sp
             \* obs: the span the history continues on, and the receiver of a functional operation
             /\ obs' = [cur |-> Observe(IF a.res # NoSpan THEN a.res ELSE a.sp),
                        recv |-> IF a.res # NoSpan \/ a.rej THEN Observe(a.sp) ELSE Observe(NoSpan)]
Next == \E o \in Ops : Step(o)
Spec == Init /\ [][Next]_vars

CONSTANTS WLo, WHi
InWindow == /\ cur.s[2] \in WLo..WHi /\ cur.e[2] \in WLo..WHi
WLoQ == -3
WLoT == -12
View == <<cur, last, res, rej>>
Inv_Enumerates == Law_Enumerates(cur)
Inv_Reverse    == Law_Reverse(cur)
Inv_Shift      == \A k \in Ks : Law_Shift(cur, k)
Inv_Resolve    == \A c \in Ctxs : Law_Resolve(cur, c[1], c[2])
\* action property: in-place operations keep "resolvedness"; only resolve removes open ends
Prop_OpenEnds  == [][last' [1] # "resolve" => (Resolved(cur') <=> Resolved(cur))]_vars
=============================================================================
