---------------------------- MODULE Series ----------------------------
(***************************************************************************)
(* irispie.Series as a period-indexed map (series/main.py and mixins).     *)
(*                                                                         *)
(* A series is [nv |-> number of variants, m |-> map], m a total function  *)
(* from U \X (1..nv) to values, U a finite window of abstract period       *)
(* numbers (the harness instantiates them in several frequencies).  A      *)
(* value is an integer or the model value NaN (missing).  The map is the   *)
(* whole meaning: what irispie stores (start period + array) must be the   *)
(* trimmed image of it, Canon(S).                                          *)
(*                                                                         *)
(* Apply(A, B, op) gives the outcome of a public operation with receiver   *)
(* A and (optional) argument B:                                            *)
(*   a   - the receiver afterwards         (method forms change it)        *)
(*   res - the returned series or NoSer    (functional forms)              *)
(*   val - the returned data or NoVal      (observers)                     *)
(*   exact_a / exact_res - whether the stored span must be the trimmed one *)
(*        (after writes and arithmetic) or need only cover the support.    *)
(* The argument B is never changed by any operation (frame condition).     *)
(***************************************************************************)
EXTENDS Integers, Sequences, FiniteSets, TLC

CONSTANTS NaN, None, NoSer, NoVal, AnyVal,     \* model values
          ULo, UHi                          \* universe of period numbers

U == ULo..UHi

Mk(nv, m)  == [nv |-> nv, m |-> m]
Vs(S)      == 1..S.nv
At(S, t, v) == IF t \in U THEN S.m[t, v] ELSE NaN
Empty(nv)  == Mk(nv, [cel \in U \X (1..nv) |-> NaN])
FromFn(nv, F(_, _)) == Mk(nv, [cel \in U \X (1..nv) |-> F(cel[1], cel[2])])

Obs(S, t)   == \E v \in Vs(S) : S.m[t, v] # NaN          \* some variant observed at t
Support(S)  == {t \in U : Obs(S, t)}
IsEmpty(S)  == Support(S) = {}
Min(X) == CHOOSE x \in X : \A y \in X : x <= y
Max(X) == CHOOSE x \in X : \A y \in X : x >= y
StartOf(S) == Min(Support(S))
EndOf(S)   == Max(Support(S))

\* what irispie must store: start period (None when empty) and the rows start..end
Canon(S) == IF IsEmpty(S) THEN [nv |-> S.nv, start |-> None, rows |-> <<>>]
            ELSE LET a == StartOf(S) b == EndOf(S) IN
                 [nv |-> S.nv, start |-> a,
                  rows |-> [i \in 1..(b - a + 1) |-> [v \in Vs(S) |-> S.m[a + i - 1, v]]]]

\* --- value arithmetic (missing propagates) -----------------------------------------------------
N2(f(_, _), x, y) == IF x = NaN \/ y = NaN THEN NaN ELSE f(x, y)
N1(f(_), x)       == IF x = NaN THEN NaN ELSE f(x)
AddF(x, y) == x + y
SubF(x, y) == x - y
MulF(x, y) == x * y
MaxF(x, y) == IF x >= y THEN x ELSE y
MinF(x, y) == IF x <= y THEN x ELSE y
NegF(x)  == -x
AbsF(x)  == IF x < 0 THEN -x ELSE x
SignF(x) == IF x > 0 THEN 1 ELSE IF x < 0 THEN -1 ELSE 0
Bin(f, x, y) == CASE f = "add" -> N2(AddF, x, y) [] f = "sub" -> N2(SubF, x, y) [] f = "mul" -> N2(MulF, x, y)
                  [] f = "maximum" -> N2(MaxF, x, y) [] f = "minimum" -> N2(MinF, x, y)
Un(f, x)     == CASE f = "neg" -> N1(NegF, x) [] f = "abs" -> N1(AbsF, x) [] f = "sign" -> N1(SignF, x)
                  [] f = "pos" -> x

\* variant broadcasting: a single variant pairs with every variant of the other operand
BV(S, v) == IF S.nv = 1 THEN 1 ELSE v
MaxNv(A, B) == IF A.nv >= B.nv THEN A.nv ELSE B.nv
Compatible(A, B) == A.nv = B.nv \/ A.nv = 1 \/ B.nv = 1

\* --- folds over small sequences ------------------------------------------------------------------
RECURSIVE SumSeq(_), ProdSeq(_), MaxSeq(_), MinSeq(_)
SumSeq(q)  == IF q = <<>> THEN 0 ELSE Head(q) + SumSeq(Tail(q))
ProdSeq(q) == IF q = <<>> THEN 1 ELSE Head(q) * ProdSeq(Tail(q))
MaxSeq(q)  == IF Len(q) = 1 THEN q[1] ELSE MaxF(Head(q), MaxSeq(Tail(q)))
MinSeq(q)  == IF Len(q) = 1 THEN q[1] ELSE MinF(Head(q), MinSeq(Tail(q)))
HasNaN(q)  == \E i \in 1..Len(q) : q[i] = NaN
NonNaN(q)  == SelectSeq(q, LAMBDA x : x # NaN)
Fold(f, q) == CASE f = "sum" -> SumSeq(q) [] f = "prod" -> ProdSeq(q) [] f = "max" -> MaxSeq(q) [] f = "min" -> MinSeq(q)

\* statistics across variants at one period (numpy semantics: nan* ignore missing; nansum of nothing
\* is 0, nanprod 1, nanmax/nanmin of nothing is missing)
Stat(f, q) == CASE f \in {"sum", "prod", "max", "min"} -> IF HasNaN(q) THEN NaN ELSE Fold(f, q)
                [] f = "nansum"  -> SumSeq(NonNaN(q))
                [] f = "nanprod" -> ProdSeq(NonNaN(q))
                [] f = "nanmax"  -> IF NonNaN(q) = <<>> THEN NaN ELSE MaxSeq(NonNaN(q))
                [] f = "nanmin"  -> IF NonNaN(q) = <<>> THEN NaN ELSE MinSeq(NonNaN(q))

\* --- results ---------------------------------------------------------------------------------------
Out(a, res, val, ea, er) == [a |-> a, res |-> res, val |-> val, rej |-> FALSE, exact_a |-> ea, exact_res |-> er]
Method(a)      == Out(a, NoSer, NoVal, TRUE, TRUE)
MethodLoose(a) == Out(a, NoSer, NoVal, FALSE, TRUE)
Fun(A, r)      == Out(A, r, NoVal, TRUE, TRUE)
FunLoose(A, r) == Out(A, r, NoVal, TRUE, FALSE)
Value(A, x)    == Out(A, NoSer, x, TRUE, TRUE)
Rejected(A)    == [a |-> A, res |-> NoSer, val |-> NoVal, rej |-> TRUE, exact_a |-> TRUE, exact_res |-> TRUE]
\* both a method form (changes the receiver) and a functional form (returns a new series) exist
Either(form, A, r)      == IF form = "method" THEN Method(r) ELSE Fun(A, r)
EitherLoose(form, A, r) == IF form = "method" THEN MethodLoose(r) ELSE FunLoose(A, r)

VarSel(S, vs) == IF vs = None THEN [i \in 1..S.nv |-> i] ELSE vs      \* sequence of variant numbers
InSeq(x, q)   == \E i \in 1..Len(q) : q[i] = x
PosIn(x, q)   == CHOOSE i \in 1..Len(q) : q[i] = x

\* --- the operations ----------------------------------------------------------------------------------

\* x[P, vs] : data at the periods P (a sequence, any order) for the selected variants
GetOp(A, P, vs) == LET V == VarSel(A, vs) IN
    Value(A, [i \in 1..Len(P) |-> [j \in 1..Len(V) |-> At(A, P[i], V[j])]])

\* x(P, vs) : a new series holding exactly those data
CallOp(A, P, vs) == LET V == VarSel(A, vs) IN
    Fun(A, FromFn(Len(V), LAMBDA t, j : IF InSeq(t, P) THEN At(A, t, V[j]) ELSE NaN))

\* x[P, vs] = X : X = <<"sc", scalar>>, or <<"mx", matrix>> with with one row per period and one column per selected
\* variant (a missing column repeats the last one); P without repetitions
SetOp(A, P, X, vs) == LET V == VarSel(A, vs)
                          cell(i, j) == IF X[1] = "sc" THEN X[2]
                                        ELSE X[2][i][IF j <= Len(X[2][i]) THEN j ELSE Len(X[2][i])]
                      IN
    Method(FromFn(A.nv, LAMBDA t, v : IF InSeq(t, P) /\ InSeq(v, V) THEN cell(PosIn(t, P), PosIn(v, V))
                                      ELSE A.m[t, v]))

\* time shift: the result at t is the original at t + k
ShiftOp(form, A, k) == Either(form, A, FromFn(A.nv, LAMBDA t, v : At(A, t + k, v)))

ClipOp(A, lo, hi) == MethodLoose(FromFn(A.nv, LAMBDA t, v :
                        IF (lo = None \/ t >= lo) /\ (hi = None \/ t <= hi) THEN A.m[t, v] ELSE NaN))

\* overlay: inside the span of B (first to last observation) B's values, missing ones included
InSpan(S, t) == ~IsEmpty(S) /\ StartOf(S) <= t /\ t <= EndOf(S)
Lay(Top, Bottom) == FromFn(MaxNv(Top, Bottom), LAMBDA t, v :
                        IF InSpan(Top, t) THEN Top.m[t, BV(Top, v)] ELSE Bottom.m[t, BV(Bottom, v)])
OverlayOp(form, A, B)  == IF Compatible(A, B) THEN Either(form, A, Lay(B, A)) ELSE Rejected(A)
UnderlayOp(form, A, B) == IF Compatible(A, B) THEN Either(form, A, Lay(A, B)) ELSE Rejected(A)

HstackOp(A, B) == Fun(A, FromFn(A.nv + B.nv, LAMBDA t, v : IF v <= A.nv THEN A.m[t, v] ELSE B.m[t, v - A.nv]))

BinSerOp(f, A, B) == IF Compatible(A, B)
                     THEN Fun(A, FromFn(MaxNv(A, B), LAMBDA t, v : Bin(f, A.m[t, BV(A, v)], B.m[t, BV(B, v)])))
                     ELSE Rejected(A)
BinScOp(f, A, c)  == Fun(A, FromFn(A.nv, LAMBDA t, v : Bin(f, A.m[t, v], c)))      \* x (+) c
RBinScOp(f, A, c) == Fun(A, FromFn(A.nv, LAMBDA t, v : Bin(f, c, A.m[t, v])))      \* c (+) x
UnOp(f, A)        == Fun(A, FromFn(A.nv, LAMBDA t, v : Un(f, A.m[t, v])))          \* -x, +x, abs(x)

\* element-wise functions: functional form irispie.f(x, ...) and method form x.f(...)
ElemOp(form, f, A, c) == EitherLoose(form, A, FromFn(A.nv, LAMBDA t, v :
                            IF f \in {"maximum", "minimum"} THEN Bin(f, A.m[t, v], c) ELSE Un(f, A.m[t, v])))

\* statistics across variants, period by period over the span of the series
StatOp(form, f, A) == Either(form, A, FromFn(1, LAMBDA t, v :
                            IF InSpan(A, t) THEN Stat(f, [j \in 1..A.nv |-> A.m[t, j]]) ELSE NaN))

\* moving window of length k over t-k+1..t
MovOp(form, f, A, k) == Either(form, A, FromFn(A.nv, LAMBDA t, v :
                            LET q == [i \in 1..k |-> At(A, t - k + i, v)] IN
                            IF HasNaN(q) THEN NaN ELSE Fold(f, q)))

\* fill_missing on the span lo..hi (default: the span of the series); only data inside the span are used
NextObs(A, v, t, hi) == {s \in U : s > t /\ s <= hi /\ A.m[s, v] # NaN}
PrevObs(A, v, t, lo) == {s \in U : s < t /\ s >= lo /\ A.m[s, v] # NaN}
FillVal(method, arg, A, B, v, t, lo, hi) ==
    LET nx == NextObs(A, v, t, hi)  pv == PrevObs(A, v, t, lo) IN
    CASE method = "constant" -> arg
      [] method = "next"     -> IF nx = {} THEN NaN ELSE A.m[Min(nx), v]
      [] method = "previous" -> IF pv = {} THEN NaN ELSE A.m[Max(pv), v]
      [] method = "nearest"  -> IF nx = {} /\ pv = {} THEN NaN
                                ELSE IF nx = {} THEN A.m[Max(pv), v]
                                ELSE IF pv = {} THEN A.m[Min(nx), v]
                                ELSE IF Min(nx) - t < t - Max(pv) THEN A.m[Min(nx), v]
                                ELSE IF Min(nx) - t > t - Max(pv) THEN A.m[Max(pv), v]
                                ELSE IF A.m[Min(nx), v] = A.m[Max(pv), v] THEN A.m[Max(pv), v] ELSE AnyVal   \* tie: unspecified
      [] method = "linear"   -> IF nx = {} /\ pv = {} THEN NaN
                                ELSE IF nx = {} THEN A.m[Max(pv), v]          \* flat beyond the last observation
                                ELSE IF pv = {} THEN A.m[Min(nx), v]
                                ELSE LET p == Max(pv) n == Min(nx)
                                         num == A.m[p, v] * (n - p) + (A.m[n, v] - A.m[p, v]) * (t - p) IN
                                     IF num % (n - p) = 0 THEN num \div (n - p) ELSE <<num, n - p>>   \* exact rational
      [] method = "from_series" -> B.m[t, 1]
FillOp(form, method, arg, A, B, span) ==
    IF span = None /\ IsEmpty(A) THEN Either(form, A, A)
    ELSE LET lo == IF span = None THEN StartOf(A) ELSE span[1]
             hi == IF span = None THEN EndOf(A) ELSE span[2] IN
         Either(form, A, FromFn(A.nv, LAMBDA t, v :
             IF t >= lo /\ t <= hi /\ A.m[t, v] = NaN THEN FillVal(method, arg, A, B, v, t, lo, hi) ELSE A.m[t, v]))

\* autoregressive extrapolation x_t = sum_i rho_i x_{t-i} + c over lo..hi, initial condition from the series
RECURSIVE Extrap(_, _, _, _, _, _)
Extrap(A, v, rho, c, lo, t) ==          \* value at t >= lo - Len(rho)
    IF t < lo THEN At(A, t, v)
    ELSE LET q == [i \in 1..Len(rho) |-> Extrap(A, v, rho, c, lo, t - i)] IN
         IF HasNaN(q) THEN NaN ELSE SumSeq([i \in 1..Len(rho) |-> rho[i] * q[i]]) + c
ExtrapOp(form, A, rho, c, lo, hi) ==
    IF IsEmpty(A) \/ hi < lo THEN Either(form, A, A)
    ELSE Either(form, A, FromFn(A.nv, LAMBDA t, v :
             IF t >= lo /\ t <= hi THEN Extrap(A, v, rho, c, lo, t) ELSE A.m[t, v]))

\* replace_where(test, new): every observation that passes the test is overwritten IN PLACE (a missing value passes no test), then trimmed
RwTest(f, x) == CASE f = "neg" -> x < 0 [] f = "pos" -> x > 0
RwOp(A, f, new) == Method(FromFn(A.nv, LAMBDA t, v : IF A.m[t, v] # NaN /\ RwTest(f, A.m[t, v]) THEN new ELSE A.m[t, v]))

Apply(A, B, op) ==
    CASE op[1] = "get"      -> GetOp(A, op[2], op[3])
      [] op[1] = "call"     -> CallOp(A, op[2], op[3])
      [] op[1] = "set"      -> SetOp(A, op[2], op[3], op[4])
      [] op[1] = "shift"    -> ShiftOp(op[2], A, op[3])
      [] op[1] = "clip"     -> ClipOp(A, op[2], op[3])
      [] op[1] = "overlay"  -> OverlayOp(op[2], A, B)
      [] op[1] = "underlay" -> UnderlayOp(op[2], A, B)
      [] op[1] = "hstack"   -> HstackOp(A, B)
      [] op[1] = "binser"   -> BinSerOp(op[2], A, B)
      [] op[1] = "binsc"    -> BinScOp(op[2], A, op[3])
      [] op[1] = "rbinsc"   -> RBinScOp(op[2], A, op[3])
      [] op[1] = "un"       -> UnOp(op[2], A)
      [] op[1] = "elem"     -> ElemOp(op[2], op[3], A, op[4])
      [] op[1] = "stat"     -> StatOp(op[2], op[3], A)
      [] op[1] = "mov"      -> MovOp(op[2], op[3], A, op[4])
      [] op[1] = "fill"     -> FillOp(op[2], op[3], op[4], A, B, op[5])
      [] op[1] = "extrap"   -> ExtrapOp(op[2], A, op[3], op[4], op[5], op[6])
      [] op[1] = "copy"     -> Fun(A, A)
      [] op[1] = "rebuild"  -> Fun(A, A)        \* a new series constructed from the start period and the data array of the receiver
      [] op[1] = "rw"       -> RwOp(A, op[2], op[3])

UsesB(op) == op[1] \in {"overlay", "underlay", "hstack", "binser"} \/ (op[1] = "fill" /\ op[3] = "from_series")

\* --- laws of the property, stated on the outcome of an operation -----------------------------------
\* (1) functional forms and observers leave the receiver unchanged
Law_Pure(A, B, op) == LET o == Apply(A, B, op) IN (o.res # NoSer \/ o.val # NoVal \/ o.rej) => o.a = A
\* (2) a write changes exactly the addressed cells
Law_WriteFrame(A, B, op) == op[1] = "set" =>
    LET o == Apply(A, B, op) V == VarSel(A, op[4]) IN
    \A t \in U, v \in Vs(A) : (~InSeq(t, op[2]) \/ ~InSeq(v, V)) => o.a.m[t, v] = A.m[t, v]
\* (3) a read returns the stored value or NaN
Law_Read(A, B, op) == op[1] = "get" =>
    LET o == Apply(A, B, op) V == VarSel(A, op[3]) IN
    \A i \in 1..Len(op[2]), j \in 1..Len(V) : o.val[i][j] = At(A, op[2][i], V[j])
\* (4) the stored span covers every observation and, in canonical form, has no all-missing edge
Law_Canon(S) == LET c == Canon(S) IN
    IF c.start = None THEN IsEmpty(S)
    ELSE /\ \E v \in Vs(S) : c.rows[1][v] # NaN
         /\ \E v \in Vs(S) : c.rows[Len(c.rows)][v] # NaN
         /\ \A t \in U, v \in Vs(S) : S.m[t, v] # NaN => (t >= c.start /\ t < c.start + Len(c.rows))
         /\ \A i \in 1..Len(c.rows), v \in Vs(S) : c.rows[i][v] = S.m[c.start + i - 1, v]
\* (5) time shifts move values by exactly k periods; binary operators act period by period
Law_Shift(A, B, op) == op[1] = "shift" =>
    LET o == Apply(A, B, op) r == IF op[2] = "method" THEN o.a ELSE o.res IN
    \A t \in U, v \in Vs(A) : (t + op[3] \in U) => r.m[t, v] = A.m[t + op[3], v]

=============================================================================
