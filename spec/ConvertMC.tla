-------------------------- MODULE ConvertMC --------------------------
(* Scenario enumerator for Convert.tla: one behaviour = one scenario + Compute.                  *)
EXTENDS Convert
VARIABLES sc, out, done
vars == <<sc, out, done>>

CalFreqs == {"Y", "H", "Q", "M", "D"}
Rank(f) == CASE f = "Y" -> 1 [] f = "H" -> 2 [] f = "Q" -> 3 [] f = "M" -> 4 [] f = "D" -> 5
\* value generator: small integers, never zero, with sign changes
Gen(i, v) == LET x == ((i * i + 3 * v * i + v) % 7) - 2 IN IF x = 0 THEN 5 ELSE x
NvMasks(len) == {<<1, {}>>, <<1, {1}>>, <<1, {len}>>, <<1, {(len \div 2) + 1}>>, <<1, {1, 2}>>,
                 <<2, {1}>>, <<2, {(len \div 2) + 1, len}>>}
Rows(len, nv, mask) == [i \in 1..len |-> [v \in 1..nv |-> IF i \in mask /\ (v = 1 \/ i % 2 = 0) THEN NaN ELSE Gen(i, v)]]

Starts(f) == CASE f = "D" -> {DayNumber(2020, 2, 27), DayNumber(2019, 12, 30), DayNumber(2020, 1, 1), DayNumber(2019, 3, 1),
                              DayNumber(2020, 6, 29), DayNumber(2021, 2, 27),
                              \* samples that end exactly on 31 December of a leap year (lengths 3, 5, 4 below)
                              DayNumber(2020, 12, 29), DayNumber(2020, 12, 27), DayNumber(2020, 12, 28)}
               [] f = "M" -> {FromYS(f, 2019, s).n : s \in {1, 2, 3, 4, 6, 7, 9, 12}}
               [] OTHER   -> {FromYS(f, 2019, s).n : s \in 1..PerYear(f)} \cup {FromYS(f, 2020, PerYear(f)).n}
AggLens(f, tf) == IF f = "D" THEN (IF tf = "M" THEN {3, 35, 64} ELSE IF tf = "Q" THEN {5, 95} ELSE {4, 190})
                  ELSE LET k == PerYear(f) \div PerYear(tf) IN {1, k, k + 1, 2 * k + 1}
AggOpts == {<<m, d, <<>> >> : m \in {"mean", "sum", "prod", "first", "last", "min", "max"}, d \in BOOLEAN}
           \cup {<<m, FALSE, sel>> : m \in {"sum", "last"}, sel \in {<<0>>, <<1, 0>>}}
           \cup {<<"mean", TRUE, <<0, 1>> >>}
AggPairs == {ft \in CalFreqs \X CalFreqs : Rank(ft[1]) > Rank(ft[2])}
AggScenOf(ft) == UNION {UNION {
              {[kind |-> "agg", f |-> ft[1], tf |-> ft[2], n0 |-> n0, len |-> len, nv |-> nm[1], mask |-> nm[2],
                method |-> o[1], discard |-> o[2], select |-> o[3]] : nm \in NvMasks(len),
                   o \in {x \in AggOpts : ~(ft[1] = "D" /\ x[1] = "prod")}}   \* products of up to 366 values overflow TLC integers
              : len \in AggLens(ft[1], ft[2])} : n0 \in Starts(ft[1])}

DisPairs == {ft \in CalFreqs \X CalFreqs : Rank(ft[1]) < Rank(ft[2])}
DisStarts(f) == CASE f = "Y" -> {2019, 2020} [] f = "M" -> {FromYS(f, 2019, 12).n, FromYS(f, 2020, 2).n, FromYS(f, 2021, 2).n}
                  [] OTHER -> {FromYS(f, 2019, PerYear(f)).n, FromYS(f, 2020, 1).n}
DisScenOf(ft) == UNION {UNION {
              {[kind |-> "dis", f |-> ft[1], tf |-> ft[2], n0 |-> n0, len |-> len, nv |-> nm[1], mask |-> nm[2], method |-> m]
                 : nm \in NvMasks(len), m \in {"flat", "first", "middle", "last"}}
              : len \in {1, 2, 3}} : n0 \in DisStarts(ft[1])}

Src(s) == [f |-> s.f, n0 |-> s.n0, rows |-> Rows(s.len, s.nv, s.mask)]
WithTriple(r) == IF r.n0 = None THEN [f |-> r.f, n0 |-> None, ys |-> <<>>, rows |-> <<>>]
                 ELSE [f |-> r.f, n0 |-> r.n0, ys |-> <<YearOf(Per(r.f, r.n0)), SegOf(Per(r.f, r.n0))>>, rows |-> r.rows]

\* the scenario is chosen in two steps so that TLC enumerates the large sets on all workers
Init == /\ sc \in {[kind |-> "pair", agg |-> TRUE, ft |-> ft] : ft \in AggPairs} \cup {[kind |-> "pair", agg |-> FALSE, ft |-> ft] : ft \in DisPairs}
        /\ out = <<>> /\ done = FALSE
Pick == /\ sc.kind = "pair" /\ UNCHANGED <<out, done>>
        /\ sc' \in (IF sc.agg THEN AggScenOf(sc.ft) ELSE DisScenOf(sc.ft))
Compute == /\ sc.kind # "pair" /\ ~done /\ done' = TRUE /\ UNCHANGED sc
           /\ \E S \in {Src(sc)} :
                IF sc.kind = "agg"
                THEN out' = [src |-> WithTriple(S), res |-> WithTriple(Aggregate(S, sc.tf, sc.method, sc.discard, sc.select)),
                             law |-> Law_Membership(S, sc.tf)]
                ELSE out' = [src |-> WithTriple(S), res |-> WithTriple(Disaggregate(S, sc.tf, sc.method)),
                             law |-> (sc.method # "flat" \/ sc.tf = "D" \/ Law_RoundTrip(S, sc.tf))]
Next == Pick \/ Compute
Spec == Init /\ [][Next]_vars
Inv_Law == done => out.law
=============================================================================
