CONSTANTS
  Deep <- DeepOn
  NaN = NaN
SPECIFICATION Spec
INVARIANT Inv_Ok
INVARIANT Inv_SmoothMatchesData
INVARIANT Inv_VarNonNeg
INVARIANT Inv_SmoothMeasurementEq
INVARIANT Inv_SmoothTransitionEq
CHECK_DEADLOCK FALSE
