------------------------------ MODULE SteadyMC ------------------------------
(***************************************************************************)
(* Steady states of nonlinear / growth models (simultaneous/_steady.py,    *)
(* steadiers/, fords/steadiers.py, plans/steady_plans.py).                 *)
(*                                                                         *)
(* Library N: each instance has quantities, parameter values, steady       *)
(* equations as trees (Aldi.tla syntax), flags (linear, flat), an optional *)
(* steady plan, and its exact steady solution: per variable a level and a  *)
(* change (difference per period; gross rate for log-variables; for        *)
(* variables in "logrep" the level is kept as its logarithm).  The         *)
(* solution is a certificate that TLC verifies: Inv_SteadyEqHold - on the  *)
(* path level + change*k (level*change^k for log-variables) every steady   *)
(* equation has zero residual at k = 0..3, in exact rational arithmetic -  *)
(* and Inv_PlanRespected.  The harness runs solve_steady in the listed     *)
(* configurations and compares levels and changes.                         *)
(***************************************************************************)
EXTENDS Aldi, FiniteSets
VARIABLES sc, out, done
vars == <<sc, out, done>>
CNeg1 == -1
CNeg2 == -2

V(n, s) == <<"var", n, s>>
P(n) == <<"par", n>>
N(i) == Num(R(i))
Lg(n, s) == <<"fn", "log", <<"var", n, s>> >>
Eq(l, r) == [lhs |-> l, rhs |-> r]

Lib == [
  S1 |-> [vars |-> <<"x", "y", "z">>, logv |-> {}, logrep |-> {}, pars |-> <<>>, linear |-> FALSE, flat |-> TRUE,
          eqs |-> << Eq(V("x", 0), <<"add", <<"mul", Num(Q(1, 2)), V("x", CNeg1)>>, N(1)>>),
                     Eq(V("y", 0), <<"sub", <<"pow", V("x", 0), N(2)>>, N(1)>>),
                     Eq(<<"mul", V("z", 0), V("y", 0)>>, N(6)) >>,
          fix |-> <<>>, swap |-> <<>>,
          level |-> [x |-> R(2), y |-> R(3), z |-> R(2)], change |-> [x |-> RZero, y |-> RZero, z |-> RZero], parsol |-> <<>>, mvars |-> <<>>, meqs |-> <<>>, xvars |-> <<>>],
  S2 |-> [vars |-> <<"a", "y">>, logv |-> {"a", "y"}, logrep |-> {}, pars |-> << <<"g", Q(3, 2)>> >>, linear |-> FALSE, flat |-> FALSE,
          eqs |-> << Eq(<<"div", V("a", 0), V("a", CNeg1)>>, P("g")),
                     Eq(V("y", 0), <<"mul", N(2), V("a", 0)>>) >>,
          fix |-> << <<"a", R(2)>> >>, swap |-> <<>>,
          level |-> [a |-> R(2), y |-> R(4)], change |-> [a |-> Q(3, 2), y |-> Q(3, 2)], parsol |-> <<>>, mvars |-> <<>>, meqs |-> <<>>, xvars |-> <<>>,
          \* a second parameterisation with its own certificate: the harness runs both as the two variants of ONE model (different growth rates)
          alt |-> [pars |-> << <<"g", R(2)>> >>, level |-> [a |-> R(2), y |-> R(4)], change |-> [a |-> R(2), y |-> R(2)]]],
  S3 |-> [vars |-> <<"k", "c">>, logv |-> {}, logrep |-> {}, pars |-> << <<"d", Q(1, 2)>> >>, linear |-> TRUE, flat |-> FALSE,
          eqs |-> << Eq(V("k", 0), <<"add", V("k", CNeg1), P("d")>>),
                     Eq(V("c", 0), <<"add", <<"mul", N(2), V("k", 0)>>, N(1)>>) >>,
          fix |-> << <<"k", R(3)>> >>, swap |-> <<>>,
          level |-> [k |-> R(3), c |-> R(7)], change |-> [k |-> Q(1, 2), c |-> R(1)], parsol |-> <<>>, mvars |-> <<>>, meqs |-> <<>>, xvars |-> <<>>],
  S4 |-> [vars |-> <<"x", "y">>, logv |-> {}, logrep |-> {}, pars |-> <<>>, linear |-> TRUE, flat |-> TRUE,
          eqs |-> << Eq(V("x", 0), <<"add", <<"mul", Num(Q(1, 2)), V("x", CNeg1)>>, N(1)>>),
                     Eq(V("y", 0), <<"add", <<"mul", Num(Q(1, 2)), V("y", 1)>>, V("x", 0)>>) >>,
          fix |-> <<>>, swap |-> <<>>,
          level |-> [x |-> R(2), y |-> R(4)], change |-> [x |-> RZero, y |-> RZero], parsol |-> <<>>, mvars |-> <<>>, meqs |-> <<>>, xvars |-> <<>>],
  \* linear in logs, second lag and second lead; levels are kept as logarithms (the level itself is exp(2), exp(1))
  S5 |-> [vars |-> <<"a", "b">>, logv |-> {"a", "b"}, logrep |-> {"a", "b"}, pars |-> <<>>, linear |-> TRUE, flat |-> TRUE,
          eqs |-> << Eq(Lg("a", 0), <<"add", <<"mul", Num(Q(1, 2)), Lg("a", CNeg2)>>, N(1)>>),
                     Eq(Lg("b", 0), <<"sub", Lg("a", 2), N(1)>>) >>,
          fix |-> <<>>, swap |-> <<>>,
          level |-> [a |-> R(2), b |-> R(1)], change |-> [a |-> RZero, b |-> RZero], parsol |-> <<>>, mvars |-> <<>>, meqs |-> <<>>, xvars |-> <<>>],
  \* exogenize x at 4 and endogenize the parameter p
  S6 |-> [vars |-> <<"x", "y">>, logv |-> {}, logrep |-> {}, pars |-> << <<"p", Q(1, 4)>> >>, linear |-> FALSE, flat |-> TRUE,
          eqs |-> << Eq(V("x", 0), <<"add", <<"mul", P("p"), V("x", CNeg1)>>, N(1)>>),
                     Eq(V("y", 0), <<"mul", N(2), V("x", 0)>>) >>,
          fix |-> <<>>, swap |-> << <<"x", R(4), "p">> >>,
          level |-> [x |-> R(4), y |-> R(8)], change |-> [x |-> RZero, y |-> RZero], parsol |-> << <<"p", Q(3, 4)>> >>, mvars |-> <<>>, meqs |-> <<>>, xvars |-> <<>>],
  \* flat mode with an exogenous variable that carries an assigned steady change (to be ignored: the flat path is constant) and enters with a lag
  S7 |-> [vars |-> <<"x", "y">>, logv |-> {}, logrep |-> {}, pars |-> <<>>, linear |-> FALSE, flat |-> TRUE,
          eqs |-> << Eq(V("x", 0), <<"add", <<"mul", Num(Q(1, 2)), V("x", CNeg1)>>, V("z", CNeg1)>>),
                     Eq(V("y", 0), <<"add", <<"mul", V("x", 0), V("x", 0)>>, V("z", 0)>>) >>,
          fix |-> <<>>, swap |-> <<>>,
          level |-> [x |-> R(2), y |-> R(5), z |-> R(1)], change |-> [x |-> RZero, y |-> RZero, z |-> RZero], parsol |-> <<>>,
          mvars |-> <<>>, meqs |-> <<>>, xvars |-> << <<"z", R(1), Q(1, 5)>> >>],
  \* linear growth with a unit root and drift, measurement equations loading on the trending variable (levels and changes of the measurement variables)
  S8 |-> [vars |-> <<"k", "c">>, logv |-> {}, logrep |-> {}, pars |-> << <<"d", Q(3, 5)>> >>, linear |-> TRUE, flat |-> FALSE,
          eqs |-> << Eq(V("k", 0), <<"add", V("k", CNeg1), P("d")>>),
                     Eq(V("c", 0), <<"add", <<"mul", Num(Q(1, 2)), V("c", CNeg1)>>, V("k", 0)>>) >>,
          fix |-> <<>>, swap |-> <<>>,
          \* k is pinned by its assigned level 0 (a unit root: the level is kept); c = 1/2 c{-1} + k: c_t = 2 k_t - 2 d  on the path
          level |-> [k |-> RZero, c |-> Q(-6, 5), ob |-> R(1), oc |-> Q(-9, 5)], change |-> [k |-> Q(3, 5), c |-> Q(6, 5), ob |-> Q(6, 5), oc |-> Q(9, 5)], parsol |-> <<>>,
          mvars |-> <<"ob", "oc">>,
          meqs |-> << Eq(V("ob", 0), <<"add", <<"mul", N(2), V("k", 0)>>, N(1)>>), Eq(V("oc", 0), <<"add", V("c", 0), V("k", CNeg1)>>) >>,
          \* the level of a unit-root variable is not determined by the equations: which solution of the family is returned is not
          \* specified (the certificate is the member with k = 0); levels are then not compared, changes and the equations are
          xvars |-> <<>>, freelevel |-> TRUE],
  \* a simultaneous core that cannot be peeled from the front (x, y) followed by a recursive tail two levels deep (p, then q which needs p)
  S9 |-> [vars |-> <<"q", "x", "p", "y">>, logv |-> {}, logrep |-> {}, pars |-> <<>>, linear |-> FALSE, flat |-> TRUE,
          eqs |-> << Eq(V("q", 0), <<"mul", V("p", 0), V("y", CNeg1)>>),
                     Eq(<<"mul", V("x", 0), V("y", 0)>>, N(6)),
                     Eq(V("p", 0), <<"add", V("x", CNeg1), V("y", 0)>>),
                     Eq(V("y", 0), <<"add", V("x", 0), N(1)>>) >>,
          fix |-> <<>>, swap |-> <<>>,
          level |-> [q |-> R(15), x |-> R(2), p |-> R(5), y |-> R(3)], change |-> [q |-> RZero, x |-> RZero, p |-> RZero, y |-> RZero], parsol |-> <<>>,
          mvars |-> <<>>, meqs |-> <<>>, xvars |-> <<>>],
  \* a cubic with one real root (-2) and a positive local minimum between the default starting value and the root: a trap for
  \* least-squares type solvers, which must then fail rather than return the stationary point
  S10 |-> [vars |-> <<"x", "y">>, logv |-> {}, logrep |-> {}, pars |-> << <<"a", R(4)>> >>, linear |-> FALSE, flat |-> TRUE,
          eqs |-> << Eq(<<"add", <<"sub", <<"pow", V("x", 0), N(3)>>, <<"mul", N(2), V("x", CNeg1)>> >>, P("a")>>, N(0)),
                     Eq(V("y", 0), <<"add", V("x", 0), N(1)>>) >>,
          fix |-> <<>>, swap |-> <<>>,
          level |-> [x |-> R(-2), y |-> R(-1)], change |-> [x |-> RZero, y |-> RZero], parsol |-> <<>>,
          mvars |-> <<>>, meqs |-> <<>>, xvars |-> <<>>, altstart |-> <<R(-3), R(1)>>],
  \* a trend whose change the equations do not pin down (x - x{-1} = x{-1} - x{-2}): the plan fixes level AND change (SteadyPlan.fix)
  S11 |-> [vars |-> <<"x", "y">>, logv |-> {}, logrep |-> {}, pars |-> <<>>, linear |-> FALSE, flat |-> FALSE,
          eqs |-> << Eq(<<"sub", V("x", 0), V("x", CNeg1)>>, <<"sub", V("x", CNeg1), V("x", CNeg2)>>),
                     Eq(V("y", 0), <<"add", V("x", 0), N(1)>>) >>,
          fix |-> <<>>, swap |-> <<>>, fixboth |-> << <<"x", R(3), Q(1, 2)>> >>,
          level |-> [x |-> R(3), y |-> R(4)], change |-> [x |-> Q(1, 2), y |-> Q(1, 2)], parsol |-> <<>>,
          mvars |-> <<>>, meqs |-> <<>>, xvars |-> <<>>] ]
Ids == {"S1", "S2", "S3", "S4", "S5", "S6", "S7", "S8", "S9", "S10", "S11"}
FixBoth(m) == IF "fixboth" \in DOMAIN m THEN m.fixboth ELSE <<>>
\* the instance under its alternative parameterisation (itself when there is none)
AltOf(m) == IF "alt" \in DOMAIN m THEN [m EXCEPT !.pars = m.alt.pars, !.level = m.alt.level, !.change = m.alt.change] ELSE m

ParVal(m, n) == LET S == {i \in 1..Len(m.parsol) : m.parsol[i][1] = n} IN
                IF S # {} THEN m.parsol[CHOOSE i \in S : TRUE][2]
                ELSE m.pars[CHOOSE i \in 1..Len(m.pars) : m.pars[i][1] = n][2]
RECURSIVE RPowI(_, _)
RPowI(a, n) == IF n = 0 THEN ROne ELSE IF n > 0 THEN RMul(a, RPowI(a, n - 1)) ELSE RDiv(RPowI(a, n + 1), a)
\* value of a variable on its steady path at date k (relative), k may be negative
OnPath(m, n, k) == IF n \in m.logrep THEN RAdd(m.level[n], RMul(R(k), m.change[n]))          \* the logarithm: log level + k log change
                   ELSE IF n \in m.logv THEN RMul(m.level[n], RPowI(m.change[n], k))
                   ELSE RAdd(m.level[n], RMul(R(k), m.change[n]))
RECURSIVE SVal(_, _, _)
SVal(e, m, k) ==
    CASE e[1] = "num" -> e[2]
      [] e[1] = "par" -> ParVal(m, e[2])
      [] e[1] = "var" -> OnPath(m, e[2], k + e[3])
      [] e[1] = "neg" -> RNeg(SVal(e[2], m, k))
      [] e[1] = "add" -> RAdd(SVal(e[2], m, k), SVal(e[3], m, k))
      [] e[1] = "sub" -> RSub(SVal(e[2], m, k), SVal(e[3], m, k))
      [] e[1] = "mul" -> RMul(SVal(e[2], m, k), SVal(e[3], m, k))
      [] e[1] = "div" -> RDiv(SVal(e[2], m, k), SVal(e[3], m, k))
      [] e[1] = "pow" -> RPowI(SVal(e[2], m, k), e[3][2][1])
      [] e[1] = "fn"  -> OnPath(m, e[3][2], k + e[3][3])       \* log(name{s}) of a variable kept as its logarithm

Decl(m) == << "!transition_variables", LET RECURSIVE J(_) J(i) == IF i > Len(m.vars) THEN "" ELSE (IF i = 1 THEN "" ELSE ", ") \o m.vars[i] \o J(i + 1) IN J(1) >>
           \o (IF m.logv = {} THEN <<>> ELSE << "!log-variables", LET q == SelectSeq(m.vars, LAMBDA n : n \in m.logv)
                                                                       RECURSIVE J(_) J(i) == IF i > Len(q) THEN "" ELSE (IF i = 1 THEN "" ELSE ", ") \o q[i] \o J(i + 1) IN J(1) >>)
           \o (IF m.pars = <<>> THEN <<>> ELSE << "!parameters", LET RECURSIVE J(_) J(i) == IF i > Len(m.pars) THEN "" ELSE (IF i = 1 THEN "" ELSE ", ") \o m.pars[i][1] \o J(i + 1) IN J(1) >>)
           \o (IF m.xvars = <<>> THEN <<>> ELSE << "!exogenous-variables", LET RECURSIVE J(_) J(i) == IF i > Len(m.xvars) THEN "" ELSE (IF i = 1 THEN "" ELSE ", ") \o m.xvars[i][1] \o J(i + 1) IN J(1) >>)
           \o << "!transition_equations" >> \o [i \in 1..Len(m.eqs) |-> TreeText(m.eqs[i].lhs) \o " = " \o TreeText(m.eqs[i].rhs) \o ";"]
           \o (IF m.mvars = <<>> THEN <<>> ELSE << "!measurement_variables", LET RECURSIVE J(_) J(i) == IF i > Len(m.mvars) THEN "" ELSE (IF i = 1 THEN "" ELSE ", ") \o m.mvars[i] \o J(i + 1) IN J(1),
                                                   "!measurement_equations" >> \o [i \in 1..Len(m.meqs) |-> TreeText(m.meqs[i].lhs) \o " = " \o TreeText(m.meqs[i].rhs) \o ";"])

Init == sc \in Ids /\ out = <<>> /\ done = FALSE
Compute == /\ ~done /\ done' = TRUE /\ UNCHANGED sc
           /\ \E m \in {Lib[sc]} :
                out' = [src |-> Decl(m), m |-> m,
                        holds |-> /\ \A i \in 1..Len(m.eqs), k \in 0..3 : SVal(m.eqs[i].lhs, m, k) = SVal(m.eqs[i].rhs, m, k)
                                  /\ \A i \in 1..Len(m.eqs), k \in 0..3 : SVal(m.eqs[i].lhs, AltOf(m), k) = SVal(m.eqs[i].rhs, AltOf(m), k)
                                  /\ \A i \in 1..Len(m.meqs), k \in 0..3 : SVal(m.meqs[i].lhs, m, k) = SVal(m.meqs[i].rhs, m, k)
                                  \* exogenous variables keep their assigned level; in flat mode their path is constant whatever change was assigned
                                  /\ \A i \in 1..Len(m.xvars) : m.level[m.xvars[i][1]] = m.xvars[i][2] /\ (m.flat => m.change[m.xvars[i][1]] = RZero),
                        plan_ok |-> /\ \A i \in 1..Len(m.fix) : m.level[m.fix[i][1]] = m.fix[i][2] /\ AltOf(m).level[m.fix[i][1]] = m.fix[i][2]
                                    /\ \A i \in 1..Len(FixBoth(m)) : m.level[FixBoth(m)[i][1]] = FixBoth(m)[i][2] /\ m.change[FixBoth(m)[i][1]] = FixBoth(m)[i][3]
                                    /\ \A i \in 1..Len(m.swap) : m.level[m.swap[i][1]] = m.swap[i][2]
                                                                 /\ \E j \in 1..Len(m.parsol) : m.parsol[j][1] = m.swap[i][3]]
Next == Compute
Spec == Init /\ [][Next]_vars
\* C05: on the steady path every steady equation holds at every date
Inv_SteadyEqHold == done => out.holds
\* fixed / exogenized quantities keep their assigned values; endogenized parameters take the value that closes the equations
Inv_PlanRespected == done => out.plan_ok
=============================================================================
