CONSTANTS
  Deep <- DeepOn
SPECIFICATION PSpec
INVARIANT Inv_SwapRecovers
INVARIANT Inv_PlannedPathHolds
CHECK_DEADLOCK FALSE
