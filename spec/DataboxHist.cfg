CONSTANTS
  NaN = NaN
  None = None
  NoSer = NoSer
  NoVal = NoVal
  AnyVal = AnyVal
  NoItem = NoItem
  ULo <- CNeg8
  UHi = 12
  Handles = {"h1", "h2", "h3"}
SPECIFICATION Spec
INVARIANT Inv_Typed
PROPERTY Prop_HeapFrame
PROPERTY Prop_BoxFrame
PROPERTY Prop_Fresh
PROPERTY Prop_NamesFrame
CHECK_DEADLOCK FALSE
