CONSTANTS
  QuickMod = 1
  QuickSel = 0
SPECIFICATION Spec
INVARIANT Inv_ExpandTotal
CHECK_DEADLOCK FALSE
