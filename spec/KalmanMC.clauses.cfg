CONSTANTS
  NaN = NaN
SPECIFICATION SpecC
INVARIANT Inv_Ok
CHECK_DEADLOCK FALSE
