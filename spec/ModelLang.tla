----------------------------- MODULE ModelLang -----------------------------
(***************************************************************************)
(* The irispie model language, specified generatively                      *)
(* (parsers/preparser.py, models.py, _pseudofunctions.py, _shifts.py,      *)
(* _substitutions.py, equations.py, sources.py).                           *)
(*                                                                         *)
(* A STRUCTURED MODEL is the meaning: quantities by kind with descriptions *)
(* and log status, and equations as trees (Aldi.tla syntax) that may       *)
(* contain macro nodes <<"mac", f, arg, k>> for the pseudofunctions, with  *)
(* an optional steady-state variant.  Expand gives the documented meaning  *)
(* of a macro (Shift moves every name in its argument).  Render(m, ch)     *)
(* produces the source text for a vector ch of syntactic choices: keyword  *)
(* spelling, bracket style, explicit '+' in leads, = / :=, ^ / **,         *)
(* separators, comments and continuations, !log-variables as a list or as  *)
(* !all-but, pseudofunction spellings and default shifts, and factorings   *)
(* (!for with anonymous / named / contextual control, !if, $substitution$).*)
(* The meaning of a text is, by definition, the structured model rendering *)
(* to it; Inv_Unambiguous says that this is well defined.                  *)
(***************************************************************************)
EXTENDS Aldi, FiniteSets

Mac(f, a, k) == <<"mac", f, a, k>>
Dflt == 99            \* "no shift argument given"
DefaultShift(f) == IF f \in {"mov_sum", "mov_avg", "mov_prod"} THEN -4 ELSE -1

RECURSIVE ShiftAll(_, _)
ShiftAll(e, k) ==
    CASE e[1] \in {"num", "par"} -> e
      [] e[1] = "var" -> <<"var", e[2], e[3] + k>>
      [] e[1] = "neg" -> <<"neg", ShiftAll(e[2], k)>>
      [] e[1] \in {"add", "sub", "mul", "div", "pow"} -> <<e[1], ShiftAll(e[2], k), ShiftAll(e[3], k)>>
      [] e[1] = "fn" -> <<"fn", e[2], ShiftAll(e[3], k)>>
      [] e[1] = "mac" -> <<"mac", e[2], ShiftAll(e[3], k), e[4]>>
RECURSIVE MovSeq(_, _, _)
MovSeq(a, n, step) == [i \in 1..n |-> ShiftAll(a, (i - 1) * step)]        \* a, a{step}, a{2 step}, ...
RECURSIVE FoldOp(_, _, _)
FoldOp(op, q, i) == IF i = Len(q) THEN q[i] ELSE <<op, q[i], FoldOp(op, q, i + 1)>>
RECURSIVE Expand(_)
Expand(e) ==
    CASE e[1] \in {"num", "par", "var"} -> e
      [] e[1] = "neg" -> <<"neg", Expand(e[2])>>
      [] e[1] \in {"add", "sub", "mul", "div", "pow"} -> <<e[1], Expand(e[2]), Expand(e[3])>>
      [] e[1] = "fn" -> <<"fn", e[2], Expand(e[3])>>
      [] e[1] = "mac" ->
           LET a == Expand(e[3])  k == IF e[4] = Dflt THEN DefaultShift(e[2]) ELSE e[4]
               n == IF k < 0 THEN -k ELSE k  step == IF k < 0 THEN -1 ELSE 1 IN
           CASE e[2] = "shift"    -> ShiftAll(a, k)
             [] e[2] = "diff"     -> <<"sub", a, ShiftAll(a, k)>>
             [] e[2] = "diff_log" -> <<"sub", <<"fn", "log", a>>, <<"fn", "log", ShiftAll(a, k)>> >>
             [] e[2] = "pct"      -> <<"sub", <<"div", <<"mul", Num(R(100)), a>>, ShiftAll(a, k)>>, Num(R(100))>>
             [] e[2] = "roc"      -> <<"div", a, ShiftAll(a, k)>>
             [] e[2] = "mov_sum"  -> IF n = 0 THEN Zero ELSE FoldOp("add", MovSeq(a, n, step), 1)
             [] e[2] = "mov_avg"  -> <<"div", FoldOp("add", MovSeq(a, n, step), 1), Num(R(n))>>
             [] e[2] = "mov_prod" -> FoldOp("mul", MovSeq(a, n, step), 1)
RECURSIVE HasMac(_)
HasMac(e) == CASE e[1] \in {"num", "par", "var"} -> FALSE
               [] e[1] = "mac" -> TRUE
               [] e[1] \in {"neg"} -> HasMac(e[2])
               [] e[1] = "fn" -> HasMac(e[3])
               [] OTHER -> HasMac(e[2]) \/ HasMac(e[3])

\* ---- rendering of expressions -------------------------------------------------------------------------
\* (blanks inside the brackets are allowed: "x{ -1 }", "x[ +2 ]" - written so when the spacing choice is a blank)
ShTextC(k, ch) == IF k = 0 THEN ""
                  ELSE (IF ch.br = "curly" THEN "{" ELSE "[") \o ch.sp \o (IF k > 0 /\ ch.plus THEN "+" ELSE "") \o ToString(k) \o ch.sp
                       \o (IF ch.br = "curly" THEN "}" ELSE "]")
MacName(f, ch) == IF ch.mac = "long" THEN f
                  ELSE CASE f = "diff_log" -> "difflog" [] f = "mov_sum" -> "movsum" [] f = "mov_avg" -> "movavg"
                         [] f = "mov_prod" -> "movprod" [] OTHER -> f
RECURSIVE TText(_, _)
TText(e, ch) ==
    CASE e[1] = "num" -> RatText(e[2])
      [] e[1] = "par" -> e[2]
      [] e[1] = "var" -> e[2] \o ShTextC(e[3], ch)
      [] e[1] = "neg" -> "(-" \o TText(e[2], ch) \o ")"
      [] e[1] = "add" -> "(" \o TText(e[2], ch) \o ch.sp \o "+" \o ch.sp \o TText(e[3], ch) \o ")"
      [] e[1] = "sub" -> "(" \o TText(e[2], ch) \o ch.sp \o "-" \o ch.sp \o TText(e[3], ch) \o ")"
      [] e[1] = "mul" -> "(" \o TText(e[2], ch) \o "*" \o TText(e[3], ch) \o ")"
      [] e[1] = "div" -> "(" \o TText(e[2], ch) \o "/" \o TText(e[3], ch) \o ")"
      [] e[1] = "pow" -> "(" \o TText(e[2], ch) \o (IF ch.pw = "caret" THEN "^" ELSE "**") \o TText(e[3], ch) \o ")"
      [] e[1] = "fn"  -> e[2] \o "(" \o TText(e[3], ch) \o ")"
      \* the argument of a pseudofunction needs no parentheses of its own: "shift(x+k,-1)" (written so when ch.plus holds)
      [] e[1] = "mac" -> MacName(e[2], ch) \o "(" \o (IF ch.plus /\ e[3][1] \in {"add", "sub"}
                                                       THEN TText(e[3][2], ch) \o ch.sp \o (IF e[3][1] = "add" THEN "+" ELSE "-") \o ch.sp \o TText(e[3][3], ch)
                                                       ELSE TText(e[3], ch))
                         \o (IF e[4] = Dflt THEN (IF ch.dflt THEN "," \o ch.sp \o ToString(DefaultShift(e[2])) ELSE "")
                             ELSE "," \o ch.sp \o (IF e[4] > 0 /\ ch.plus THEN "+" ELSE "") \o ToString(e[4]))
                         \o ")"
EqSign(ch) == IF ch.eq = "plain" THEN "=" ELSE ":="
=============================================================================
