------------------------------- MODULE Lonf -------------------------------
(***************************************************************************)
(* The l1 trend filter (series/_ell_one.py, lonf):                         *)
(*      minimise  1/2 |y - x|^2 + lam |D x|_1                              *)
(* where (D x)_i = x_i - x_{i+1} (order 1) or x_i - 2 x_{i+1} + x_{i+2}    *)
(* (order 2), i = 1..n-order.                                              *)
(* Optimality conditions (the statement of C14): there is nu with          *)
(*      x = y - D' nu,   |nu_i| <= lam,                                    *)
(*      nu_i = lam if (D x)_i > 0,  nu_i = -lam if (D x)_i < 0.            *)
(* The objective is strictly convex, so x is unique.  The spec finds it    *)
(* exactly: for a sign pattern S in {-1, 0, 1}^(n-order) put nu_i = lam S_i*)
(* where S_i # 0 and solve D_Z (y - D' nu) = 0 for the remaining nu_Z      *)
(* (rows with (D x)_i = 0; an integer linear system, LinSolve); the        *)
(* pattern is CONSISTENT if the signs of D x are S and |nu_Z| <= lam.      *)
(* Every consistent pattern yields the optimum (Law_Unique, checked by     *)
(* TLC), and one always exists (Law_Exists).                               *)
(***************************************************************************)
EXTENDS LinSolve, FiniteSets

DEntry(ord, i, j) == IF ord = 1 THEN (IF j = i THEN 1 ELSE IF j = i + 1 THEN -1 ELSE 0)
                     ELSE (IF j = i THEN 1 ELSE IF j = i + 1 THEN -2 ELSE IF j = i + 2 THEN 1 ELSE 0)
RECURSIVE DDt(_, _, _, _, _)
DDt(ord, n, a, b, j) == IF j > n THEN 0 ELSE DEntry(ord, a, j) * DEntry(ord, b, j) + DDt(ord, n, a, b, j + 1)     \* (D D')_{ab}
RECURSIVE Dy(_, _, _, _)
Dy(ord, y, a, j) == IF j > Len(y) THEN 0 ELSE DEntry(ord, a, j) * y[j] + Dy(ord, y, a, j + 1)                    \* (D y)_a
SetToSeqL(S) == LET RECURSIVE F(_) F(T) == IF T = {} THEN <<>> ELSE LET m == CHOOSE x \in T : \A z \in T : x <= z IN <<m>> \o F(T \ {m}) IN F(S)
RECURSIVE SumOver(_, _)
SumOver(f, S) == IF S = {} THEN 0 ELSE LET i == CHOOSE x \in S : TRUE IN f[i] + SumOver(f, S \ {i})

\* the candidate of pattern S: nu as numerators over one common denominator den > 0 or < 0 (den # 0), x likewise
Candidate(ord, y, lam, S) ==
    LET n == Len(y)  m == n - ord
        Z == SetToSeqL({i \in 1..m : S[i] = 0})  NZ == {i \in 1..m : S[i] # 0}
        A == [a \in 1..Len(Z) |-> [b \in 1..Len(Z) |-> DDt(ord, n, Z[a], Z[b], 1)]]
        rhs == [a \in 1..Len(Z) |-> Dy(ord, y, Z[a], 1) - lam * SumOver([i \in NZ |-> DDt(ord, n, Z[a], i, 1) * S[i]], NZ)]
        sol == IF Len(Z) = 0 THEN [ok |-> TRUE, num |-> <<>>, den |-> <<1>>] ELSE TLCEval(Solve(A, rhs))
    IN IF ~sol.ok THEN [ok |-> FALSE]
       ELSE LET den == sol.den[1]
                nunum == [i \in 1..m |-> IF S[i] # 0 THEN lam * S[i] * den ELSE sol.num[CHOOSE a \in 1..Len(Z) : Z[a] = i]]
                xnum == [t \in 1..n |-> den * y[t] - SumOver([i \in 1..m |-> DEntry(ord, i, t) * nunum[i]], 1..m)]
                dxnum == [i \in 1..m |-> SumOver([t \in 1..n |-> DEntry(ord, i, t) * xnum[t]], 1..n)]
                sgn(v) == IF v * den > 0 THEN 1 ELSE IF v * den < 0 THEN -1 ELSE 0        \* sign of v / den
                absle(v, b) == (IF v < 0 THEN -v ELSE v) <= b * (IF den < 0 THEN -den ELSE den)   \* |v / den| <= b
            IN [ok |-> TRUE, den |-> den, xnum |-> xnum, nunum |-> nunum,
                consistent |-> /\ \A i \in 1..m : S[i] # 0 => sgn(dxnum[i]) = S[i]
                               /\ \A i \in 1..m : S[i] = 0 => (dxnum[i] = 0 /\ absle(nunum[i], lam))]

Patterns(m) == [1..m -> {-1, 0, 1}]
Solutions(ord, y, lam) == {c \in {Candidate(ord, y, lam, S) : S \in Patterns(Len(y) - ord)} : IF c.ok THEN c.consistent ELSE FALSE}
Law_Exists(sols) == sols # {}
\* all consistent patterns describe the same trend
Law_Unique(sols, n) == \A c1, c2 \in sols : \A t \in 1..n : c1.xnum[t] * c2.den = c2.xnum[t] * c1.den
=============================================================================
