SPECIFICATION Spec
INVARIANT Inv_RulesAgree
CHECK_DEADLOCK FALSE
