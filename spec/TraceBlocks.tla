--------------------------- MODULE TraceBlocks ---------------------------
(***************************************************************************)
(* Validation of traces recorded from irispie against Blocks.tla:          *)
(*  kind "blaze": the block sequence returned by blaze(im, eids, qids) -   *)
(*     one SolveBlock step per returned block, then Finish;                *)
(*  kind "seq":   the outcome of Sequential.sequentialize() on a model     *)
(*     whose zero-shift dependencies between left-hand variables are dep - *)
(*     the returned order must let every equation read only variables      *)
(*     determined earlier; raising is allowed only if no such order exists *)
(*     and must leave the model unchanged.                                 *)
(* All traces of a file are validated in one TLC run (tid = trace number). *)
(* A trace is accepted iff the last line is consumed; the furthest line    *)
(* reached per trace is recorded with TLCSet and reported at the end.      *)
(***************************************************************************)
EXTENDS Integers, Sequences, FiniteSets, TLC, TLCExt, Json, IOUtils

Traces == ndJsonDeserialize(IOEnv.TRACE_FILE)

Idx(k) == 1..k
RECURSIVE HasPM(_, _, _)
HasPM(m, E, Q) == IF E = {} THEN TRUE
                  ELSE LET e == CHOOSE x \in E : TRUE IN \E q \in Q : m[e][q] = 1 /\ HasPM(m, E \ {e}, Q \ {q})
Uses(m, k, e) == {q \in Idx(k) : m[e][q] = 1}
CanSolve(m, k, dE, dQ, E, Q) ==
    /\ E # {} /\ E \subseteq Idx(k) \ dE /\ Q \subseteq Idx(k) \ dQ
    /\ Cardinality(E) = Cardinality(Q)
    /\ \A e \in E : Uses(m, k, e) \subseteq Q \cup dQ
    /\ HasPM(m, E, Q)

VARIABLES tid, l, doneE, doneQ
tvars == <<tid, l, doneE, doneQ>>
T == Traces[tid]

\* positions of the labels of a block in the id vectors passed to blaze (labels must be known and distinct)
PosOf(labels, ids) == {i \in 1..Len(ids) : \E k \in 1..Len(labels) : labels[k] = ids[i]}
LabelsOk(labels, ids) == /\ \A k \in 1..Len(labels) : \E i \in 1..Len(ids) : ids[i] = labels[k]
                         /\ \A a, b \in 1..Len(labels) : a # b => labels[a] # labels[b]

TInit == tid \in 1..Len(Traces) /\ l = 1 /\ doneE = {} /\ doneQ = {}

TSolveBlock == /\ T.kind = "blaze" /\ l <= Len(T.blocks)
               /\ LET b == T.blocks[l] E == PosOf(b.e, T.eids) Q == PosOf(b.q, T.qids) IN
                    /\ LabelsOk(b.e, T.eids) /\ LabelsOk(b.q, T.qids)
                    /\ Cardinality(E) = Len(b.e) /\ Cardinality(Q) = Len(b.q)
                    /\ CanSolve(T.im, T.n, doneE, doneQ, E, Q)
                    /\ doneE' = doneE \cup E /\ doneQ' = doneQ \cup Q
               /\ l' = l + 1 /\ UNCHANGED tid
TFinish == /\ T.kind = "blaze" /\ l = Len(T.blocks) + 1
           /\ doneE = Idx(T.n) /\ doneQ = Idx(T.n)
           /\ l' = l + 1 /\ UNCHANGED <<tid, doneE, doneQ>>

\* sequential ordering: dep[i][j] = 1 iff equation i reads, at zero shift, the left-hand variable of equation j
IsPerm(o, k) == Len(o) = k /\ \A i \in Idx(k) : \E p \in Idx(k) : o[p] = i
ValidOrder(dep, k, o) == IsPerm(o, k) /\ \A p \in Idx(k), j \in Idx(k) :
                            (dep[o[p]][j] = 1 /\ j # o[p]) => \E r \in 1..(p - 1) : o[r] = j
RECURSIVE Acyclic(_, _, _)
Acyclic(dep, k, left) == IF left = {} THEN TRUE      \* repeatedly remove an equation all of whose inputs are determined
                         ELSE \E i \in left : (\A j \in left : j = i \/ dep[i][j] = 0) /\ Acyclic(dep, k, left \ {i})
TSeq == /\ T.kind = "seq" /\ l = 1
        /\ IF T.raised
           THEN ~Acyclic(T.dep, T.n, Idx(T.n)) /\ T.unchanged      \* no valid order exists; model untouched
           ELSE /\ ValidOrder(T.dep, T.n, [i \in 1..Len(T.order) |-> T.order[i] + 1])
                /\ T.reordered                                      \* the model's equations now follow that order
                /\ T.is_sequential
        /\ l' = 2 /\ UNCHANGED <<tid, doneE, doneQ>>

TNext == TSolveBlock \/ TFinish \/ TSeq
TSpec == TInit /\ [][TNext]_tvars

Goal(i) == IF Traces[i].kind = "blaze" THEN Len(Traces[i].blocks) + 2 ELSE 2
Reach == IF l > TLCGet(tid) THEN TLCSet(tid, l) ELSE TRUE
ASSUME \A i \in 1..Len(Traces) : TLCSet(i, 0)
Post == \A i \in 1..Len(Traces) :
          IF TLCGet(i) = Goal(i) THEN TRUE ELSE PrintT(<<"REJECT", i, TLCGet(i)>>)
Inv_TracePartition == Cardinality(doneE) = Cardinality(doneQ)
=============================================================================
