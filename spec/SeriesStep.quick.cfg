CONSTANTS
  NaN = NaN
  None = None
  NoSer = NoSer
  NoVal = NoVal
  AnyVal = AnyVal
  ULo <- CNeg4
  UHi = 8
  W1 = 2
  W2 = 1
  PairMode = "small"
SPECIFICATION Spec
INVARIANT Inv_Laws
CHECK_DEADLOCK FALSE
