CONSTANTS
  QuickMod = 1
  QuickSel = 0
SPECIFICATION SpecM
INVARIANT Inv_ExpandTotal
CHECK_DEADLOCK FALSE
