------------------------------ MODULE HpMC ------------------------------
(* Scenario enumerator for Hp.tla: data window 0..nd-1, optional level / change constraint (inside or outside the data),  *)
(* optional output span inside or beyond the data; the filter span is the hull of all of them.                          *)
EXTENDS Hp
VARIABLES sc, out, done
vars == <<sc, out, done>>
CNeg1 == -1
CNeg2 == -2
None == <<>>

\* thorough tier: Deep <- DeepOn in the cfg (more data shapes: leading / trailing / interior gaps, constants, a second smoothing weight)
Deep == FALSE
DeepOn == TRUE
DataSets == {<<1, 3, 2>>, <<2, 4, 6>>, <<1, NaN, 3, 0>>, <<3, 1, 2, 2>>, <<0, 2, NaN, NaN, 5>>, <<2, 1, 4, 0, 3>>, <<1, 2, 3, 4, 5>>}
            \cup (IF Deep THEN {<<NaN, 2, 5, 1>>, <<4, 0, 1, NaN>>, <<2, 2, 2, 2>>, <<5, NaN, 1>>, <<0, 3, 1, 4, 2>>, <<NaN, 1, NaN, 3, 2>>,
                                <<3, 0, NaN, 2, NaN>>, <<1, 4>>, <<4, 1, 0, 3, 2>>} ELSE {})
Lams == IF Deep THEN {1, 2, 4} ELSE {1, 4}
\* a constraint is <<position, value>> or None; positions are period numbers (data start at 0)
Levs(nd) == {None, <<0, 2>>, <<nd - 1, 4>>, <<CNeg1, 1>>, <<nd, 3>>, <<1, 0>>}
Chgs(nd) == {None, <<1, 1>>, <<nd - 1, CNeg1>>, <<nd, 2>>, <<0, 5>>}
Spans(nd) == {sp \in {None, <<1, nd - 2>>, <<CNeg1, nd>>, <<0, nd + 1>>, <<CNeg2, 1>>} : IF sp = None THEN TRUE ELSE sp[1] <= sp[2]}

Min2(a, b) == IF a <= b THEN a ELSE b
Max2(a, b) == IF a >= b THEN a ELSE b
\* filter span: hull of the observed data (a series does not store leading / trailing missing values), the constraints and the requested span
DLo(s) == CHOOSE t \in 0..(Len(s.data) - 1) : s.data[t + 1] # NaN /\ \A u \in 0..(t - 1) : s.data[u + 1] = NaN
DHi(s) == CHOOSE t \in 0..(Len(s.data) - 1) : s.data[t + 1] # NaN /\ \A u \in (t + 1)..(Len(s.data) - 1) : s.data[u + 1] = NaN
Lo(s) == Min2(Min2(Min2(DLo(s), IF s.lev = None THEN DLo(s) ELSE s.lev[1]), Min2(IF s.chg = None THEN DLo(s) ELSE s.chg[1], IF s.span = None THEN DLo(s) ELSE s.span[1])),
              IF s.chg2 = None THEN DLo(s) ELSE s.chg2[1])
Hi(s) == Max2(Max2(Max2(DHi(s), IF s.lev = None THEN DHi(s) ELSE s.lev[1]), Max2(IF s.chg = None THEN DHi(s) ELSE s.chg[1], IF s.span = None THEN DHi(s) ELSE s.span[2])),
              IF s.chg2 = None THEN DHi(s) ELSE s.chg2[1])
Prob(s) == LET lo == Lo(s) hi == Hi(s) nd == Len(s.data) IN
    [y   |-> [i \in 1..(hi - lo + 1) |-> LET t == lo + i - 1 IN IF t >= 0 /\ t < nd THEN s.data[t + 1] ELSE NaN],
     lev |-> [i \in 1..(hi - lo + 1) |-> IF s.lev # None /\ s.lev[1] = lo + i - 1 THEN s.lev[2] ELSE NaN],
     \* a change constraint in the first period of the filter span has no predecessor and is dropped
     \* (the change-constraint series may hold a second value: chg2)
     chg |-> [i \in 1..(hi - lo + 1) |-> IF s.chg # None /\ s.chg[1] = lo + i - 1 /\ i >= 2 THEN s.chg[2]
                                         ELSE IF s.chg2 # None /\ s.chg2[1] = lo + i - 1 /\ i >= 2 THEN s.chg2[2] ELSE NaN],
     lam |-> s.lam, lo |-> lo]

Init == sc \in {[kind |-> "head", data |-> d, lam |-> l] : d \in DataSets, l \in Lams} /\ out = <<>> /\ done = FALSE
Pick == /\ sc.kind = "head" /\ UNCHANGED <<out, done>>
        /\ \E lv \in Levs(Len(sc.data)), cg \in Chgs(Len(sc.data)), sp \in Spans(Len(sc.data)), lg \in BOOLEAN,
              \* a second change constraint, later than the first one (which may sit in the first period of the filter span and is then dropped)
              c2 \in {None, <<Len(sc.data) - 1, 1>>, <<2, CNeg2>>},
              \* the requested span may be written backward, Span(hi, lo, -1): it still only clips the output
              rv \in BOOLEAN :
             /\ (rv => sp = <<CNeg1, Len(sc.data)>>)
             /\ (c2 # None => (cg # None /\ cg[1] < c2[1] /\ cg[1] <= 1 /\ Len(sc.data) >= 3))
             /\ (lg => (\A i \in 1..Len(sc.data) : IF sc.data[i] = NaN THEN TRUE ELSE sc.data[i] >= 0))
             /\ \E nx \in {[kind |-> "hp", data |-> sc.data, lam |-> sc.lam, lev |-> lv, chg |-> cg, chg2 |-> c2, span |-> sp, rev |-> rv, log |-> lg]} :
                  \* TLC integers are 32-bit: keep the KKT system small enough for fraction-free elimination
                  /\ (Hi(nx) - Lo(nx) + 1) + (IF lv = None THEN 0 ELSE 1) + (IF cg = None THEN 0 ELSE 1) + (IF c2 = None THEN 0 ELSE 1) <= (IF sc.lam = 1 THEN 7 ELSE 6)      \* (also for lam = 2)
                  /\ sc' = nx
Compute == /\ sc.kind = "hp" /\ ~done /\ done' = TRUE /\ UNCHANGED sc
           /\ \E P \in {Prob(sc)} : \E s \in {HpSolve(P)} :
                out' = [ok |-> s.ok, lo |-> P.lo, y |-> P.y,
                        num |-> IF s.ok THEN s.num ELSE <<>>, den |-> IF s.ok THEN s.den ELSE <<>>,
                        laws |-> IF s.ok THEN s.check /\ Law_LineFixed(P, s) /\ Law_Feasible(P, s) ELSE TRUE,
                        line |-> IsLine(P)]
Next == Pick \/ Compute
Spec == Init /\ [][Next]_vars
Inv_Laws == done => out.laws
=============================================================================
