CONSTANTS
  QuickMod = 40
  QuickSel = 0
SPECIFICATION Spec
INVARIANT Inv_ExpandTotal
CHECK_DEADLOCK FALSE
