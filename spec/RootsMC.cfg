INIT Init
NEXT Next
INVARIANT Inv_Roots
CHECK_DEADLOCK FALSE
