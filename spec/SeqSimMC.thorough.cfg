CONSTANTS
  Deep <- DeepOn
  NaN = NaN
  NoPlan = NoPlan
SPECIFICATION Spec
INVARIANT Inv_StepHolds
INVARIANT Inv_FinalHolds
INVARIANT Inv_ExogExact
INVARIANT Inv_Frame
CHECK_DEADLOCK FALSE
