CONSTANTS
  NaN = NaN
  None = None
  NoSer = NoSer
  NoVal = NoVal
  AnyVal = AnyVal
  NoItem = NoItem
  ULo <- TULo
  UHi <- TUHi
  Handles <- THandles
SPECIFICATION TSpecD
INVARIANT Inv_Typed
CONSTRAINT Reach
POSTCONDITION Post
CHECK_DEADLOCK FALSE
