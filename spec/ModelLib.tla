----------------------------- MODULE ModelLib -----------------------------
(***************************************************************************)
(* Library L of small linear rational-expectations models.                 *)
(*                                                                         *)
(* A model is a record                                                     *)
(*   vars   : names of transition variables (state vector order)           *)
(*   logv   : set of log-variables (the state holds their logarithm)       *)
(*   shocks : names of transition shocks                                   *)
(*   eqs    : structural transition equations, each                        *)
(*            [tx |-> <<coef, var index, shift>>..., te |-> <<coef, shock  *)
(*             index>>..., c |-> constant]   meaning  sum + c = 0          *)
(*   mvars, mshocks, meqs : measurement block,                             *)
(*            y_i = sum coef * x_j{shift <= 0} + d + sum h * w             *)
(*   and a CERTIFICATE, the reduced form                                   *)
(*   T, K, Rk : x_t = T x_{t-1} + K + sum_{k>=0} Rk(k) e_{t+k|t}           *)
(*   roots  : the generalised eigenvalues (rationals), fwd : number of     *)
(*            forward-looking variables.                                   *)
(* Nothing in the certificate is trusted: LinearRE checks it against the   *)
(* structural equations on every behaviour (Inv_StructuralHolds), and      *)
(* Roots* below are checked against the characteristic polynomials.        *)
(***************************************************************************)
EXTENDS Rat

H == 5     \* horizon up to which anticipated shocks are used

RECURSIVE HalfPow(_)
HalfPow(k) == IF k = 0 THEN ROne ELSE RMul(Q(1, 2), HalfPow(k - 1))

RECURSIVE ThirdPow(_)
ThirdPow(k) == IF k = 0 THEN ROne ELSE RMul(Q(1, 3), ThirdPow(k - 1))

L1 == [name |-> "L1", linear |-> TRUE, vars |-> <<"x">>, logv |-> {}, shocks |-> <<"ex">>,
       eqs |-> << [tx |-> << <<R(1), 1, 0>>, <<Q(-1, 2), 1, -1>> >>, te |-> << <<R(-1), 1>> >>, c |-> R(-1)] >>,
       mvars |-> <<"obs">>, mshocks |-> <<"w">>,
       meqs |-> << [tx |-> << <<R(2), 1, 0>> >>, d |-> R(1), tw |-> << <<R(1), 1>> >>] >>,
       T |-> << <<Q(1, 2)>> >>, K |-> <<R(1)>>,
       roots |-> <<Q(1, 2)>>, fwd |-> 0]
L1Rk(k) == IF k = 0 THEN << <<R(1)>> >> ELSE << <<RZero>> >>

\* x{+1} - 5/2 x + x{-1} + ex + 1 = 0 : roots 1/2 and 2
L2 == [name |-> "L2", linear |-> TRUE, vars |-> <<"x">>, logv |-> {}, shocks |-> <<"ex">>,
       eqs |-> << [tx |-> << <<R(1), 1, 1>>, <<Q(-5, 2), 1, 0>>, <<R(1), 1, -1>> >>, te |-> << <<R(1), 1>> >>, c |-> R(1)] >>,
       mvars |-> <<"obs">>, mshocks |-> <<"w">>,
       meqs |-> << [tx |-> << <<R(1), 1, 0>> >>, d |-> RZero, tw |-> << <<R(1), 1>> >>] >>,
       T |-> << <<Q(1, 2)>> >>, K |-> <<R(1)>>,
       roots |-> <<Q(1, 2), R(2)>>, fwd |-> 1]
L2Rk(k) == << <<HalfPow(k + 1)>> >>

\* x{+1} - 5/2 x + x{-1} + z + ex = 0 ; z = 1/2 z{-1} + ez
L3 == [name |-> "L3", linear |-> TRUE, vars |-> <<"x", "z">>, logv |-> {}, shocks |-> <<"ex", "ez">>,
       eqs |-> << [tx |-> << <<R(1), 1, 1>>, <<Q(-5, 2), 1, 0>>, <<R(1), 1, -1>>, <<R(1), 2, 0>> >>, te |-> << <<R(1), 1>> >>, c |-> RZero],
                  [tx |-> << <<R(1), 2, 0>>, <<Q(-1, 2), 2, -1>> >>, te |-> << <<R(-1), 2>> >>, c |-> RZero] >>,
       mvars |-> <<"obs", "obz">>, mshocks |-> <<"w">>,
       meqs |-> << [tx |-> << <<R(1), 1, 0>> >>, d |-> RZero, tw |-> << <<R(1), 1>> >>],
                   [tx |-> << <<R(1), 2, 0>>, <<R(1), 1, -1>> >>, d |-> R(2), tw |-> << <<R(3), 1>> >>] >>,
       T |-> << <<Q(1, 2), Q(1, 3)>>, <<RZero, Q(1, 2)>> >>, K |-> <<RZero, RZero>>,
       roots |-> <<Q(1, 2), R(2), Q(1, 2)>>, fwd |-> 1]
L3Rk(k) == << <<HalfPow(k + 1), RMul(Q(2, 3), HalfPow(k))>>, <<RZero, IF k = 0 THEN ROne ELSE RZero>> >>

\* log-variables: log(a) = 1/2 log(a{-1}) + ea ; log(b) = 2 log(a) + 1   (exactly linear in logs)
L6 == [name |-> "L6", linear |-> FALSE, vars |-> <<"a", "b">>, logv |-> {"a", "b"}, shocks |-> <<"ea">>,
       eqs |-> << [tx |-> << <<R(1), 1, 0>>, <<Q(-1, 2), 1, -1>> >>, te |-> << <<R(-1), 1>> >>, c |-> RZero],
                  [tx |-> << <<R(1), 2, 0>>, <<R(-2), 1, 0>> >>, te |-> <<>>, c |-> R(-1)] >>,
       mvars |-> <<"oa">>, mshocks |-> <<>>,
       meqs |-> << [tx |-> << <<R(1), 2, 0>>, <<R(-1), 1, -1>> >>, d |-> RZero, tw |-> <<>>] >>,
       T |-> << <<Q(1, 2), RZero>>, <<R(1), RZero>> >>, K |-> <<RZero, R(1)>>,
       roots |-> <<Q(1, 2), RZero>>, fwd |-> 0]
L6Rk(k) == IF k = 0 THEN << <<R(1)>>, <<R(2)>> >> ELSE << <<RZero>>, <<RZero>> >>

\* measurement of a lagged state with a measurement shock, transition as L2 with a different constant
L9 == [name |-> "L9", linear |-> TRUE, vars |-> <<"x">>, logv |-> {}, shocks |-> <<"ex">>,
       eqs |-> << [tx |-> << <<R(2), 1, 1>>, <<R(-5), 1, 0>>, <<R(2), 1, -1>> >>, te |-> << <<R(2), 1>> >>, c |-> R(-2)] >>,
       mvars |-> <<"obs">>, mshocks |-> <<"w">>,
       meqs |-> << [tx |-> << <<R(1), 1, 0>>, <<R(1), 1, -1>> >>, d |-> R(-1), tw |-> << <<R(2), 1>> >>] >>,
       T |-> << <<Q(1, 2)>> >>, K |-> <<R(-1)>>,
       roots |-> <<Q(1, 2), R(2)>>, fwd |-> 1]
L9Rk(k) == << <<HalfPow(k + 1)>> >>

\* second lead: x{+2} - 11/2 x{+1} + 17/2 x - 3 x{-1} + ex - 2 = 0, i.e. (F - 1/2)(F - 2)(F - 3) x{-1} = 2 - ex : roots 1/2, 2, 3;
\* x_t - 1/2 x_{t-1} = - sum_k ((1/2)^(k+1) - (1/3)^(k+1)) (ex_{t+k} - 2)
L4 == [name |-> "L4", linear |-> TRUE, vars |-> <<"x">>, logv |-> {}, shocks |-> <<"ex">>,
       eqs |-> << [tx |-> << <<R(1), 1, 2>>, <<Q(-11, 2), 1, 1>>, <<Q(17, 2), 1, 0>>, <<R(-3), 1, -1>> >>, te |-> << <<R(1), 1>> >>, c |-> R(-2)] >>,
       mvars |-> <<"obs">>, mshocks |-> <<"w">>,
       meqs |-> << [tx |-> << <<R(1), 1, 0>> >>, d |-> R(1), tw |-> << <<R(1), 1>> >>] >>,
       T |-> << <<Q(1, 2)>> >>, K |-> <<R(1)>>,
       roots |-> <<Q(1, 2), R(2), R(3)>>, fwd |-> 2]
L4Rk(k) == << <<RSub(ThirdPow(k + 1), HalfPow(k + 1))>> >>

\* a lead and a second lag: (F - 2)(1 - 1/2 L)(1 - 1/3 L) x = -(ex + 2/3), i.e.
\*   x{+1} - 17/6 x + 11/6 x{-1} - 1/3 x{-2} + ex + 2/3 = 0 ;  xl = x{-1}  (xl only carries the second lag in the reduced form:
\*   state (x, xl), x_t = 5/6 x_{t-1} - 1/6 xl_{t-1} + 2/3 + sum_k (1/2)^(k+1) ex_{t+k})
L10 == [name |-> "L10", linear |-> TRUE, vars |-> <<"x", "xl">>, logv |-> {}, shocks |-> <<"ex">>,
        eqs |-> << [tx |-> << <<R(1), 1, 1>>, <<Q(-17, 6), 1, 0>>, <<Q(11, 6), 1, -1>>, <<Q(-1, 3), 1, -2>> >>, te |-> << <<R(1), 1>> >>, c |-> Q(2, 3)],
                   [tx |-> << <<R(1), 2, 0>>, <<R(-1), 1, -1>> >>, te |-> <<>>, c |-> RZero] >>,
        mvars |-> <<"obs">>, mshocks |-> <<"w">>,
        meqs |-> << [tx |-> << <<R(1), 1, 0>>, <<R(1), 1, -2>> >>, d |-> R(-1), tw |-> << <<R(1), 1>> >>] >>,
        T |-> << <<Q(5, 6), Q(-1, 6)>>, <<R(1), RZero>> >>, K |-> <<Q(2, 3), RZero>>,
        roots |-> <<Q(1, 2), Q(1, 3), R(2), RZero>>, fwd |-> 1]
L10Rk(k) == << <<HalfPow(k + 1)>>, <<RZero>> >>

\* balanced growth, linearised (not linear=TRUE): log(a) = log(a{-1}) + 1/2 + ea (a unit root with drift) and
\* log(b{+1}) - 5/2 log(b) + log(b{-1}) + log(a) = 0, whose stable solution is log(b) = 1/2 log(b{-1}) + log(a) + 1/2 because the expected
\* path of log(a) rises by 1/2 a period.  The steady state is a path (log a = t/2, log b = t), the reduced-form constant K is not.
L11 == [name |-> "L11", linear |-> FALSE, vars |-> <<"a", "b">>, logv |-> {"a", "b"}, shocks |-> <<"ea">>,
        eqs |-> << [tx |-> << <<R(-1), 1, 0>>, <<R(1), 1, -1>> >>, te |-> << <<R(1), 1>> >>, c |-> Q(1, 2)],
                   [tx |-> << <<R(1), 2, 1>>, <<Q(-5, 2), 2, 0>>, <<R(1), 2, -1>>, <<R(1), 1, 0>> >>, te |-> <<>>, c |-> RZero] >>,
        mvars |-> <<"og", "oa">>, mshocks |-> <<"w">>,
        meqs |-> << [tx |-> << <<R(1), 2, 0>>, <<R(-1), 2, -1>> >>, d |-> RZero, tw |-> <<>>],
                    [tx |-> << <<R(1), 2, 0>>, <<R(-1), 1, -1>> >>, d |-> RZero, tw |-> << <<R(1), 1>> >>] >>,
        T |-> << <<R(1), RZero>>, <<R(1), Q(1, 2)>> >>, K |-> <<Q(1, 2), R(1)>>,
        roots |-> <<R(1), Q(1, 2), R(2)>>, fwd |-> 1]
L11Rk(k) == << <<IF k = 0 THEN ROne ELSE RZero>>, <<HalfPow(k)>> >>

\* two purely forward-looking variables that rotate, x{+1} = x - y + 1 + ex and y{+1} = x + y + 2 (roots 1 + i and 1 - i: a COMPLEX
\* unstable pair, certified by trace 2 and determinant 2 of the block), and a backward-looking q = 1/2 q{-1} + x.  With z = (x, y):
\* z_t = - sum_k Ainv^(k+1) (c + e1 ex_{t+k}),  Ainv = 1/2 [[1, 1], [-1, 1]],  c = (1, 2);  steady state (-2, 1, -4).
\* Ainv^n e1 for n = 1..8 (tabulated: computing the powers by name in every use made TLC crawl; nothing here is trusted, the
\* structural equations are checked on every behaviour)
L12Col == << <<Q(1, 2), Q(-1, 2)>>, <<RZero, Q(-1, 2)>>, <<Q(-1, 4), Q(-1, 4)>>, <<Q(-1, 4), RZero>>,
             <<Q(-1, 8), Q(1, 8)>>, <<RZero, Q(1, 8)>>, <<Q(1, 16), Q(1, 16)>>, <<Q(1, 16), RZero>> >>
L12 == [name |-> "L12", linear |-> TRUE, vars |-> <<"x", "y", "q">>, logv |-> {}, shocks |-> <<"ex">>,
        eqs |-> << [tx |-> << <<R(1), 1, 1>>, <<R(-1), 1, 0>>, <<R(1), 2, 0>> >>, te |-> << <<R(-1), 1>> >>, c |-> R(-1)],
                   [tx |-> << <<R(1), 2, 1>>, <<R(-1), 1, 0>>, <<R(-1), 2, 0>> >>, te |-> <<>>, c |-> R(-2)],
                   [tx |-> << <<R(1), 3, 0>>, <<Q(-1, 2), 3, -1>>, <<R(-1), 1, 0>> >>, te |-> <<>>, c |-> RZero] >>,
        mvars |-> <<"obs">>, mshocks |-> <<"w">>,
        meqs |-> << [tx |-> << <<R(1), 1, 0>>, <<R(1), 3, -1>> >>, d |-> R(1), tw |-> << <<R(1), 1>> >>] >>,
        T |-> << <<RZero, RZero, RZero>>, <<RZero, RZero, RZero>>, <<RZero, RZero, Q(1, 2)>> >>, K |-> <<R(-2), R(1), R(-2)>>,
        roots |-> <<Q(1, 2)>>, cquads |-> << <<R(2), R(2)>> >>, fwd |-> 2]
L12Rk(k) == IF k + 1 > Len(L12Col) THEN << <<RZero>>, <<RZero>>, <<RZero>> >>
            ELSE LET v == L12Col[k + 1] IN << <<RNeg(v[1])>>, <<RNeg(v[2])>>, <<RNeg(v[1])>> >>
\* complex-conjugate pairs of roots of a model, as <<trace, determinant>> of their real 2x2 block (modulus squared = determinant)
CQuads(m) == IF "cquads" \in DOMAIN m THEN m.cquads ELSE <<>>

\* root-count instances: both roots stable (indeterminate) / both unstable (no stable solution)
L7 == [name |-> "L7", linear |-> TRUE, vars |-> <<"x">>, logv |-> {}, shocks |-> <<"ex">>,
       eqs |-> << [tx |-> << <<R(6), 1, 1>>, <<R(-5), 1, 0>>, <<R(1), 1, -1>> >>, te |-> << <<R(1), 1>> >>, c |-> RZero] >>,
       mvars |-> <<>>, mshocks |-> <<>>, meqs |-> <<>>, T |-> <<>>, K |-> <<>>, roots |-> <<Q(1, 2), Q(1, 3)>>, fwd |-> 1]
L8 == [name |-> "L8", linear |-> TRUE, vars |-> <<"x">>, logv |-> {}, shocks |-> <<"ex">>,
       eqs |-> << [tx |-> << <<R(1), 1, 1>>, <<R(-5), 1, 0>>, <<R(6), 1, -1>> >>, te |-> << <<R(1), 1>> >>, c |-> RZero] >>,
       mvars |-> <<>>, mshocks |-> <<>>, meqs |-> <<>>, T |-> <<>>, K |-> <<>>, roots |-> <<R(2), R(3)>>, fwd |-> 1]

Model(id) == CASE id = "L1" -> L1 [] id = "L2" -> L2 [] id = "L3" -> L3 [] id = "L6" -> L6 [] id = "L9" -> L9 [] id = "L4" -> L4 [] id = "L10" -> L10 [] id = "L11" -> L11 [] id = "L12" -> L12
               [] id = "L7" -> L7 [] id = "L8" -> L8
Rk(id, k) == CASE id = "L1" -> L1Rk(k) [] id = "L2" -> L2Rk(k) [] id = "L3" -> L3Rk(k) [] id = "L6" -> L6Rk(k) [] id = "L9" -> L9Rk(k) [] id = "L4" -> L4Rk(k) [] id = "L10" -> L10Rk(k) [] id = "L11" -> L11Rk(k) [] id = "L12" -> L12Rk(k)
SolvableIds == {"L1", "L2", "L3", "L4", "L6", "L9", "L10", "L12"}
GrowthIds == {"L11"}        \* steady state with a non-zero change

\* ---- source text -----------------------------------------------------------------------------------
RatStr(q) == IF q[2] = 1 THEN "(" \o ToString(q[1]) \o ")" ELSE "(" \o ToString(q[1]) \o "/" \o ToString(q[2]) \o ")"
ShiftStr(k) == IF k = 0 THEN "" ELSE IF k > 0 THEN "{+" \o ToString(k) \o "}" ELSE "{" \o ToString(k) \o "}"
VarStr(m, j, k) == IF m.vars[j] \in m.logv THEN "log(" \o m.vars[j] \o ShiftStr(k) \o ")" ELSE m.vars[j] \o ShiftStr(k)
RECURSIVE TxStr(_, _, _), TeStr(_, _, _, _)
TxStr(m, tx, i) == IF i > Len(tx) THEN "" ELSE "+" \o RatStr(tx[i][1]) \o "*" \o VarStr(m, tx[i][2], tx[i][3]) \o TxStr(m, tx, i + 1)
TeStr(names, te, i, dummy) == IF i > Len(te) THEN "" ELSE "+" \o RatStr(te[i][1]) \o "*" \o names[te[i][2]] \o TeStr(names, te, i + 1, dummy)
EqStr(m, eq) == "0 = " \o RatStr(eq.c) \o TxStr(m, eq.tx, 1) \o TeStr(m.shocks, eq.te, 1, 0) \o ";"
MeqRhs(m, i) == RatStr(m.meqs[i].d) \o TxStr(m, m.meqs[i].tx, 1) \o TeStr(m.mshocks, m.meqs[i].tw, 1, 0)
MeqStr(m, i) == m.mvars[i] \o " = " \o MeqRhs(m, i) \o ";"
\* the same measurement block written as a simultaneous block: from the second equation on, twice the previous equation is added
\* (y_i = rhs_i + 2 (y_{i-1} - rhs_{i-1})); the meaning is unchanged, the Jacobian with respect to the measurement variables is no
\* longer the identity (nor symmetric)
MeqStrB(m, i) == IF i = 1 THEN MeqStr(m, i)
                 ELSE m.mvars[i] \o " = " \o MeqRhs(m, i) \o "+(2)*(" \o m.mvars[i - 1] \o "-(" \o MeqRhs(m, i - 1) \o "));"
RECURSIVE JoinNames(_, _)
JoinNames(q, i) == IF i > Len(q) THEN "" ELSE (IF i = 1 THEN "" ELSE ", ") \o q[i] \o JoinNames(q, i + 1)
SetSeq(S, order) == SelectSeq(order, LAMBDA x : x \in S)
Source(m) == << "!transition_variables", JoinNames(m.vars, 1) >>
             \o (IF m.logv = {} THEN <<>> ELSE << "!log-variables", JoinNames(SetSeq(m.logv, m.vars), 1) >>)
             \o << "!transition_shocks", JoinNames(m.shocks, 1), "!transition_equations" >>
             \o [i \in 1..Len(m.eqs) |-> EqStr(m, m.eqs[i])]
             \o (IF m.mvars = <<>> THEN <<>> ELSE
                 << "!measurement_variables", JoinNames(m.mvars, 1) >>
                 \o (IF m.mshocks = <<>> THEN <<>> ELSE << "!measurement_shocks", JoinNames(m.mshocks, 1) >>)
                 \o << "!measurement_equations" >> \o [i \in 1..Len(m.meqs) |-> MeqStr(m, i)])
SourceB(m) == << "!transition_variables", JoinNames(m.vars, 1) >>
             \o (IF m.logv = {} THEN <<>> ELSE << "!log-variables", JoinNames(SetSeq(m.logv, m.vars), 1) >>)
             \o << "!transition_shocks", JoinNames(m.shocks, 1), "!transition_equations" >>
             \o [i \in 1..Len(m.eqs) |-> EqStr(m, m.eqs[i])]
             \o (IF m.mvars = <<>> THEN <<>> ELSE
                 << "!measurement_variables", JoinNames(m.mvars, 1) >>
                 \o (IF m.mshocks = <<>> THEN <<>> ELSE << "!measurement_shocks", JoinNames(m.mshocks, 1) >>)
                 \o << "!measurement_equations" >> \o [i \in 1..Len(m.meqs) |-> MeqStrB(m, i)])
=============================================================================
