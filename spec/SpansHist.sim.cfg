CONSTANTS
  NoSpan = NoSpan
  None = None
  WLo <- WLoT
  WHi = 16
SPECIFICATION Spec
INVARIANT Inv_Enumerates
INVARIANT Inv_Reverse
INVARIANT Inv_Shift
INVARIANT Inv_Resolve
CHECK_DEADLOCK FALSE
