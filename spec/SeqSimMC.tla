---------------------------- MODULE SeqSimMC ----------------------------
(* Scenario enumerator and step machine for SeqSim.tla: a behaviour picks a scenario and then takes one   *)
(* Step per (equation, period) of the execution order; TLC checks the invariants after every step.       *)
EXTENDS SeqSim

VARIABLES sc, d, pc, stale, fin, src, reord
vars == <<sc, d, pc, stale, fin, src, reord>>
CNeg1 == -1
CNeg2 == -2
CNeg3 == -3

Eq(lhs, tr, terms, const) == [lhs |-> lhs, tr |-> tr, terms |-> terms, const |-> const, identity |-> FALSE]
Id(lhs, terms, const)     == [lhs |-> lhs, tr |-> "none", terms |-> terms, const |-> const, identity |-> TRUE]

Models == [
  MA |-> << Eq("x", "none", << <<2, "x", CNeg1, "lin">>, <<CNeg1, "y", CNeg1, "lin">> >>, 1),
            Eq("y", "diff", << <<1, "x", 0, "lin">> >>, CNeg1),
            Id("z", << <<1, "x", 0, "lin">>, <<1, "y", 0, "lin">> >>, 0) >>,
  MB |-> << Eq("w", "none", << <<CNeg1, "w", CNeg1, "lin">> >>, 1),
            Eq("u", "roc", << <<1, "w", 0, "lin">> >>, 1),
            Eq("v", "pct", << <<100, "w", CNeg1, "lin">> >>, 0) >>,
  MC |-> << Eq("r", "diff_log", <<>>, 1),
            Eq("p", "log", << <<1, "r", 0, "log">> >>, CNeg1),
            Eq("q", "none", << <<1, "p", CNeg1, "log">>, <<1, "r", 0, "log">> >>, 0) >>,
  MD |-> << Eq("x", "none", << <<1, "y", 0, "lin">> >>, 1),
            Eq("y", "none", << <<2, "y", CNeg1, "lin">> >>, 0) >>,
  ME |-> << Eq("y", "none", << <<2, "y", CNeg1, "lin">>, <<1, "y", CNeg2, "lin">> >>, 0),
            Eq("x", "diff", << <<1, "y", 0, "lin">>, <<CNeg1, "x", CNeg2, "lin">> >>, 1) >>,
  \* no lag on any right-hand side: the only lags are those implied by the left-hand transforms
  MF |-> << Eq("x", "diff", <<>>, 1),
            Eq("u", "roc", << <<1, "x", 0, "lin">> >>, 0),
            Id("z", << <<1, "x", 0, "lin">>, <<1, "u", 0, "lin">> >>, 0) >>,
  \* the deepest lag of the model occurs in an identity only
  MG |-> << Eq("x", "none", << <<2, "x", CNeg1, "lin">> >>, 1),
            Id("z", << <<1, "x", 0, "lin">>, <<1, "x", CNeg3, "lin">> >>, 0) >> ]
ModelIds == {"MA", "MB", "MC", "MD", "ME", "MF", "MG"}
Span == <<1, 2, 3>>
Periods == CNeg2..3

\* (lhs, plan transform) pairs that keep the arithmetic exact, per model
PlanPairs == [MA |-> {<<"x", "none">>, <<"x", "diff">>, <<"y", "none">>, <<"y", "diff">>},
              MB |-> {<<"w", "none">>, <<"u", "roc">>, <<"v", "pct">>},
              MC |-> {<<"r", "diff_log">>, <<"r", "log">>, <<"p", "log">>},
              MD |-> {<<"x", "none">>, <<"y", "diff">>},
              ME |-> {<<"x", "diff">>, <<"y", "none">>},
              MF |-> {<<"x", "none">>, <<"x", "diff">>, <<"u", "roc">>},
              MG |-> {<<"x", "none">>}]
\* thorough tier: Deep <- DeepOn in the cfg (more exogenized period patterns, pairs of plan entries over more masks)
Deep == FALSE
DeepOn == TRUE
Masks == {{1}, {2, 3}, {1, 2, 3}} \cup (IF Deep THEN {{2}, {3}, {1, 3}} ELSE {})
\* a plan entry: <<lhs, plan transform, when_data, periods>>
\* a plan entry: <<lhs, plan transform, when_data, periods, shift of the transform>> (shift -2 for the change transforms on periods 2, 3)
Entries(m) == {<<pp[1], pp[2], wd, mask, CNeg1>> : pp \in PlanPairs[m], wd \in BOOLEAN, mask \in Masks}
              \cup {<<pp[1], pp[2], FALSE, {2, 3}, CNeg2>> : pp \in {x \in PlanPairs[m] : x[2] \in {"diff", "pct", "diff_log"}}}      \* (roc against the value two periods back leaves the integers)
PlanSets(m) == {{}} \cup {{e} : e \in Entries(m)}
                 \cup {{e1, e2} : e1 \in {e \in Entries(m) : e[4] = {2, 3} /\ ~e[3]}, e2 \in {e \in Entries(m) : e[4] = {1, 2, 3} /\ e[3]}}
                 \cup (IF Deep THEN {{e1, e2} : e1 \in {e \in Entries(m) : e[4] = {1, 3} /\ e[3]}, e2 \in {e \in Entries(m) : e[4] = {2} /\ ~e[3]}} ELSE {})
Scenarios == UNION {{[model |-> m, order |-> o, resp |-> rp, plan |-> ps, prep |-> pr] : pr \in {"as_written", "reordered"},
                        o \in {"dates_equations", "equations_dates"}, rp \in {0, 1}, ps \in {p \in PlanSets(m) :
                            \A e1, e2 \in p : e1 # e2 => e1[1] # e2[1]}} : m \in ModelIds}

Eqs(s) == Models[s.model]
LhsNames(s) == {Eqs(s)[i].lhs : i \in 1..Len(Eqs(s))}
IsEVar(s, n) == \E i \in 1..Len(Eqs(s)) : Eqs(s)[i].lhs = n /\ Eqs(s)[i].tr \in {"log", "diff_log"}
PlanNames(s) == {PlanName(e[2], e[1]) : e \in s.plan}
AllNames(s) == LhsNames(s) \cup {ResName(n) : n \in LhsNames(s)} \cup PlanNames(s)

NameNo(n) == CASE n = "x" -> 1 [] n = "y" -> 2 [] n = "z" -> 3 [] n = "w" -> 1 [] n = "u" -> 2 [] n = "v" -> 3
               [] n = "r" -> 1 [] n = "p" -> 2 [] n = "q" -> 3 [] OTHER -> 0
\* input data: initial conditions and (to be overwritten) values on the span for the lhs variables, residuals,
\* and the plan series; plan series under when_data are missing in period 2
InitVal(s, n, t) ==
    IF n \in LhsNames(s)
    THEN (IF IsEVar(s, n) THEN EP(((t + 2 + NameNo(n)) % 3) - 1)
          ELSE IF n = "w" THEN IV(IF t % 2 = 0 THEN 1 ELSE 0)
          ELSE IF t <= 0 THEN IV(1 + ((t + 2 * NameNo(n) + 3) % 3)) ELSE IV(4 + ((t + NameNo(n)) % 3)))
    ELSE IF \E m \in LhsNames(s) : n = ResName(m)
    THEN (IF s.resp = 0 \/ t <= 0 THEN IV(0) ELSE IF s.model = "MB" THEN IV(IF n = "res_u" /\ t = 2 THEN 1 ELSE 0)
          ELSE IV(((t + Len(n)) % 3) - 1))
    ELSE LET e == CHOOSE x \in s.plan : PlanName(x[2], x[1]) = n IN
         IF t <= 0 \/ (e[3] /\ t = 2 /\ 2 \in e[4]) THEN NaN
         ELSE CASE e[2] = "none" -> (IF IsEVar(s, e[1]) THEN EP(t) ELSE IF e[1] = "w" THEN IV(t % 2) ELSE IV(6 + t))
                [] e[2] = "log" -> IV(t - 1)
                [] e[2] = "diff" -> IV(2 * t - 3)
                [] e[2] = "diff_log" -> IV(2 - t)
                [] e[2] = "roc" -> IV(t)
                [] e[2] = "pct" -> IV(100 * (t - 1))
\* a plan series that has the name of an lhs variable (transform "none") is that variable's own input
InitData(s) == [c \in AllNames(s) \X Periods |->
                  IF c[1] \in LhsNames(s) /\ \E e \in s.plan : e[1] = c[1] /\ e[2] = "none" /\ c[2] >= 1
                  THEN (LET e == CHOOSE x \in s.plan : x[1] = c[1] /\ x[2] = "none" IN
                        IF e[3] /\ c[2] = 2 /\ 2 \in e[4] THEN NaN
                        ELSE IF IsEVar(s, c[1]) THEN EP(c[2]) ELSE IF c[1] = "w" THEN IV(c[2] % 2) ELSE IV(6 + c[2]))
                  ELSE InitVal(s, c[1], c[2])]
PlanFn(s) == [c \in LhsNames(s) \X Periods |->
                 IF \E e \in s.plan : e[1] = c[1] /\ c[2] \in e[4]
                 THEN (LET e == CHOOSE x \in s.plan : x[1] = c[1] /\ c[2] \in x[4] IN [tr |-> e[2], when_data |-> e[3], sh |-> e[5]])
                 ELSE NoPlan]
Sched(s) == Schedule(s.order, Len(Eqs(s)), Span)

\* ---- source text of the model and the plan, for the harness ---------------------------------------------------
ShiftStr(k) == IF k = 0 THEN "" ELSE "{" \o ToString(k) \o "}"
TermStr(tm) == IF tm[4] = "lin" THEN "+(" \o ToString(tm[1]) \o ")*" \o tm[2] \o ShiftStr(tm[3])
               ELSE "+(" \o ToString(tm[1]) \o ")*log(" \o tm[2] \o ShiftStr(tm[3]) \o ")"
RECURSIVE TermsStr(_, _)
TermsStr(terms, i) == IF i > Len(terms) THEN "" ELSE TermStr(terms[i]) \o TermsStr(terms, i + 1)
LhsStr(eq) == IF eq.tr = "none" THEN eq.lhs ELSE eq.tr \o "(" \o eq.lhs \o ")"
EqStr(eq) == LhsStr(eq) \o (IF eq.identity THEN " === " ELSE " = ") \o "(" \o ToString(eq.const) \o ")" \o TermsStr(eq.terms, 1) \o ";"
\* prep = "reordered": the source lists the equations rotated by one (2, 3, ..., 1) and the model is brought to the
\* order of Eqs(s) by reorder_equations(Reorder(s)) before it is simulated (0-based positions in the written order)
Source(s) == LET n == Len(Eqs(s)) IN
             IF s.prep = "as_written" THEN [i \in 1..n |-> EqStr(Eqs(s)[i])]
             ELSE [i \in 1..n |-> EqStr(Eqs(s)[(i % n) + 1])]
Reorder(s) == LET n == Len(Eqs(s)) IN
              IF s.prep = "as_written" THEN <<>> ELSE [i \in 1..n |-> IF i = 1 THEN n - 1 ELSE i - 2]

Init == sc \in Scenarios /\ d = InitData(sc) /\ pc = 0 /\ stale = FALSE /\ fin = FALSE /\ src = Source(sc) /\ reord = Reorder(sc)
Step == /\ ~fin /\ pc < Len(Sched(sc))
        /\ LET st == Sched(sc)[pc + 1] IN
             /\ d' = StepData(d, PlanFn(sc), Eqs(sc)[st[1]], st[2])
             /\ stale' = (stale \/ StaleAt(Eqs(sc), Sched(sc), pc + 1))
        /\ pc' = pc + 1 /\ fin' = (pc + 1 = Len(Sched(sc))) /\ UNCHANGED <<sc, src, reord>>
Next == Step
Spec == Init /\ [][Next]_vars

\* immediately after its step an equation holds in that period together with its residual
Inv_StepHolds == pc > 0 => LET st == Sched(sc)[pc] IN
    Holds(d, Eqs(sc)[st[1]], st[2]) \/ d[<<Eqs(sc)[st[1]].lhs, st[2]>>] = NaN \/ RhsRes(d, Eqs(sc)[st[1]], st[2]) = NaN      \* (a missing input gives a missing value)
\* at the end every equation holds in every period, provided no value was read before being computed
Inv_FinalHolds == (fin /\ ~stale) => \A i \in 1..Len(Eqs(sc)), k \in 1..Len(Span) :
    Holds(d, Eqs(sc)[i], Span[k]) \/ d[<<Eqs(sc)[i].lhs, Span[k]>>] = NaN \/ RhsRes(d, Eqs(sc)[i], Span[k]) = NaN
\* an exogenized variable takes the implied value (the value its plan transform gives from the input)
Inv_ExogExact == fin => \A i \in 1..Len(Eqs(sc)), k \in 1..Len(Span) :
    LET eq == Eqs(sc)[i] t == Span[k] pl == PlanFn(sc)[<<eq.lhs, t>>] IN
    (pl # NoPlan /\ ~eq.identity /\ ~stale /\ Implied(d, eq.lhs, pl.tr, t, pl.sh) # NaN) => d[<<eq.lhs, t>>] = Implied(d, eq.lhs, pl.tr, t, pl.sh)
\* frame: only lhs cells inside the span and residuals of exogenized points change
Inv_Frame == \A c \in DOMAIN d : d[c] # InitData(sc)[c] =>
    /\ c[2] >= 1
    /\ \/ c[1] \in LhsNames(sc)
       \/ \E n \in LhsNames(sc) : c[1] = ResName(n) /\ PlanFn(sc)[<<n, c[2]>>] # NoPlan
\* both execution orders agree whenever neither reads a value before it is computed (checked in the harness on the
\* dumped final states: same scenario, other order)

=============================================================================
