CONSTANTS
  NaN = NaN
SPECIFICATION Spec
INVARIANT Inv_Solved
INVARIANT Inv_RateData
CHECK_DEADLOCK FALSE
