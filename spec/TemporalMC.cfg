CONSTANTS
  NaN = NaN
  None = None
  NoSer = NoSer
  NoVal = NoVal
  AnyVal = AnyVal
  NoRef = NoRef
  ULo <- CNeg12
  UHi = 12
SPECIFICATION Spec
INVARIANT Inv_Law
CHECK_DEADLOCK FALSE
