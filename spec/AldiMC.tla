------------------------------ MODULE AldiMC ------------------------------
(* Tree enumerator for Aldi.tla: leaves, depth-1 trees and depth-2 trees built from a depth-1 tree and a leaf. *)
EXTENDS Aldi
VARIABLES sc, out, done
vars == <<sc, out, done>>
CNeg1 == -1

V(n, s) == <<"var", n, s>>
Leaves == {V("x", 0), V("x", CNeg1), V("x", 1), V("y", 0), V("y", CNeg1), <<"par", "p">>, Num(R(2)), Num(Q(1, 2))}
BinOps == {"add", "sub", "mul", "div", "pow"}
Fns == {"log", "exp", "sqrt", "logistic", "abs", "normal_cdf", "normal_pdf"}
T1 == {<<o, a, b>> : o \in BinOps, a \in Leaves, b \in Leaves} \cup {<<"neg", a>> : a \in Leaves}
      \cup {<<"fn", f, a>> : f \in Fns, a \in Leaves} \cup {<<"fn2", f, a, b>> : f \in {"maximum", "minimum"}, a \in Leaves, b \in Leaves}
      \cup {<<"ufn", f, a, b>> : f \in {"blend", "prodsq"}, a \in Leaves, b \in Leaves}
Wrts == {<<"x", 0>>, <<"x", CNeg1>>, <<"x", 1>>, <<"y", 0>>, <<"y", CNeg1>>}
\* evaluation point: x = 2, y = 3 at every shift (the steady state), p = 1/4
Env == [k \in Wrts \cup {<<"p", 0>>} |-> IF k[1] = "x" THEN R(2) ELSE IF k[1] = "y" THEN R(3) ELSE Q(1, 4)]

\* the same tree one period earlier (used as the right-hand side of a measurement equation, which may only refer to current and lagged states;
\* the deepest lag of a variable then occurs in the measurement block only)
RECURSIVE Sh(_, _)
Sh(e, k) == CASE e[1] \in {"num", "par"} -> e
              [] e[1] = "var" -> <<"var", e[2], e[3] + k>>
              [] e[1] = "neg" -> <<"neg", Sh(e[2], k)>>
              [] e[1] \in {"add", "sub", "mul", "div", "pow"} -> <<e[1], Sh(e[2], k), Sh(e[3], k)>>
              [] e[1] = "fn" -> <<"fn", e[2], Sh(e[3], k)>>
              [] e[1] \in {"fn2", "ufn"} -> <<e[1], e[2], Sh(e[3], k), Sh(e[4], k)>>
Init == sc \in [kind : {"leaf"}, e : Leaves] \cup [kind : {"d1"}, e : T1] /\ out = <<>> /\ done = FALSE
\* depth-2 trees are chosen in a second step so that all workers enumerate them
Deepen == /\ sc.kind = "d1" /\ ~done /\ UNCHANGED <<out, done>>
          /\ \E o \in BinOps, l \in Leaves, side \in {1, 2} :
               sc' = [kind |-> "d2", e |-> IF side = 1 THEN <<o, sc.e, l>> ELSE <<o, l, sc.e>>]
DeepenFn == /\ sc.kind = "d1" /\ ~done /\ UNCHANGED <<out, done>>
            /\ \E f \in Fns : sc' = [kind |-> "d2", e |-> <<"fn", f, sc.e>>]
Compute == /\ ~done /\ done' = TRUE /\ UNCHANGED sc
           /\ out' = [text |-> TreeText(sc.e), mtext |-> TreeText(Sh(sc.e, CNeg1)), rational |-> Rational(sc.e), safe |-> IF Rational(sc.e) THEN Safe(sc.e, Env) ELSE TRUE,
                      d |-> [w \in Wrts |-> D(sc.e, w)],
                      law |-> \A w \in Wrts : Law_RulesAgree(sc.e, Env, w)]
Next == Deepen \/ DeepenFn \/ Compute
Spec == Init /\ [][Next]_vars
Inv_RulesAgree == done => out.law
=============================================================================
