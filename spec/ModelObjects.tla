--------------------------- MODULE ModelObjects ---------------------------
(***************************************************************************)
(* Model objects with parameter variants, copies and pickles               *)
(* (simultaneous/main.py, _variants.py, has_variants.py, sequentials/,     *)
(* file_io.py).                                                            *)
(*                                                                         *)
(* obj[h] is the sequence of parameter variants of model handle h (empty   *)
(* = handle not in use).  A variant is                                     *)
(*   [p  |-> current parameter values <<g, rho>>,                          *)
(*    st |-> the parameter values its stored steady state was computed     *)
(*           from, or None,                                                *)
(*    so |-> the parameter values its stored first-order solution was      *)
(*           computed from, or None].                                      *)
(* Everything observable of a variant (steady levels and changes,          *)
(* solution matrices, simulations) is a function of this record alone:     *)
(* that is the "variant k = singleton model" clause; the harness resolves  *)
(* the record to numbers with a fresh single-variant model.  Copy and      *)
(* pickle round trips produce a handle with an equal record, and every     *)
(* action changes the handle it is applied to and no other (independence). *)
(***************************************************************************)
EXTENDS Integers, Sequences, FiniteSets, TLC

CONSTANTS Handles, None, Kind       \* Kind = "sim" (Simultaneous: steady, solve), "seq" (Sequential: parameters only) or
                                    \* "var" (RedVAR: the "parameter" g of a variant is the data set it was estimated on; assign = re-estimate)

VARIABLES obj, last, tol        \* tol[h]: which tolerance setting handle h carries (0 = defaults; a model-level attribute, not per variant)
mvars == <<obj, last, tol>>

Vals == 1..3
MaxVariants == 3
Var(p, st, so) == [p |-> p, st |-> st, so |-> so]
InUse(h) == obj[h] # <<>>

Init == /\ obj = [h \in Handles |-> IF h = "h1" THEN <<Var(<<1, 1>>, None, None)>> ELSE <<>>]
        /\ last = <<"init">> /\ tol = [h \in Handles |-> 0]

SetPar(p, name, val) == IF name = "g" THEN <<val, p[2]>> ELSE <<p[1], val>>
\* the assigned value is the next one in the cycle 1, 2, 3 after the current value of the first affected variant (this keeps the
\* number of assign successors comparable to the other actions, so that simulated behaviours mix them evenly)
Cycle(v) == (v % 3) + 1
CurVal(h, which, name) == LET i == IF which = 0 THEN 1 ELSE which IN IF name = "g" THEN obj[h][i].p[1] ELSE obj[h][i].p[2]
\* assign a parameter in one variant (which in 1..n) or in all variants (which = 0)
Assign(h, which, name) ==
    /\ InUse(h) /\ which <= Len(obj[h]) /\ (Kind = "var" => name = "g")
    /\ \E val \in {Cycle(CurVal(h, which, name))} :
       /\ obj' = [obj EXCEPT ![h] = [i \in 1..Len(obj[h]) |->
                     IF which = 0 \/ which = i THEN [obj[h][i] EXCEPT !.p = SetPar(obj[h][i].p, name, val)] ELSE obj[h][i]]]
       /\ last' = <<"assign", h, which, name, val>> /\ UNCHANGED tol
Steady(h) == /\ Kind = "sim" /\ InUse(h)
             /\ obj' = [obj EXCEPT ![h] = [i \in 1..Len(obj[h]) |-> [obj[h][i] EXCEPT !.st = obj[h][i].p]]]
             /\ last' = <<"steady", h>> /\ UNCHANGED tol
\* the first-order solution is computed around the stored steady state, which must be the one of the current parameters
Solve(h) == /\ Kind = "sim" /\ InUse(h) /\ \A i \in 1..Len(obj[h]) : obj[h][i].st = obj[h][i].p
            /\ obj' = [obj EXCEPT ![h] = [i \in 1..Len(obj[h]) |-> [obj[h][i] EXCEPT !.so = obj[h][i].p]]]
            /\ last' = <<"solve", h>> /\ UNCHANGED tol
\* shrinking keeps the first n variants, expanding repeats the last one
Alter(h, n) == /\ InUse(h) /\ n # Len(obj[h])
               /\ obj' = [obj EXCEPT ![h] = [i \in 1..n |-> IF i <= Len(obj[h]) THEN obj[h][i] ELSE obj[h][Len(obj[h])]]]
               /\ last' = <<"alter", h, n>> /\ UNCHANGED tol
\* copy(), pickle, dill, irispie.save/load: the new handle has an equal record
Succ(h) == IF h = "h1" THEN "h2" ELSE IF h = "h2" THEN "h3" ELSE "h1"
Dup(h, k, how) == /\ InUse(h) /\ k # h /\ (k = Succ(h) \/ ~InUse(k))
                  /\ (how \in {"copy", "pickle"} \/ Len(obj[h]) # 2)       \* (thins out the duplications among the successors)
                  /\ obj' = [obj EXCEPT ![k] = obj[h]]
                  /\ last' = <<"dup", h, k, how>> /\ tol' = [tol EXCEPT ![k] = tol[h]]
\* override_tolerance: a customised tolerance travels with copies and pickles and is never shared
\* (for a Sequential model the same handle attribute stands for the order of its equations: the action is reorder_equations)
SetTol(h) == /\ Kind \in {"sim", "seq"} /\ InUse(h)
             /\ tol' = [tol EXCEPT ![h] = (tol[h] % 2) + 1] /\ obj' = obj /\ last' = <<"tol", h, (tol[h] % 2) + 1>>

Next == \/ \E h \in Handles, w \in 0..MaxVariants, nm \in {"g", "rho"} : Assign(h, w, nm)
        \/ \E h \in Handles : Steady(h) \/ Solve(h) \/ SetTol(h)
        \/ \E h \in Handles, n \in 1..MaxVariants : Alter(h, n)
        \/ \E h \in Handles, k \in Handles, how \in {"copy", "pickle", "dill", "saveload"} : Dup(h, k, how)
Spec == Init /\ [][Next]_mvars

\* independence: an action changes only the handle it is applied to (the target handle for a duplication)
Touched == IF last'[1] = "dup" THEN last'[3] ELSE last'[2]
Prop_Independence == [][\A x \in Handles : x # Touched => (obj'[x] = obj[x] /\ tol'[x] = tol[x])]_mvars
\* a fresh duplicate is equivalent to its source
Prop_DupEquivalent == [][last'[1] = "dup" => obj'[last'[3]] = obj[last'[2]] /\ obj'[last'[2]] = obj[last'[2]] /\ tol'[last'[3]] = tol[last'[2]]]_mvars
\* a stored solution always belongs to parameter values for which a steady state had been computed
Inv_Typed == \A h \in Handles : Len(obj[h]) <= MaxVariants
=============================================================================
