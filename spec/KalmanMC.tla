------------------------------ MODULE KalmanMC ------------------------------
(***************************************************************************)
(* Kalman filter, smoother and likelihood as exact Gaussian conditioning   *)
(* (fords/kalmans.py, simultaneous/_kalmans.py) over the library models.   *)
(*                                                                         *)
(* For a stationary model the vector of all random variables of periods    *)
(* 1..TK - states X(t,j), measurement variables Y(t,i), transition shocks  *)
(* E(t,k), measurement shocks W(t,k) - is jointly Gaussian with means and  *)
(* covariances given by GaussSS (unconditional start).  For a data set     *)
(* with missing values the predicted / updated / smoothed moments of a     *)
(* variable are its conditional mean and variance given the observations   *)
(* before / up to / in all periods:                                        *)
(*   E[v|O] = E v + c' S^{-1} (y_O - E y_O),  Var[v|O] = Var v - c' S^{-1}c*)
(* with S = Cov(y_O), c = Cov(y_O, v), solved exactly (RatLin).            *)
(* The likelihood factorises into one-step prediction errors v_t with      *)
(* covariance F_t; the spec reports det F_t and v_t' F_t^{-1} v_t.         *)
(***************************************************************************)
EXTENDS GaussSS
VARIABLES sc, out, done
vars == <<sc, out, done>>
TK == 3
CNeg1 == -1
CNeg2 == -2

\* random variables: <<"X", t, j>>, <<"Y", t, i>>, <<"E", t, k>>, <<"W", t, k>>
NX(id) == Len(GModel(id).vars)
NY(id) == Len(GModel(id).mvars)
NE(id) == Len(GModel(id).shocks)
NW(id) == Len(GModel(id).mshocks)
SteadyOf(id) == CASE id = "L1" -> <<R(2)>> [] id = "L2" -> <<R(2)>> [] id = "L3" -> <<RZero, RZero>> [] id = "L9" -> <<R(-2)>>
                  [] id = "LK" -> <<R(2)>> [] id = "LK2" -> <<RZero, RZero>>

\* linear form of a state-type variable over the state vector at lags 0, 1
Form(id, v) == IF v[1] = "X" THEN << [p \in 1..NX(id) |-> IF p = v[3] THEN ROne ELSE RZero], Unit(NX(id)) >>
               ELSE << Coefs(id, GModel(id).meqs[v[3]].tx, 0), Coefs(id, GModel(id).meqs[v[3]].tx, 1) >>
Tw(id, v) == IF v[1] = "Y" THEN GModel(id).meqs[v[3]].tw ELSE <<>>
MeanOf(id, v) == CASE v[1] = "X" -> SteadyOf(id)[v[3]]
                   [] v[1] = "Y" -> RAdd(RAdd(RDot(Form(id, v)[1], SteadyOf(id)), RDot(Form(id, v)[2], SteadyOf(id))), GModel(id).meqs[v[3]].d)
                   [] OTHER -> RZero
\* Cov(sum_a U_a' x_{s-a}, e_{t,k}) = sum_a U_a' T^(s-a-t) R[:,k] sd_k^2  for s - a >= t
RECURSIVE ShockCovV(_, _, _, _)
ShockCovV(tw1, tw2, vw, i) == IF i > Len(tw1) THEN RZero
    ELSE LET S == {q \in 1..Len(tw2) : tw2[q][2] = tw1[i][2]} IN
         RAdd(IF S = {} THEN RZero ELSE RMul(RMul(tw1[i][1], tw2[CHOOSE q \in S : TRUE][1]), vw), ShockCovV(tw1, tw2, vw, i + 1))
RECURSIVE FormShock(_, _, _, _, _, _, _)
FormShock(id, TP, U, s, t, k, a) == IF a > Len(U) THEN RZero
    ELSE RAdd(IF s - (a - 1) >= t THEN RDot(U[a], RCol(RMatMul(TP[s - (a - 1) - t], GR0(id)), k)) ELSE RZero, FormShock(id, TP, U, s, t, k, a + 1))
HW(tw, k) == LET S == {i \in 1..Len(tw) : tw[i][2] = k} IN IF S = {} THEN RZero ELSE tw[CHOOSE i \in S : TRUE][1]

\* sd: VARIANCES of the transition shocks, [base |-> vector (the model's parameters: they also determine the unconditional start),
\* extra |-> [t -> vector]] where extra[t] is added in period t (time-varying standard deviations supplied as data); sdw: variance of the
\* measurement shocks (common value).  A period with a larger shock variance adds, to the covariance of two state-type variables, the
\* product of their loadings on that period's shock times the extra variance.
SdAt(sd, t, k) == RAdd(sd.base[k], sd.extra[t][k])
\* sdw likewise: [base |-> common variance of the measurement shocks, extra |-> [t -> extra variance in period t]]
SdwAt(sdw, t) == RAdd(sdw.base, sdw.extra[t])
RECURSIVE ExtraSS(_, _, _, _, _, _, _)
ExtraSS(id, TP, sd, v1, v2, r, k) ==
    IF r > TK THEN RZero
    ELSE IF k > Len(sd.base) THEN ExtraSS(id, TP, sd, v1, v2, r + 1, 1)
    ELSE RAdd(IF sd.extra[r][k] = RZero THEN RZero
              ELSE RMul(RMul(FormShock(id, TP, Form(id, v1), v1[2], r, k, 1), FormShock(id, TP, Form(id, v2), v2[2], r, k, 1)), sd.extra[r][k]),
              ExtraSS(id, TP, sd, v1, v2, r, k + 1))
Cov(id, Cs, TP, sd, sdw, v1, v2) ==
    LET st1 == v1[1] \in {"X", "Y"} st2 == v2[1] \in {"X", "Y"} IN
    IF st1 /\ st2 THEN RAdd(RAdd(QuadSum(Cs, Form(id, v1), Form(id, v2), v1[2] - v2[2], 1, 1), ExtraSS(id, TP, sd, v1, v2, 1, 1)),
                            IF v1[2] = v2[2] THEN ShockCovV(Tw(id, v1), Tw(id, v2), SdwAt(sdw, v1[2]), 1) ELSE RZero)
    ELSE IF st1 /\ v2[1] = "E" THEN RMul(FormShock(id, TP, Form(id, v1), v1[2], v2[2], v2[3], 1), SdAt(sd, v2[2], v2[3]))
    ELSE IF st2 /\ v1[1] = "E" THEN RMul(FormShock(id, TP, Form(id, v2), v2[2], v1[2], v1[3], 1), SdAt(sd, v1[2], v1[3]))
    ELSE IF st1 /\ v2[1] = "W" THEN (IF v1[2] = v2[2] THEN RMul(HW(Tw(id, v1), v2[3]), SdwAt(sdw, v2[2])) ELSE RZero)
    ELSE IF st2 /\ v1[1] = "W" THEN (IF v1[2] = v2[2] THEN RMul(HW(Tw(id, v2), v1[3]), SdwAt(sdw, v1[2])) ELSE RZero)
    ELSE IF v1 = v2 THEN (IF v1[1] = "E" THEN SdAt(sd, v1[2], v1[3]) ELSE SdwAt(sdw, v1[2]))
    ELSE RZero

\* observations: sequence of <<t, i>> with data, ordered by period
ObsSeq(data, upto) == LET RECURSIVE F(_, _)
                          F(t, i) == IF t > upto THEN <<>>
                                     ELSE IF i > Len(data[t]) THEN F(t + 1, 1)
                                     ELSE (IF data[t][i] = NaN THEN <<>> ELSE << <<"Y", t, i>> >>) \o F(t, i + 1)
                      IN F(1, 1)
\* conditioning on the observation list O: returns inverse covariance (as solved columns) and data deviations
CondSetup(id, Cs, TP, sd, sdw, data, O) ==
    LET n == Len(O)
        S == [a \in 1..n |-> [b \in 1..n |-> Cov(id, Cs, TP, sd, sdw, O[a], O[b])]]
        dv == [a \in 1..n |-> RSub(R(data[O[a][2]][O[a][3]]), MeanOf(id, O[a]))] IN
    [n |-> n, S |-> S, dev |-> dv,
     \* S^{-1} dev
     sol |-> IF n = 0 THEN <<>> ELSE RSolve(S, dv).x]
CondMean(id, Cs, TP, sd, sdw, O, cs, v) ==
    IF cs.n = 0 THEN MeanOf(id, v)
    ELSE RAdd(MeanOf(id, v), RDot([a \in 1..cs.n |-> Cov(id, Cs, TP, sd, sdw, O[a], v)], cs.sol))
CondVar(id, Cs, TP, sd, sdw, O, cs, v) ==
    IF cs.n = 0 THEN Cov(id, Cs, TP, sd, sdw, v, v)
    ELSE LET c == [a \in 1..cs.n |-> Cov(id, Cs, TP, sd, sdw, O[a], v)] IN
         RSub(Cov(id, Cs, TP, sd, sdw, v, v), RDot(c, RSolve(cs.S, c).x))
CondCov(id, Cs, TP, sd, sdw, O, cs, v1, v2) ==
    IF cs.n = 0 THEN Cov(id, Cs, TP, sd, sdw, v1, v2)
    ELSE LET c1 == [a \in 1..cs.n |-> Cov(id, Cs, TP, sd, sdw, O[a], v1)]
             c2 == [a \in 1..cs.n |-> Cov(id, Cs, TP, sd, sdw, O[a], v2)] IN
         RSub(Cov(id, Cs, TP, sd, sdw, v1, v2), RDot(c1, RSolve(cs.S, c2).x))

Targets(id, t) == [j \in 1..NX(id) |-> <<"X", t, j>>] \o [i \in 1..NY(id) |-> <<"Y", t, i>>]
                  \o [k \in 1..NE(id) |-> <<"E", t, k>>] \o [k \in 1..NW(id) |-> <<"W", t, k>>]
Moments(id, Cs, TP, sd, sdw, data, upto, t) ==
    LET O == ObsSeq(data, upto) cs == TLCEval(CondSetup(id, Cs, TP, sd, sdw, data, O)) tg == Targets(id, t) IN
    [mean |-> [q \in 1..Len(tg) |-> CondMean(id, Cs, TP, sd, sdw, O, cs, tg[q])],
     var  |-> [q \in 1..Len(tg) |-> CondVar(id, Cs, TP, sd, sdw, O, cs, tg[q])]]
\* one-step prediction error of period t: observed y_t minus its mean given earlier observations, and its covariance F_t
PredErr(id, Cs, TP, sd, sdw, data, t) ==
    LET O == ObsSeq(data, t - 1) cs == TLCEval(CondSetup(id, Cs, TP, sd, sdw, data, O))
        yt == SelectSeq(ObsSeq(data, t), LAMBDA v : v[2] = t)
        n == Len(yt)
        v == [a \in 1..n |-> RSub(R(data[t][yt[a][3]]), CondMean(id, Cs, TP, sd, sdw, O, cs, yt[a]))]
        F == [a \in 1..n |-> [b \in 1..n |-> CondCov(id, Cs, TP, sd, sdw, O, cs, yt[a], yt[b])]] IN
    [n |-> n, v |-> v, F |-> F,
     det |-> IF n = 0 THEN ROne ELSE IF n = 1 THEN F[1][1] ELSE RSub(RMul(F[1][1], F[2][2]), RMul(F[1][2], F[2][1])),
     quad |-> IF n = 0 THEN RZero ELSE RDot(v, RSolve(F, v).x)]

Ids == {"L1", "L9", "LK", "LK2"}
DataSets(id) == IF NY(id) = 1
                THEN { << <<6>>, <<NaN>>, <<4>> >>, << <<3>>, <<5>>, <<2>> >>, << <<NaN>>, <<1>>, <<NaN>> >>, << <<2>>, <<NaN>>, <<NaN>> >> }
                ELSE { << <<1, 3>>, <<NaN, 2>>, <<0, NaN>> >>, << <<2, NaN>>, <<1, 4>>, <<NaN, CNeg1>> >>, << <<NaN, NaN>>, <<1, NaN>>, <<NaN, 3>> >> }
\* thorough tier (Deep <- DeepOn in the cfg): every pattern of missing observations over the three periods
Deep == FALSE
DeepOn == TRUE
Masked(vals, mask) == [t \in 1..Len(vals) |-> [i \in 1..Len(vals[t]) |-> IF mask[t][i] THEN vals[t][i] ELSE NaN]]
DeepData(id) == IF NY(id) = 1
                THEN {Masked(v, m) : v \in { << <<3>>, <<5>>, <<2>> >>, << <<1>>, <<CNeg1>>, <<2>> >> }, m \in [1..3 -> [1..1 -> BOOLEAN]]}
                ELSE {Masked(<< <<1, 3>>, <<CNeg1, 2>>, <<0, 4>> >>, m) : m \in {mm \in [1..3 -> [1..2 -> BOOLEAN]] :
                                                                             Cardinality({c \in (1..3) \X (1..2) : mm[c[1]][c[2]]}) <= 4}}
\* time-varying standard deviations: extra variance of the first shock in period 2 (and, thorough tier, in periods 1 and 3)
NoExtra(id) == [t \in 1..TK |-> [k \in 1..NE(id) |-> RZero]]
Extras(id) == {NoExtra(id), [NoExtra(id) EXCEPT ![2][1] = R(1)]}
              \cup (IF Deep THEN {[NoExtra(id) EXCEPT ![1][1] = R(1), ![3][NE(id)] = R(1)]} ELSE {})
NoExtraW == [t \in 1..TK |-> RZero]
ExtrasW == {NoExtraW, [NoExtraW EXCEPT ![2] = R(3)]} \cup (IF Deep THEN {[NoExtraW EXCEPT ![1] = R(3), ![3] = R(8)]} ELSE {})
Init == sc \in UNION {{[id |-> id, data |-> d, sd |-> sd, sdw |-> sw, dsd |-> x, dsw |-> xw] : d \in (IF Deep THEN DeepData(id) ELSE DataSets(id)),
                          sd \in {[i \in 1..NE(id) |-> R(3)], [i \in 1..NE(id) |-> R(12)]}, sw \in {R(1), R(4)},
                          x \in Extras(id), xw \in ExtrasW} : id \in Ids}
        /\ (sc.dsd # NoExtra(sc.id) => (sc.sd[1] = R(3) /\ sc.sdw = R(1) /\ sc.dsw = NoExtraW))
        /\ (sc.dsw # NoExtraW => (sc.sd[1] = R(3) /\ sc.sdw = R(1)))
        /\ out = <<>> /\ done = FALSE
SDR(s) == [base |-> s.sd, extra |-> s.dsd]
SDWR(s) == [base |-> s.sdw, extra |-> s.dsw]
Compute == /\ ~done /\ done' = TRUE /\ UNCHANGED sc
           /\ \E ly \in {LyapV(sc.id, sc.sd)} : \E Cs \in {CTable(ly)} : \E TP \in {[k \in 0..TK |-> RMatPow(GModel(sc.id).T, k)]} :
                out' = [ok |-> ly.ok /\ LyapOk(ly), src |-> Source(GModel(sc.id)), srcb |-> SourceB(GModel(sc.id)),
                        vars |-> GModel(sc.id).vars, mvars |-> GModel(sc.id).mvars, shocks |-> GModel(sc.id).shocks, mshocks |-> GModel(sc.id).mshocks,
                        predict |-> [t \in 1..TK |-> Moments(sc.id, Cs, TP, SDR(sc), SDWR(sc), sc.data, t - 1, t)],
                        update  |-> [t \in 1..TK |-> Moments(sc.id, Cs, TP, SDR(sc), SDWR(sc), sc.data, t, t)],
                        smooth  |-> [t \in 1..TK |-> Moments(sc.id, Cs, TP, SDR(sc), SDWR(sc), sc.data, TK, t)],
                        pe |-> [t \in 1..TK |-> PredErr(sc.id, Cs, TP, SDR(sc), SDWR(sc), sc.data, t)],
                        meq |-> GModel(sc.id).meqs, teq |-> GModel(sc.id).eqs]
\* clause-only scenarios (no exact moments are computed): a unit-root model (diffuse initial condition, data ending before the
\* filter span ends) and a forward-looking model with anticipated shocks supplied as data; the harness evaluates the C08 clauses
\* (data reproduced, equations hold, re-simulation) on the filter's own output with the structural form emitted here
ClauseScen == {[id |-> "L5", data |-> << <<2>>, <<3>>, <<NaN>>, <<NaN>> >>, ant |-> <<>>, wmean |-> <<>>],
               [id |-> "L5B", data |-> << <<2>>, <<3>>, <<5>>, <<NaN>>, <<NaN>> >>, ant |-> <<>>, wmean |-> <<>>],
               [id |-> "L5B", data |-> << <<NaN>>, <<4>>, <<NaN>>, <<1>>, <<2>> >>, ant |-> <<>>, wmean |-> <<>>],
               [id |-> "L5", data |-> << <<1>>, <<NaN>>, <<4>>, <<2>> >>, ant |-> <<>>, wmean |-> <<>>],
               [id |-> "L2", data |-> << <<3>>, <<1>>, <<NaN>>, <<2>> >>, ant |-> << <<2, 1, 1>>, <<4, 1, CNeg1>> >>, wmean |-> <<>>],
               [id |-> "L9", data |-> << <<CNeg2>>, <<NaN>>, <<1>>, <<0>> >>, ant |-> << <<3, 1, 2>> >>, wmean |-> <<>>],
               \* measurement-shock MEANS supplied as data (shocks_from_data): in an observed and in an unobserved period
               [id |-> "L9", data |-> << <<CNeg2>>, <<NaN>>, <<1>>, <<0>> >>, ant |-> <<>>, wmean |-> << <<2, 1, CNeg1>>, <<3, 1, 1>> >>],
               [id |-> "L1", data |-> << <<3>>, <<1>>, <<NaN>>, <<2>> >>, ant |-> <<>>, wmean |-> << <<2, 1, 2>> >>],
               \* log-variables in the transition block, a plain measurement variable (the log status of the i-th measurement variable
               \* differs from that of the i-th quantity of the model)
               [id |-> "L6", data |-> << <<1>>, <<NaN>>, <<2>>, <<1>> >>, ant |-> <<>>, wmean |-> <<>>]}
InitC == sc \in ClauseScen /\ out = <<>> /\ done = FALSE
ComputeC == /\ ~done /\ done' = TRUE /\ UNCHANGED sc
            /\ out' = [ok |-> TRUE, src |-> Source(GModel(sc.id)), vars |-> GModel(sc.id).vars, mvars |-> GModel(sc.id).mvars,
                       shocks |-> GModel(sc.id).shocks, mshocks |-> GModel(sc.id).mshocks, meq |-> GModel(sc.id).meqs, teq |-> GModel(sc.id).eqs,
                       logv |-> GModel(sc.id).logv, linear |-> GModel(sc.id).linear]
SpecC == InitC /\ [][ComputeC]_vars
Next == Compute
Spec == Init /\ [][Next]_vars
Inv_Ok == done => out.ok
\* smoothed measurement variables equal the data where observed, with zero variance (C08); updated ones too
Inv_SmoothMatchesData == done => \A t \in 1..TK, i \in 1..NY(sc.id) : sc.data[t][i] # NaN =>
    /\ out.smooth[t].mean[NX(sc.id) + i] = R(sc.data[t][i]) /\ out.smooth[t].var[NX(sc.id) + i] = RZero
    /\ out.update[t].mean[NX(sc.id) + i] = R(sc.data[t][i])
\* conditional variances are non-negative (sign of the numerator; comparing two variances would overflow 32-bit products)
Inv_VarNonNeg == done => \A t \in 1..TK, q \in 1..(NX(sc.id) + NY(sc.id)) :
    out.predict[t].var[q][1] >= 0 /\ out.update[t].var[q][1] >= 0 /\ out.smooth[t].var[q][1] >= 0
\* C08: the smoothed means satisfy every measurement equation (with the smoothed measurement shocks) and every transition
\* equation of the reduced form (with the smoothed transition shocks) exactly - conditional expectation is linear
SmX(t, j) == out.smooth[t].mean[j]
SmY(t, i) == out.smooth[t].mean[NX(sc.id) + i]
SmE(t, k) == out.smooth[t].mean[NX(sc.id) + NY(sc.id) + k]
SmW(t, k) == out.smooth[t].mean[NX(sc.id) + NY(sc.id) + NE(sc.id) + k]
RECURSIVE SumTwS(_, _, _)
SumTwS(tw, t, i) == IF i > Len(tw) THEN RZero ELSE RAdd(RMul(tw[i][1], SmW(t, tw[i][2])), SumTwS(tw, t, i + 1))
Inv_SmoothMeasurementEq == done => \A t \in 2..TK, i \in 1..NY(sc.id) :
    LET q == GModel(sc.id).meqs[i] f == Form(sc.id, <<"Y", t, i>>) IN
    SmY(t, i) = RAdd(RAdd(RAdd(RDot(f[1], [j \in 1..NX(sc.id) |-> SmX(t, j)]), RDot(f[2], [j \in 1..NX(sc.id) |-> SmX(t - 1, j)])), q.d), SumTwS(q.tw, t, 1))
Inv_SmoothTransitionEq == done => \A t \in 2..TK :
    [j \in 1..NX(sc.id) |-> SmX(t, j)] =
        RVecAdd(RVecAdd(RMatVec(GModel(sc.id).T, [j \in 1..NX(sc.id) |-> SmX(t - 1, j)]), GModel(sc.id).K),
                RMatVec(GR0(sc.id), [k \in 1..NE(sc.id) |-> SmE(t, k)]))
=============================================================================
