CONSTANTS
  Deep <- DeepOn
SPECIFICATION Spec
INVARIANT Inv_DynamicEqHold
CHECK_DEADLOCK FALSE
