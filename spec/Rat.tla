------------------------------- MODULE Rat -------------------------------
(***************************************************************************)
(* Exact rational arithmetic for TLC: a rational is <<n, d>> with d > 0    *)
(* and gcd(|n|, d) = 1.  TLC integers are 32-bit and TLC aborts on         *)
(* overflow, so callers keep numerators and denominators small.            *)
(***************************************************************************)
EXTENDS Integers, Sequences, TLC

RECURSIVE RGcd(_, _)
RGcd(a, b) == IF b = 0 THEN a ELSE RGcd(b, a % b)
RAbs(x) == IF x < 0 THEN -x ELSE x
RNorm(n, d) == LET s == IF d < 0 THEN -1 ELSE 1
                   g == RGcd(RAbs(n), RAbs(d)) IN
               IF n = 0 THEN <<0, 1>> ELSE <<(s * n) \div g, (s * d) \div g>>
R(n) == <<n, 1>>
Q(n, d) == RNorm(n, d)
RZero == <<0, 1>>
ROne == <<1, 1>>
\* cross-cancel before multiplying to keep intermediate products small
RMul(a, b) == LET g1 == RGcd(RAbs(a[1]), b[2]) g2 == RGcd(RAbs(b[1]), a[2]) IN
              IF a[1] = 0 \/ b[1] = 0 THEN RZero
              ELSE RNorm((a[1] \div g1) * (b[1] \div g2), (a[2] \div g2) * (b[2] \div g1))
RAdd(a, b) == LET g == RGcd(a[2], b[2]) IN RNorm(a[1] * (b[2] \div g) + b[1] * (a[2] \div g), (a[2] \div g) * b[2])
RNeg(a) == <<-a[1], a[2]>>
RSub(a, b) == RAdd(a, RNeg(b))
RInv(a) == RNorm(a[2], a[1])          \* a # 0
RDiv(a, b) == RMul(a, RInv(b))
RLt(a, b) == a[1] * b[2] < b[1] * a[2]
RAbsQ(a) == <<RAbs(a[1]), a[2]>>

\* vectors = sequences of rationals; matrices = sequences of rows
RECURSIVE RSumSeq(_, _)
RSumSeq(q, i) == IF i > Len(q) THEN RZero ELSE RAdd(q[i], RSumSeq(q, i + 1))
RDot(u, v) == RSumSeq([i \in 1..Len(u) |-> RMul(u[i], v[i])], 1)
RMatVec(M, v) == [i \in 1..Len(M) |-> RDot(M[i], v)]
RVecAdd(u, v) == [i \in 1..Len(u) |-> RAdd(u[i], v[i])]
RVecSub(u, v) == [i \in 1..Len(u) |-> RSub(u[i], v[i])]
RScale(c, v) == [i \in 1..Len(v) |-> RMul(c, v[i])]
RZeroVec(n) == [i \in 1..n |-> RZero]
RCol(M, j) == [i \in 1..Len(M) |-> M[i][j]]
RMatMul(A, B) == [i \in 1..Len(A) |-> [j \in 1..Len(B[1]) |-> RDot(A[i], RCol(B, j))]]
RTranspose(A) == [j \in 1..Len(A[1]) |-> [i \in 1..Len(A) |-> A[i][j]]]
RMatAdd(A, B) == [i \in 1..Len(A) |-> [j \in 1..Len(A[1]) |-> RAdd(A[i][j], B[i][j])]]
=============================================================================
