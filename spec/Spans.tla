---------------------------- MODULE Spans ----------------------------
(***************************************************************************)
(* irispie.Span as a state machine over period serials (dates.py: Span).   *)
(*                                                                         *)
(* A span is [s |-> bound, e |-> bound, st |-> step]; a bound is           *)
(* <<"abs", n>> (a period with serial n, frequency-agnostic here; the      *)
(* harness instantiates every behaviour in all six frequencies) or         *)
(* <<"start", k>> / <<"end", k>>: an open end, "start/end of the context   *)
(* plus k", resolved later against a context.                              *)
(*                                                                         *)
(* In-place operations (reverse, shift_start, shift_end, shift) change the *)
(* receiver; functional operations (reversed, +, -, >> step, << step,      *)
(* resolve) return a new span and leave the receiver unchanged.  Apply     *)
(* gives both: .sp = receiver afterwards, .res = result (or NoSpan).       *)
(***************************************************************************)
EXTENDS Integers, Sequences, TLC

CONSTANTS NoSpan, None      \* model values

Abs(n)      == <<"abs", n>>
IsAbs(b)    == b[1] = "abs"
Resolved(sp) == IsAbs(sp.s) /\ IsAbs(sp.e)
ShiftB(b, k) == <<b[1], b[2] + k>>
Sign(x)     == IF x > 0 THEN 1 ELSE IF x < 0 THEN -1 ELSE 0

MkSpan(s, e, st) == [s |-> s, e |-> e, st |-> st]

\* --- meaning of a resolved span: start, start+step, ... while not past end ---------------------
RECURSIVE Enum(_, _, _)
Enum(a, e, st) == IF (st > 0 /\ a > e) \/ (st < 0 /\ a < e) THEN <<>>
                  ELSE <<a>> \o Enum(a + st, e, st)
Iter(sp) == Enum(sp.s[2], sp.e[2], sp.st)

\* closed forms that must agree with the enumeration
Abs_(x)      == IF x < 0 THEN -x ELSE x
LenOf(sp)    == LET d == (sp.e[2] - sp.s[2]) * Sign(sp.st) IN
                IF d < 0 THEN 0 ELSE (d \div Abs_(sp.st)) + 1
ItemAt(sp, i) == sp.s[2] + i * sp.st                 \* 0-based

ResolveB(b, cs, ce) == CASE b[1] = "abs" -> b [] b[1] = "start" -> Abs(cs + b[2]) [] b[1] = "end" -> Abs(ce + b[2])
ResolveSp(sp, cs, ce) == MkSpan(ResolveB(sp.s, cs, ce), ResolveB(sp.e, cs, ce), sp.st)

\* --- operations ---------------------------------------------------------------------------------
InPlace(sp)  == [sp |-> sp, res |-> NoSpan, rej |-> FALSE]
Func(sp, r)  == [sp |-> sp, res |-> r, rej |-> FALSE]
Reject(sp)   == [sp |-> sp, res |-> NoSpan, rej |-> TRUE]

Apply(sp, op) ==
    CASE op[1] = "reverse"     -> InPlace(MkSpan(sp.e, sp.s, -sp.st))
      [] op[1] = "shift_start" -> InPlace(MkSpan(ShiftB(sp.s, op[2]), sp.e, sp.st))
      [] op[1] = "shift_end"   -> InPlace(MkSpan(sp.s, ShiftB(sp.e, op[2]), sp.st))
      [] op[1] = "shift"       -> InPlace(MkSpan(ShiftB(sp.s, op[2]), ShiftB(sp.e, op[2]), sp.st))
      [] op[1] = "reversed"    -> Func(sp, MkSpan(sp.e, sp.s, -sp.st))
      [] op[1] = "add"         -> Func(sp, MkSpan(ShiftB(sp.s, op[2]), ShiftB(sp.e, op[2]), sp.st))
      [] op[1] = "radd"        -> Func(sp, MkSpan(ShiftB(sp.s, op[2]), ShiftB(sp.e, op[2]), sp.st))
      [] op[1] = "sub"         -> Func(sp, MkSpan(ShiftB(sp.s, -op[2]), ShiftB(sp.e, -op[2]), sp.st))
      [] op[1] = "rstep"       -> IF op[2] > 0 THEN Func(sp, MkSpan(sp.s, sp.e, op[2])) ELSE Reject(sp)
      [] op[1] = "lstep"       -> IF op[2] < 0 THEN Func(sp, MkSpan(sp.s, sp.e, op[2])) ELSE Reject(sp)
      [] op[1] = "resolve"     -> Func(sp, ResolveSp(sp, op[2], op[3]))
      [] op[1] = "copy"        -> Func(sp, sp)
      \* resolving an open end against a context of another frequency, when the other end is a
      \* period: mixing frequencies is rejected, never silently accepted
      [] op[1] = "resolve_mixed" -> IF Resolved(sp) THEN Func(sp, sp)
                                    ELSE IF ~IsAbs(sp.s) /\ ~IsAbs(sp.e) THEN Func(sp, NoSpan) \* both from context: unspecified
                                    ELSE Reject(sp)

\* what can be observed of a span through the public API
ProbeCtxs == << <<1, 5>>, <<6, 2>> >>
Observe(sp) == IF sp = NoSpan THEN [resolved |-> FALSE, none |-> TRUE]
               ELSE IF ~Resolved(sp)
               THEN [resolved |-> FALSE, none |-> FALSE, st |-> sp.st,
                     openS |-> ~IsAbs(sp.s), openE |-> ~IsAbs(sp.e),
                     probes |-> [i \in 1..Len(ProbeCtxs) |->
                                    Iter(ResolveSp(sp, ProbeCtxs[i][1], ProbeCtxs[i][2]))]]
               ELSE [resolved |-> TRUE, none |-> FALSE, s |-> sp.s[2], e |-> sp.e[2], st |-> sp.st,
                     len |-> LenOf(sp), iter |-> Iter(sp)]

\* --- laws (checked by TLC in SpansMC) -------------------------------------------------------------
Rev(q) == [i \in 1..Len(q) |-> q[Len(q) + 1 - i]]

Law_Enumerates(sp) == Resolved(sp) =>
    /\ Len(Iter(sp)) = LenOf(sp)
    /\ \A i \in 1..Len(Iter(sp)) : Iter(sp)[i] = ItemAt(sp, i - 1)
    /\ LenOf(sp) > 0 => /\ Iter(sp)[1] = sp.s[2]
                        /\ (sp.e[2] - Iter(sp)[LenOf(sp)]) * Sign(sp.st) \in 0..(Abs_(sp.st) - 1)
    /\ (sp.e[2] - sp.s[2]) * Sign(sp.st) >= 0 => LenOf(sp) > 0

Law_Reverse(sp) ==
    /\ Apply(Apply(sp, <<"reverse">>).sp, <<"reverse">>).sp = sp
    /\ Apply(sp, <<"reversed">>).res = Apply(sp, <<"reverse">>).sp
    /\ Apply(sp, <<"reversed">>).sp = sp
    /\ (Resolved(sp) /\ (sp.e[2] - sp.s[2]) % Abs_(sp.st) = 0) =>
           Iter(Apply(sp, <<"reverse">>).sp) = Rev(Iter(sp))

Law_Shift(sp, k) ==
    /\ Apply(sp, <<"shift", k>>).sp = Apply(Apply(sp, <<"shift_start", k>>).sp, <<"shift_end", k>>).sp
    /\ Apply(sp, <<"add", k>>).res = Apply(sp, <<"shift", k>>).sp
    /\ Apply(sp, <<"sub", k>>).res = Apply(sp, <<"shift", -k>>).sp
    /\ Resolved(sp) => Iter(Apply(sp, <<"shift", k>>).sp) = [i \in 1..LenOf(sp) |-> Iter(sp)[i] + k]

Law_Resolve(sp, cs, ce) ==
    LET r == ResolveSp(sp, cs, ce) IN
    /\ Resolved(r)
    /\ Resolved(sp) => r = sp
    \* resolution commutes with the in-place mutations
    /\ \A k \in {-1, 2} : ResolveSp(Apply(sp, <<"shift", k>>).sp, cs, ce) = Apply(r, <<"shift", k>>).sp
    /\ ResolveSp(Apply(sp, <<"reverse">>).sp, cs, ce) = Apply(r, <<"reverse">>).sp

=============================================================================
