CONSTANTS
  NaN = NaN
  None = None
  NoSer = NoSer
  NoVal = NoVal
  AnyVal = AnyVal
  ULo <- CNeg4
  UHi = 8
  W1 = 3
  W2 = 2
  PairMode = "full"
SPECIFICATION Spec
INVARIANT Inv_Laws
CHECK_DEADLOCK FALSE
