------------------------------ MODULE AcovMC ------------------------------
(* Scenario enumerator for GaussSS.tla: model x shock standard deviations x scale; autocovariances up to order 2. *)
EXTENDS GaussSS
VARIABLES sc, out, done
vars == <<sc, out, done>>

\* thorough tier: Deep <- DeepOn in the cfg (more models incl. the second-lead model L4, more std vectors, orders up to 4)
Deep == FALSE
DeepOn == TRUE
Ids == {"L1", "L2", "L3", "L9", "L5"} \cup (IF Deep THEN {"L4", "LK", "LK2", "L5B"} ELSE {})
SdSets(id) == LET ns == Len(GModel(id).shocks) IN {[i \in 1..ns |-> R(1)], [i \in 1..ns |-> IF i = 1 THEN R(2) ELSE Q(1, 2)]}
              \cup (IF Deep THEN {[i \in 1..ns |-> IF i = 1 THEN Q(1, 3) ELSE R(3)], [i \in 1..ns |-> IF i = 1 THEN RZero ELSE R(1)], [i \in 1..ns |-> R(5)]} ELSE {})
MaxOrder == IF Deep THEN 4 ELSE 2

Acov(id, sdw, ly, Cs) == LET m == GModel(id) n == Len(m.vars) + Len(m.mvars) IN
    [ok |-> ly.ok /\ LyapOk(ly),
     names |-> m.vars \o m.mvars,
     cov |-> [j \in 0..MaxOrder |-> [a \in 1..n |-> [b \in 1..n |->
                LET ea == Elem(id, a) eb == Elem(id, b) IN
                IF ea.unit \/ eb.unit THEN NaN
                ELSE RAdd(QuadSum(Cs, ea.U, eb.U, j, 1, 1), IF j = 0 THEN ShockCov(ea.tw, eb.tw, sdw, 1) ELSE RZero)]]]]

Scale(sd, s) == [i \in 1..Len(sd) |-> RMul(R(s), sd[i])]
Init == sc \in UNION {{[id |-> id, sd |-> sd, sdw |-> sw] : sd \in SdSets(id), sw \in {R(1), R(3)}} : id \in Ids} /\ out = <<>> /\ done = FALSE
Compute == /\ ~done /\ done' = TRUE /\ UNCHANGED sc
           /\ \E ly1 \in {Lyap(sc.id, sc.sd)} : \E ly2 \in {Lyap(sc.id, Scale(sc.sd, 2))} :
              \E c1 \in {CTable(ly1)} : \E c2 \in {CTable(ly2)} :
              \E a1 \in {Acov(sc.id, sc.sdw, ly1, c1)} : \E a2 \in {Acov(sc.id, RMul(R(2), sc.sdw), ly2, c2)} :
                out' = [ok |-> a1.ok, names |-> a1.names, cov |-> a1.cov, src |-> Source(GModel(sc.id)), linear |-> TRUE,
                        shocks |-> GModel(sc.id).shocks, mshocks |-> GModel(sc.id).mshocks,
                        \* scaling all standard deviations by 2 scales every autocovariance by 4
                        scale_law |-> \A j \in 0..MaxOrder, a \in 1..Len(a1.names), b \in 1..Len(a1.names) :
                                         IF a1.cov[j][a][b] = NaN THEN a2.cov[j][a][b] = NaN ELSE a2.cov[j][a][b] = RMul(R(4), a1.cov[j][a][b])]
Next == Compute
Spec == Init /\ [][Next]_vars
Inv_Lyapunov == done => out.ok
Inv_Scale == done => out.scale_law
=============================================================================
