------------------------------ MODULE RootsMC ------------------------------
(* Root certificates of the library: each listed root of a scalar block solves its characteristic polynomial                   *)
(* e r^3 + a r^2 + b r + c = 0 (coefficients of x{+2}, x{+1}, x, x{-1}); first-order blocks have the root -c/b.                               *)
EXTENDS ModelLib
VARIABLE ro
Ids == {"L1", "L2", "L4", "L9", "L7", "L8"}        \* single-equation models (L3 and L6 are triangular compositions of such blocks)
Coef(eq, sh) == LET S == {i \in 1..Len(eq.tx) : eq.tx[i][3] = sh} IN IF S = {} THEN RZero ELSE eq.tx[CHOOSE i \in S : TRUE][1]
RootOk(eq, r) == RAdd(RAdd(RAdd(RMul(Coef(eq, 2), RMul(r, RMul(r, r))), RMul(Coef(eq, 1), RMul(r, r))), RMul(Coef(eq, 0), r)), Coef(eq, -1)) = RZero
Init == \E id \in Ids : LET m == Model(id) IN
          ro = [id |-> id, src |-> Source(m), linear |-> m.linear, fwd |-> m.fwd,
                nunstable |-> Len(SelectSeq(m.roots, LAMBDA r : RLt(ROne, RAbsQ(r)))),
                ok |-> /\ \A i \in 1..Len(m.roots) : RootOk(m.eqs[1], m.roots[i])
                       /\ Len(m.roots) = (IF Coef(m.eqs[1], 2) # RZero THEN 3 ELSE IF Coef(m.eqs[1], 1) = RZero THEN 1 ELSE 2)
                       /\ \A i, j \in 1..Len(m.roots) : i # j => m.roots[i] # m.roots[j]]
Next == UNCHANGED ro
Inv_Roots == ro.ok
=============================================================================
