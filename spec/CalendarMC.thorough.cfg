CONSTANTS
  None = None
  Years <- TYears
  DayYears <- TDayYears
  IntSerials <- CIntSerials
  Offsets <- COffsets
SPECIFICATION Spec
INVARIANT Inv_AddSub
INVARIANT Inv_Tiling
INVARIANT Inv_Accessors
INVARIANT Inv_ShiftKw
INVARIANT Inv_YmdRoundTrip
INVARIANT Inv_RefreqContains
INVARIANT Inv_RefreqMonotone
INVARIANT Inv_CoarseFineCoarse
CHECK_DEADLOCK FALSE
