CONSTANTS
  Deep <- DeepOn
  NaN = NaN
SPECIFICATION Spec
INVARIANT Inv_Laws
CHECK_DEADLOCK FALSE
