------------------------------ MODULE LonfMC ------------------------------
(* Scenario enumerator for Lonf.tla: data x order x smoothing weight. *)
EXTENDS Lonf
VARIABLES sc, out, done
vars == <<sc, out, done>>
CNeg1 == -1
CNeg2 == -2
Deep == FALSE
DeepOn == TRUE
DataSets == {<<1, 3, 2>>, <<2, 4, 6, 1>>, <<3, 1, 2, 2>>, <<0, 2, 5, 1, 3>>, <<1, 2, 3, 4, 5>>, <<4, 0, 3, CNeg1, 2>>, <<2, 2, 2, 2>>}
            \cup (IF Deep THEN {<<1, 4, 1, 4, 1, 4>>, <<0, 1, 3, 6, 5, 2>>, <<5, 3, 3, 0, CNeg2>>, <<2, 7, 1>>, <<0, 0, 6, 0, 0, 1>>} ELSE {})
Lams == {1, 2, 5} \cup (IF Deep THEN {3, 20} ELSE {})
Init == sc \in [data : DataSets, ord : {1, 2}, lam : Lams] /\ out = <<>> /\ done = FALSE
Compute == /\ ~done /\ done' = TRUE /\ UNCHANGED sc
           /\ \E sols \in {Solutions(sc.ord, sc.data, sc.lam)} :
                out' = [exists |-> Law_Exists(sols), unique |-> Law_Unique(sols, Len(sc.data)),
                        sol |-> IF sols = {} THEN <<>> ELSE LET c == CHOOSE x \in sols : TRUE IN [xnum |-> c.xnum, den |-> c.den],
                        npatterns |-> Cardinality(sols)]
Next == Compute
Spec == Init /\ [][Next]_vars
Inv_Exists == done => out.exists
Inv_Unique == done => out.unique
=============================================================================
