CONSTANTS
  NoSpan = NoSpan
  None = None
SPECIFICATION TSpecD
INVARIANT TInv_Enumerates
INVARIANT TInv_Reverse
CONSTRAINT Reach
POSTCONDITION Post
CHECK_DEADLOCK FALSE
