CONSTANTS
  NaN = NaN
  None = None
  AnyVal = AnyVal
SPECIFICATION Spec
INVARIANT Inv_Law
CHECK_DEADLOCK FALSE
