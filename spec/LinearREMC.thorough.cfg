CONSTANTS
  Deep <- DeepOn
SPECIFICATION Spec
INVARIANT Inv_StructuralHolds
INVARIANT Inv_Steady
INVARIANT Inv_LevelIsSteadyPlusDeviation
INVARIANT Inv_ComplexPairs
CHECK_DEADLOCK FALSE
