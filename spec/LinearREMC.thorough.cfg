CONSTANTS
  Deep <- DeepOn
SPECIFICATION Spec
INVARIANT Inv_StructuralHolds
INVARIANT Inv_Steady
INVARIANT Inv_LevelIsSteadyPlusDeviation
CHECK_DEADLOCK FALSE
