--------------------------- MODULE DataboxHist ---------------------------
(* Histories of Databox operations over three handles (initial content fixed, operations chosen freely). *)
EXTENDS Databox

InitHeap == << Ser("Q", S1(0, <<1, NaN, 3>>), "alpha"), Ser("M", S2(1, << <<1, 2>>, <<3, NaN>> >>), ""),
               Ser("Q", S1(CNeg1, <<5, 6>>), "gamma"), Ser("I", S1(2, <<7, 8>>), ""), Ser("Q", Canon(Empty(1)), ""), Num(4),
               Ser("Q", S1(1, <<8, 9, 2>>), ""), Ser("M", S1(0, <<4>>), "beta2"), Ser("Q", S1(CNeg1, <<NaN, 2>>), "") >>
InitBox == [h \in Handles |->
              IF h = "h1" THEN [n \in {"a", "b", "c", "d", "e", "k"} |->
                                  CASE n = "a" -> 1 [] n = "b" -> 2 [] n = "c" -> 3 [] n = "d" -> 4 [] n = "e" -> 5 [] n = "k" -> 6]
              ELSE IF h = "h2" THEN [n \in {"a", "b", "c"} |-> CASE n = "a" -> 7 [] n = "b" -> 8 [] n = "c" -> 9]
              ELSE [n \in {} |-> 0]]
Init == heap = InitHeap /\ box = InitBox /\ last = [op |-> <<"init">>, h |-> "h1", g |-> "h1", k |-> "h1", ids |-> {}]

Bounded == /\ Len(heap) <= 40
           /\ \A id \in 1..Len(heap) : IF heap[id].kind # "ser" THEN TRUE ELSE
                 (IF heap[id].c.start = None THEN TRUE
                  ELSE heap[id].c.start >= ULo + 2 /\ heap[id].c.start + Len(heap[id].c.rows) <= UHi - 2)
Next == /\ Bounded
        /\ \/ \E h \in Handles, sel \in Sels : Keep(h, sel) \/ Remove(h, sel)
           \/ \E h \in Handles, rn \in Renamings : Rename(h, rn)
           \/ \E h \in Handles, k \in Handles, sel \in Sels \cup {<<"pred", "all">>}, pfx \in {"", "x_"}, deep \in BOOLEAN :
                 CopyLike(h, k, IF sel = <<"pred", "all">> THEN <<"pred", "notk">> ELSE sel, pfx, deep)
           \/ \E h \in Handles, g \in Handles, k \in Handles : Merge(h, g, k)
           \/ \E h \in Handles, g \in Handles, w \in {"overlay", "underlay"} : LayOp(h, g, w)
           \/ \E h \in Handles, fl \in {<<"Q", 0, 1>>, <<"Q", None, 0>>, <<"M", 1, None>>, <<"Q", 1, 5>>} : DbClip(h, fl[1], fl[2], fl[3])
           \/ \E h \in Handles, g \in Handles, fe \in {<<"Q", 0>>, <<"M", 1>>} : Prepend(h, g, fe[1], fe[2])
           \/ \E h \in Handles, k \in Handles, sel \in Sels, dr \in BOOLEAN : CsvRoundTrip(h, k, sel, dr)
           \/ \E h \in Handles, k \in Handles, nm \in {<<"a", "c">>, <<"a", "k", "zz">>, <<"c">>}, lh \in {<<0, 1>>, <<CNeg1, 3>>},
                 fo \in {<<"zz", "zz">>, <<"a", "c">>, <<"zz", "a">>, <<"zz", "zzz">>} :
                 SlateRoundTrip(h, k, nm, "Q", lh[1], lh[2], fo[1], IF fo[2] = "zzz" THEN "none" ELSE fo[2])
Spec == Init /\ [][Next]_dvars
=============================================================================
