CONSTANTS
  NoSpan = NoSpan
  None = None
SPECIFICATION Spec
INVARIANT Inv_Enumerates
INVARIANT Inv_Reverse
INVARIANT Inv_Shift
INVARIANT Inv_Resolve
INVARIANT Inv_Frame
CHECK_DEADLOCK FALSE
