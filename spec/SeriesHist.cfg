CONSTANTS
  NaN = NaN
  None = None
  NoSer = NoSer
  NoVal = NoVal
  AnyVal = AnyVal
  ULo <- CNeg6
  UHi = 10
  Handles = {"h1", "h2", "h3"}
SPECIFICATION Spec
INVARIANT Inv_Canon
PROPERTY Prop_Isolation
PROPERTY Prop_FunctionalPure
CHECK_DEADLOCK FALSE
