---------------------------- MODULE LinearREMC ----------------------------
(* Scenario enumerator and period-by-period machine for LinearRE.tla. *)
EXTENDS LinearRE
VARIABLE out
allvars == <<sc, path, t, fin, out>>

CNeg1 == -1
Steady(id) == CASE id = "L1" -> <<R(2)>> [] id = "L2" -> <<R(2)>> [] id = "L3" -> <<RZero, RZero>>
                [] id = "L6" -> <<RZero, R(1)>> [] id = "L9" -> <<R(-2)>> [] id = "L4" -> <<R(2)>> [] id = "L10" -> <<R(2), R(2)>>
                [] id = "L11" -> <<RZero, RZero>> [] id = "L12" -> <<R(-2), R(1), R(-4)>>
\* the steady state is a path: the level above in period 0 and a change per period (zero unless the model grows)
Growth(id) == IF id = "L11" THEN <<Q(1, 2), R(1)>> ELSE RZeroVec(Len(Model(id).vars))
SteadyAt(id, k) == [i \in 1..Len(Model(id).vars) |-> RAdd(Steady(id)[i], RMul(R(k), Growth(id)[i]))]
\* Deep selects the larger scenario sets of the thorough tier (overridden in the .thorough.cfg files: Deep <- DeepOn)
Deep == FALSE
DeepOn == TRUE
\* deviations of the initial window (x_0, x_{-1}) from the steady state
InitDevs(id) == LET n == Len(Model(id).vars) IN
    { <<RZeroVec(n), RZeroVec(n)>>,
      <<[i \in 1..n |-> R(i)], [i \in 1..n |-> R(1 - i)]>>,
      <<[i \in 1..n |-> Q(-1, 2)], [i \in 1..n |-> R(2)]>> }
    \cup (IF Deep THEN { <<[i \in 1..n |-> Q(3, 2)], [i \in 1..n |-> Q(-2, 3)]>>,
                         <<[i \in 1..n |-> R(2 * i - 3)], RZeroVec(n)>> } ELSE {})
\* shock profiles as sets of <<period, shock index, value>>
UProfiles(id) == LET ns == Len(Model(id).shocks) IN
    { {}, {<<1, 1, 1>>}, {<<2, 1, CNeg1>>, <<3, ns, 2>>}, {<<1, ns, 1>>, <<4, 1, 1>>} }
    \cup (IF Deep THEN { {<<1, 1, 2>>, <<2, 1, CNeg1>>, <<3, 1, 1>>, <<4, ns, 2>>},      \* a surprise in every period: four frames
                         {<<3, 1, 3>>}, {<<4, ns, CNeg1>>}, {<<2, ns, 1>>, <<2, 1, 2>>} } ELSE {})
AProfiles(id) == LET ns == Len(Model(id).shocks) IN
    { {}, {<<2, 1, 1>>}, {<<4, 1, CNeg1>>, <<3, ns, 1>>}, {<<1, 1, 2>>, <<4, ns, 1>>} }
    \cup (IF Deep THEN { {<<1, 1, 1>>, <<2, 1, 1>>, <<3, 1, 1>>, <<4, 1, 1>>}, {<<3, 1, 2>>}, {<<4, ns, 3>>}, {<<2, ns, CNeg1>>, <<3, 1, CNeg1>>} } ELSE {})
Prof(id, S) == [s \in 1..(TN + H + 2) |-> [j \in 1..Len(Model(id).shocks) |->
                  IF \E e \in S : e[1] = s /\ e[2] = j THEN R((CHOOSE e \in S : e[1] = s /\ e[2] = j)[3]) ELSE RZero]]
WProf(id) == [s \in 1..(TN + H + 2) |-> [j \in 1..Len(Model(id).mshocks) |-> IF s = 2 THEN R(1) ELSE IF s = 3 THEN R(-2) ELSE RZero]]

Scenarios == UNION {{[id |-> id, dev |-> dv, init |-> ini, u |-> us, a |-> as] :
                        dv \in BOOLEAN, ini \in InitDevs(id), us \in UProfiles(id), as \in AProfiles(id)} : id \in SolvableIds \cup GrowthIds}

InitPath(s) == LET base(k) == IF s.dev THEN RZeroVec(Len(Model(s.id).vars)) ELSE SteadyAt(s.id, k)
                   p == [k \in CNeg1..0 |-> RVecAdd(base(k), IF k = 0 THEN s.init[1] ELSE s.init[2])] IN
    \* in L10 the second variable is the first one a period earlier: the initial window has to say so
    IF s.id = "L10" THEN [p EXCEPT ![0] = <<p[0][1], p[CNeg1][1]>>] ELSE p

Init == sc \in Scenarios /\ path = InitPath(sc) /\ t = 0 /\ fin = FALSE /\ out = <<>>
Step == /\ t < TN /\ ~fin
        /\ \E x \in {StepX(sc.id, path[t], Prof(sc.id, sc.u)[t + 1], Prof(sc.id, sc.a), t + 1, sc.dev)} :
              \E np \in {[k \in CNeg1..(t + 1) |-> IF k = t + 1 THEN x ELSE path[k]]} :
                /\ path' = np
                /\ out' = IF t + 1 < TN THEN <<>>
                          ELSE [src |-> Source(Model(sc.id)), srcb |-> SourceB(Model(sc.id)), linear |-> Model(sc.id).linear, vars |-> Model(sc.id).vars,
                                logv |-> Model(sc.id).logv, shocks |-> Model(sc.id).shocks, mvars |-> Model(sc.id).mvars,
                                mshocks |-> Model(sc.id).mshocks, steady |-> Steady(sc.id), growth |-> Growth(sc.id),
                                u |-> [k \in 1..TN |-> Prof(sc.id, sc.u)[k]], a |-> [k \in 1..(TN + 2) |-> Prof(sc.id, sc.a)[k]],
                                w |-> [k \in 1..TN |-> WProf(sc.id)[k]],
                                eqs |-> Model(sc.id).eqs, meqs |-> Model(sc.id).meqs, T |-> Model(sc.id).T, K |-> Model(sc.id).K,
                                cont |-> [j \in 1..2 |-> Expect(sc.id, x, Prof(sc.id, sc.a), TN, j, sc.dev)],
                                breaks |-> {1} \cup {s \in 1..TN : \E j \in 1..Len(Model(sc.id).shocks) : Prof(sc.id, sc.u)[s][j] # RZero},
                                meas |-> [k \in 1..TN |-> MeasAt(sc.id, np, WProf(sc.id), k, sc.dev)],
                                nunstable |-> Len(SelectSeq(Model(sc.id).roots, LAMBDA r : RLt(ROne, RAbsQ(r))))
                                              + 2 * Len(SelectSeq(CQuads(Model(sc.id)), LAMBDA c : RLt(ROne, c[2]))), fwd |-> Model(sc.id).fwd]
        /\ t' = t + 1 /\ fin' = (t + 1 = TN) /\ UNCHANGED sc
Next == Step
Spec == Init /\ [][Next]_allvars

\* C01: every structural equation holds in the period just simulated, with leads from the model-consistent continuation
Inv_StructuralHolds == t >= 1 => \A i \in 1..Len(Model(sc.id).eqs) :
    Residual(sc.id, Model(sc.id).eqs[i], path, Prof(sc.id, sc.u), Prof(sc.id, sc.a), t, sc.dev) = RZero
\* the library's steady state is the fixed point of the reduced form and solves the structural equations
Inv_Steady == t = 0 => \A k \in 0..(TN + 2) : SteadyOk(sc.id, SteadyAt(sc.id, k - 1), SteadyAt(sc.id, k))
\* a level simulation is the steady state plus the deviation simulation of the same shocks
RECURSIVE DevPath(_, _)
DevPath(s, k) == IF k <= 0 THEN InitPath([s EXCEPT !.dev = TRUE])[k]
                 ELSE StepX(s.id, DevPath(s, k - 1), Prof(s.id, s.u)[k], Prof(s.id, s.a), k, TRUE)
Inv_LevelIsSteadyPlusDeviation == (fin /\ ~sc.dev) => \A k \in 1..TN : path[k] = RVecAdd(SteadyAt(sc.id, k), DevPath(sc, k))
\* the path does not explode: the stable root governs the propagation (checked on the certificate: |T| rows sum below 1 ...)
\* (a growth model has a unit root: there T is triangular and its diagonal, the roots, does not exceed one)
Inv_Stable == t = 0 => IF sc.id \in GrowthIds
    THEN \A i \in 1..Len(Model(sc.id).T) : (\A j \in (i + 1)..Len(Model(sc.id).T) : Model(sc.id).T[i][j] = RZero) /\ ~RLt(ROne, RAbsQ(Model(sc.id).T[i][i]))
    ELSE \A i \in 1..Len(Model(sc.id).T) : RLt(RSumSeq([j \in 1..Len(Model(sc.id).T) |-> RAbsQ(Model(sc.id).T[i][j])], 1), Q(21, 20))

\* a pair certified as complex-conjugate is one: the discriminant of its block is negative
Inv_ComplexPairs == t = 0 => \A i \in 1..Len(CQuads(Model(sc.id))) :
    LET c == CQuads(Model(sc.id))[i] IN RLt(RMul(c[1], c[1]), RMul(R(4), c[2]))
\* what the harness needs of the final state
View == <<sc, path, t, fin>>
Meas(s) == MeasAt(sc.id, path, WProf(sc.id), s, sc.dev)
=============================================================================
