-------------------------- MODULE SeriesHist --------------------------
(***************************************************************************)
(* Histories of public operations over several Series handles.             *)
(*                                                                         *)
(* cs[h] is the canonical record of handle h.  A step applies one          *)
(* operation with receiver r and argument g; a functional result is        *)
(* stored in handle k (replacing what k referred to).  All other handles   *)
(* must keep their meaning: that is the isolation clause of C10 (copies    *)
(* and functional results never alias their inputs), which only shows in   *)
(* histories - a later write through one handle must not be visible        *)
(* through another.  `loose` is the set of handles whose stored span need  *)
(* only cover the observations (after clip / element-wise methods).        *)
(***************************************************************************)
EXTENDS Series

CONSTANTS Handles
VARIABLES cs, loose, last, val
vars == <<cs, loose, last, val>>

Vals == {NaN, 1, 2, -3}
CNeg1 == -1
CNeg6 == -6
Uncanon(c) == IF c.start = None THEN Empty(c.nv)
              ELSE Mk(c.nv, [hcl \in U \X (1..c.nv) |->
                      IF hcl[1] >= c.start /\ hcl[1] < c.start + Len(c.rows) THEN c.rows[hcl[1] - c.start + 1][hcl[2]] ELSE NaN])

Forms == {"method", "func"}
Ops(nv) ==
         {<<"get", p, None>> : p \in {<<0>>, <<-1, 1>>, <<1, 2, 3>>}}
    \cup {<<"call", p, None>> : p \in {<<0, 1>>, <<2, 0>>, <<1, 2, 3>>}}
    \cup {<<"set", p, x, vs>> : p \in {<<1>>, <<-1>>, <<3>>, <<0, 1>>, <<2, 3>>},
                                x \in {<<"sc", NaN>>, <<"sc", 5>>},
                                vs \in (IF nv = 1 THEN {None} ELSE {None, <<2>>})}
    \cup {<<"shift", f, k>> : f \in Forms, k \in {-1, 1, 2}}
    \cup {<<"clip", lh[1], lh[2]>> : lh \in {<<None, 1>>, <<1, None>>, <<0, 2>>}}
    \cup {<<"un", "neg">>}
    \cup {<<"elem", f, g[1], g[2]>> : f \in Forms, g \in {<<"abs", 0>>, <<"maximum", 1>>}}
    \cup {<<"binsc", "add", 3>>, <<"rbinsc", "sub", 3>>}
    \cup {<<"stat", f, g>> : f \in Forms, g \in {"sum", "nanmax"}}
    \cup {<<"mov", f, "sum", 2>> : f \in Forms}
    \cup {<<"fill", f, mt[1], mt[2], sp>> : f \in Forms, mt \in {<<"constant", 7>>, <<"previous", 0>>}, sp \in {None, <<0, 3>>}}
    \cup {<<"extrap", f, <<1>>, 1, 2, 3>> : f \in Forms}
    \cup {<<"copy">>, <<"rebuild">>}
    \cup {<<"rw", "neg", 0>>, <<"rw", "pos", NaN>>}
    \cup {<<"overlay", f>> : f \in Forms} \cup {<<"underlay", f>> : f \in Forms}
    \cup {<<"hstack">>}
    \cup {<<"binser", f>> : f \in {"add", "sub"}}

Ser1(f) == Canon(Mk(1, [hcl \in U \X (1..1) |-> IF hcl[1] \in 0..2 THEN f[hcl[1] + 1] ELSE NaN]))
Ser2(f) == Canon(Mk(2, [hcl \in U \X (1..2) |-> IF hcl[1] \in 0..1 THEN f[hcl[1] + 1][hcl[2]] ELSE NaN]))
InitSeries == {Ser1(<<1, 2, -3>>), Ser1(<<NaN, 2, NaN>>), Ser1(<<1, NaN, 2>>), Ser1(<<-3, NaN, NaN>>),
               Ser2(<< <<1, 2>>, <<2, -3>> >>), Ser2(<< <<NaN, 2>>, <<1, NaN>> >>)}

Init == /\ cs \in [Handles -> InitSeries]
        /\ loose = {} /\ last = <<"init">> /\ val = NoVal

Bounded(S) == /\ \A bcl \in DOMAIN S.m : LET x == S.m[bcl] IN IF x = NaN THEN TRUE ELSE (x >= -60 /\ x <= 60)
              /\ \A t \in Support(S) : t >= ULo + 3 /\ t <= UHi - 3
              /\ S.nv <= 3
LooseAfter(op, o, r) ==   \* is the receiver / result stored loosely after this operation?
    [a |-> (r \in loose /\ (op[1] \in {"get", "call", "copy", "un", "binsc", "rbinsc", "stat", "mov", "overlay", "underlay",
                                          "hstack", "binser", "fill", "extrap"} \/ (op[1] = "shift" /\ TRUE)
                                          \/ (op[1] = "elem"))) \/ ~o.exact_a,
     res |-> ~o.exact_res \/ (r \in loose /\ op[1] \in {"copy", "shift", "elem"})]      \* (a rebuilt series is trimmed by its constructor)

\* enabling conditions that do not depend on the outcome (shared with TraceSeries.tla)
Pre(r, g, op) ==
      /\ (UsesB(op) => g # r)
      /\ (~UsesB(op) => g = r)
      \* operations whose outcome depends on the stored span (not only on the map) are taken only on
      \* handles whose stored span is known to be the trimmed one
      /\ (r \in loose => ~( (op[1] = "fill" /\ op[5] = None) \/ (op[1] = "stat" /\ op[3] \in {"nansum", "nanprod", "nanmax", "nanmin"})
                            \/ op[1] \in {"underlay"} ))
      /\ (g \in loose => op[1] # "overlay")
\* the state after an accepted outcome o of operation op with receiver r and target k
NewCs(r, k, o) == IF o.res = NoSer THEN [cs EXCEPT ![r] = Canon(o.a)]
                  ELSE [cs EXCEPT ![r] = Canon(o.a), ![k] = Canon(o.res)]
NewLoose(r, k, op, o) == LET la == LooseAfter(op, o, r) IN
                         IF o.res = NoSer
                         THEN (IF op[1] \in {"set", "fill", "extrap", "stat", "mov", "overlay", "underlay"} /\ ~la.a
                               THEN loose \ {r} ELSE IF la.a THEN loose \cup {r} ELSE loose)
                         ELSE (IF la.res THEN loose \cup {k} ELSE loose \ {k})
Eff(r, g, k, op, o) ==
           /\ cs' = NewCs(r, k, o)
           /\ val' = o.val
           /\ last' = <<op, r, g, k>>
           /\ loose' = NewLoose(r, k, op, o)
Step(r, g, k, op) ==
    \E A \in {Uncanon(cs[r])} : \E B \in {Uncanon(cs[g])} :
      /\ op \in Ops(A.nv)
      /\ Pre(r, g, op)
      /\ (UsesB(op) => Compatible(A, B))
      /\ \E o \in {Apply(A, B, op)} :
           /\ ~o.rej
           /\ Bounded(o.a) /\ (o.res # NoSer => Bounded(o.res))
           /\ (o.res = NoSer => k = r)
           /\ Eff(r, g, k, op, o)
Next == \E r \in Handles, g \in Handles, k \in Handles : \E op \in Ops(1) \cup Ops(2) : Step(r, g, k, op)
Spec == Init /\ [][Next]_vars

\* isolation: a step changes only the receiver (method forms) or only the target handle (functional forms)
Prop_Isolation == [][\A h \in Handles :
                       (h # last'[2] /\ h # last'[4]) => cs'[h] = cs[h]]_vars
Prop_FunctionalPure == [][(last'[4] # last'[2]) => cs'[last'[2]] = cs[last'[2]]]_vars
Inv_Canon == \A h \in Handles : Law_Canon(Uncanon(cs[h])) /\ Canon(Uncanon(cs[h])) = cs[h]
=============================================================================
