CONSTANTS
  None = None
  Handles = {"h1", "h2", "h3"}
  Kind = "seq"
SPECIFICATION Spec
INVARIANT Inv_Typed
PROPERTY Prop_Independence
PROPERTY Prop_DupEquivalent
CHECK_DEADLOCK FALSE
