------------------------------- MODULE Aldi -------------------------------
(***************************************************************************)
(* Differentiation of model equations (aldi/differentiators.py).           *)
(*                                                                         *)
(* An expression is a tree:                                                *)
(*   <<"num", q>>  <<"var", name, shift>>  <<"par", name>>                 *)
(*   <<"neg", a>>  <<"add", a, b>> <<"sub", a, b>> <<"mul", a, b>>         *)
(*   <<"div", a, b>> <<"pow", a, b>>                                       *)
(*   <<"fn", f, a>>  (log exp sqrt logistic abs normal_cdf normal_pdf)     *)
(*   <<"fn2", f, a, b>>  (maximum, minimum)                                *)
(*   <<"ifge", a, b, u, v>>  = u if a >= b else v  (appears in derivatives)*)
(*   <<"ufn", f, a, b>>  user (context) functions, known to the spec by     *)
(*       their definition: blend(u, v) = 3/4 u + 1/4 v, prodsq(u, v) = u u v *)
(*       (irispie differentiates them by two-sided finite differences)     *)
(* D(e, w) is the derivative tree of e with respect to the occurrence      *)
(* w = <<name, shift>> by the textbook rules.  On the rational fragment    *)
(* (no "fn") trees are evaluated exactly and TLC checks Inv_RulesAgree:    *)
(* the value of D equals the derivative part of forward-mode dual numbers, *)
(* an independent formulation.  Trees with functions are evaluated by the  *)
(* harness (the primitive function values are its only contribution).      *)
(***************************************************************************)
EXTENDS Rat

Num(q)      == <<"num", q>>
Zero        == Num(RZero)
One         == Num(ROne)
IsZero(e)   == e = Zero
IsOne(e)    == e = One
\* light simplification so that derivative trees stay small
Add(a, b)   == IF IsZero(a) THEN b ELSE IF IsZero(b) THEN a ELSE <<"add", a, b>>
Sub(a, b)   == IF IsZero(b) THEN a ELSE IF IsZero(a) THEN <<"neg", b>> ELSE <<"sub", a, b>>
Mul(a, b)   == IF IsZero(a) \/ IsZero(b) THEN Zero ELSE IF IsOne(a) THEN b ELSE IF IsOne(b) THEN a ELSE <<"mul", a, b>>
Div(a, b)   == IF IsZero(a) THEN Zero ELSE <<"div", a, b>>
Neg(a)      == IF IsZero(a) THEN Zero ELSE <<"neg", a>>

RECURSIVE D(_, _)
D(e, w) ==
    CASE e[1] = "num" -> Zero
      [] e[1] = "par" -> Zero
      [] e[1] = "var" -> IF <<e[2], e[3]>> = w THEN One ELSE Zero
      [] e[1] = "neg" -> Neg(D(e[2], w))
      [] e[1] = "add" -> Add(D(e[2], w), D(e[3], w))
      [] e[1] = "sub" -> Sub(D(e[2], w), D(e[3], w))
      [] e[1] = "mul" -> Add(Mul(D(e[2], w), e[3]), Mul(e[2], D(e[3], w)))
      [] e[1] = "div" -> Div(Sub(Mul(D(e[2], w), e[3]), Mul(e[2], D(e[3], w))), <<"mul", e[3], e[3]>>)
      \* a^b = exp(b log a):  a^b * (b' log a + b a'/a); the log term only if the exponent depends on w
      [] e[1] = "pow" -> Add(Mul(Mul(e[3], <<"pow", e[2], <<"sub", e[3], One>> >>), D(e[2], w)),
                             Mul(Mul(e, <<"fn", "log", e[2]>>), D(e[3], w)))
      [] e[1] = "fn"  -> Mul(CASE e[2] = "log" -> Div(One, e[3])
                               [] e[2] = "exp" -> e
                               [] e[2] = "sqrt" -> Div(One, <<"mul", Num(R(2)), e>>)
                               [] e[2] = "logistic" -> <<"mul", e, <<"sub", One, e>> >>
                               [] e[2] = "abs" -> <<"ifge", e[3], Zero, One, Num(R(-1))>>
                               [] e[2] = "normal_cdf" -> <<"fn", "normal_pdf", e[3]>>
                               [] e[2] = "normal_pdf" -> <<"neg", <<"mul", e[3], e>> >>,
                             D(e[3], w))
      [] e[1] = "fn2" -> IF e[2] = "maximum" THEN <<"ifge", e[3], e[4], D(e[3], w), D(e[4], w)>>
                         ELSE <<"ifge", e[4], e[3], D(e[3], w), D(e[4], w)>>
      [] e[1] = "ifge" -> <<"ifge", e[2], e[3], D(e[4], w), D(e[5], w)>>
      [] e[1] = "ufn" -> IF e[2] = "blend" THEN Add(Mul(Num(Q(3, 4)), D(e[3], w)), Mul(Num(Q(1, 4)), D(e[4], w)))
                         ELSE Add(Mul(<<"mul", <<"mul", Num(R(2)), e[3]>>, e[4]>>, D(e[3], w)), Mul(<<"mul", e[3], e[3]>>, D(e[4], w)))

RECURSIVE Rational(_)
Rational(e) == \* the fragment evaluated exactly: no functions, integer constant exponents
    CASE e[1] \in {"num", "par", "var"} -> TRUE
      [] e[1] = "neg" -> Rational(e[2])
      [] e[1] \in {"add", "sub", "mul", "div"} -> Rational(e[2]) /\ Rational(e[3])
      [] e[1] = "ufn" -> Rational(e[3]) /\ Rational(e[4])
      [] e[1] = "pow" -> Rational(e[2]) /\ e[3][1] = "num" /\ e[3][2][2] = 1 /\ e[3][2][1] \in 0..3
      [] OTHER -> FALSE

RECURSIVE RPow(_, _)
RPow(a, n) == IF n = 0 THEN ROne ELSE RMul(a, RPow(a, n - 1))
\* exact value on the rational fragment; env maps <<name, shift>> and parameter names to rationals
RECURSIVE Val(_, _)
Val(e, env) ==
    CASE e[1] = "num" -> e[2]
      [] e[1] = "par" -> env[<<e[2], 0>>]
      [] e[1] = "var" -> env[<<e[2], e[3]>>]
      [] e[1] = "neg" -> RNeg(Val(e[2], env))
      [] e[1] = "add" -> RAdd(Val(e[2], env), Val(e[3], env))
      [] e[1] = "sub" -> RSub(Val(e[2], env), Val(e[3], env))
      [] e[1] = "mul" -> RMul(Val(e[2], env), Val(e[3], env))
      [] e[1] = "div" -> RDiv(Val(e[2], env), Val(e[3], env))
      [] e[1] = "pow" -> LET n == Val(e[3], env) IN IF n[1] >= 0 THEN RPow(Val(e[2], env), n[1]) ELSE RInv(RPow(Val(e[2], env), -n[1]))
      [] e[1] = "ufn" -> IF e[2] = "blend" THEN RAdd(RMul(Q(3, 4), Val(e[3], env)), RMul(Q(1, 4), Val(e[4], env)))
                         ELSE RMul(RMul(Val(e[3], env), Val(e[3], env)), Val(e[4], env))
      [] e[1] = "fn"  -> RZero     \* only reached as  (...) * 0  : the log term of a constant exponent
\* forward-mode dual numbers <<value, derivative>>: an independent formulation of the same derivative
RECURSIVE Dual(_, _, _)
Dual(e, env, w) ==
    CASE e[1] = "num" -> <<e[2], RZero>>
      [] e[1] = "par" -> <<env[<<e[2], 0>>], RZero>>
      [] e[1] = "var" -> <<env[<<e[2], e[3]>>], IF <<e[2], e[3]>> = w THEN ROne ELSE RZero>>
      [] e[1] = "neg" -> LET a == Dual(e[2], env, w) IN <<RNeg(a[1]), RNeg(a[2])>>
      [] e[1] = "add" -> LET a == Dual(e[2], env, w) b == Dual(e[3], env, w) IN <<RAdd(a[1], b[1]), RAdd(a[2], b[2])>>
      [] e[1] = "sub" -> LET a == Dual(e[2], env, w) b == Dual(e[3], env, w) IN <<RSub(a[1], b[1]), RSub(a[2], b[2])>>
      [] e[1] = "mul" -> LET a == Dual(e[2], env, w) b == Dual(e[3], env, w) IN <<RMul(a[1], b[1]), RAdd(RMul(a[2], b[1]), RMul(a[1], b[2]))>>
      [] e[1] = "div" -> LET a == Dual(e[2], env, w) b == Dual(e[3], env, w) q == RDiv(a[1], b[1]) IN
                         <<q, RDiv(RSub(a[2], RMul(q, b[2])), b[1])>>
      [] e[1] = "ufn" -> LET a == Dual(e[3], env, w) b == Dual(e[4], env, w) IN
                         IF e[2] = "blend" THEN <<RAdd(RMul(Q(3, 4), a[1]), RMul(Q(1, 4), b[1])), RAdd(RMul(Q(3, 4), a[2]), RMul(Q(1, 4), b[2]))>>
                         ELSE <<RMul(RMul(a[1], a[1]), b[1]),      \* (a a) b by the product rule on dual numbers
                                RAdd(RMul(RAdd(RMul(a[2], a[1]), RMul(a[1], a[2])), b[1]), RMul(RMul(a[1], a[1]), b[2]))>>
      [] e[1] = "pow" -> LET a == Dual(e[2], env, w) n == e[3][2][1] IN       \* repeated multiplication of dual numbers
                         IF n = 0 THEN <<ROne, RZero>>
                         ELSE <<RPow(a[1], n), RMul(RMul(R(n), RPow(a[1], n - 1)), a[2])>>
\* admissible evaluation point for a rational tree: no division by zero
RECURSIVE Safe(_, _)
Safe(e, env) ==
    CASE e[1] \in {"num", "par", "var"} -> TRUE
      [] e[1] = "neg" -> Safe(e[2], env)
      [] e[1] \in {"add", "sub", "mul"} -> Safe(e[2], env) /\ Safe(e[3], env)
      [] e[1] = "ufn" -> Safe(e[3], env) /\ Safe(e[4], env)
      [] e[1] = "div" -> Safe(e[2], env) /\ Safe(e[3], env) /\ Val(e[3], env) # RZero
      [] e[1] = "pow" -> Safe(e[2], env)
      [] OTHER -> FALSE
Law_RulesAgree(e, env, w) == (Rational(e) /\ Safe(e, env)) => Val(D(e, w), env) = Dual(e, env, w)[2]

\* ---- source text ---------------------------------------------------------------------------------
RatText(q) == IF q[2] = 1 THEN (IF q[1] < 0 THEN "(" \o ToString(q[1]) \o ")" ELSE ToString(q[1]))
              ELSE "(" \o ToString(q[1]) \o "/" \o ToString(q[2]) \o ")"
ShText(k) == IF k = 0 THEN "" ELSE IF k > 0 THEN "{+" \o ToString(k) \o "}" ELSE "{" \o ToString(k) \o "}"
RECURSIVE TreeText(_)
TreeText(e) ==
    CASE e[1] = "num" -> RatText(e[2])
      [] e[1] = "par" -> e[2]
      [] e[1] = "var" -> e[2] \o ShText(e[3])
      [] e[1] = "neg" -> "(-" \o TreeText(e[2]) \o ")"
      [] e[1] = "add" -> "(" \o TreeText(e[2]) \o "+" \o TreeText(e[3]) \o ")"
      [] e[1] = "sub" -> "(" \o TreeText(e[2]) \o "-" \o TreeText(e[3]) \o ")"
      [] e[1] = "mul" -> "(" \o TreeText(e[2]) \o "*" \o TreeText(e[3]) \o ")"
      [] e[1] = "div" -> "(" \o TreeText(e[2]) \o "/" \o TreeText(e[3]) \o ")"
      [] e[1] = "pow" -> "(" \o TreeText(e[2]) \o "^" \o TreeText(e[3]) \o ")"
      [] e[1] = "fn"  -> e[2] \o "(" \o TreeText(e[3]) \o ")"
      [] e[1] = "fn2" -> e[2] \o "(" \o TreeText(e[3]) \o "," \o TreeText(e[4]) \o ")"
      [] e[1] = "ufn" -> e[2] \o "(" \o TreeText(e[3]) \o "," \o TreeText(e[4]) \o ")"
=============================================================================
