-------------------------- MODULE SeriesStep --------------------------
(***************************************************************************)
(* One implementation test per transition of Series: every series state    *)
(* within small bounds x every operation instance.  Compute applies the    *)
(* operation in the specification; TLC checks the laws of C10 on the       *)
(* outcome; the dump is replayed through irispie.                          *)
(***************************************************************************)
EXTENDS Series

CONSTANTS W1,      \* last period of the data window 0..W1 for one-variant series
          W2,      \* same for two-variant series
          PairMode \* "small" | "full": which pairs of series the binary operations are run on

VARIABLES ca, cb, op, post, done
vars == <<ca, cb, op, post, done>>

Vals == {NaN, 2, -3}
CNeg1 == -1
CNeg2 == -2
CNeg4 == -4

\* all series with nv variants whose observations lie in 0..w
Family(nv, w) == {Mk(nv, [ucl \in U \X (1..nv) |-> IF ucl[1] \in 0..w THEN f[ucl] ELSE NaN]) :
                     f \in [(0..w) \X (1..nv) -> Vals]}

Uncanon(c) == IF c.start = None THEN Empty(c.nv)
              ELSE Mk(c.nv, [ucl \in U \X (1..c.nv) |->
                      IF ucl[1] >= c.start /\ ucl[1] < c.start + Len(c.rows) THEN c.rows[ucl[1] - c.start + 1][ucl[2]] ELSE NaN])

S1 == {Canon(S) : S \in Family(1, W1)}
S2 == {Canon(S) : S \in Family(2, W2)}
S1small == {Canon(S) : S \in Family(1, W2)}
NoB == Canon(Empty(1))

Forms == {"method", "func"}
PSets == {<<0>>, <<-1, 1>>, <<2, 0>>, <<1, 2, 3>>, <<3, 4>>}
VSel(nv) == IF nv = 1 THEN {None, <<1>>} ELSE {None, <<1>>, <<2>>, <<2, 1>>}
SetArgs == {<<p, x>> : p \in {<<1>>, <<-1>>, <<3>>, <<0>>}, x \in {<<"sc", NaN>>, <<"sc", 5>>}}
           \cup {<<p, x>> : p \in {<<0, 1>>, <<2, 0>>, <<4, 5>>, <<-2, 1>>},
                            x \in {<<"sc", NaN>>, <<"sc", 5>>, <<"mx", << <<5>>, <<NaN>> >> >>,
                                  <<"mx", << <<NaN>>, <<6>> >> >>, <<"mx", << <<5, 6>>, <<7, NaN>> >> >>}}

UnaryOps(nv) ==
         {<<"get", p, vs>> : p \in PSets, vs \in VSel(nv)}
    \cup {<<"call", p, vs>> : p \in PSets, vs \in VSel(nv)}
    \cup {<<"set", a[1], a[2], vs>> : a \in SetArgs, vs \in (IF nv = 1 THEN {None} ELSE {None, <<1>>, <<2>>})}
    \cup {<<"shift", f, k>> : f \in Forms, k \in {-2, -1, 1, 2}}
    \cup {<<"clip", lh[1], lh[2]>> : lh \in {<<None, 1>>, <<1, None>>, <<1, 1>>, <<CNeg1, 5>>, <<3, 5>>, <<None, None>>}}
    \cup {<<"un", f>> : f \in {"neg", "abs", "pos"}}
    \cup {<<"elem", f, g[1], g[2]>> : f \in Forms, g \in {<<"abs", 0>>, <<"sign", 0>>, <<"maximum", 1>>, <<"minimum", 1>>}}
    \cup {<<"binsc", f, 3>> : f \in {"add", "sub", "mul"}}
    \cup {<<"rbinsc", f, 3>> : f \in {"add", "sub", "mul"}}
    \cup {<<"stat", f, g>> : f \in Forms, g \in {"sum", "prod", "max", "min", "nansum", "nanprod", "nanmax", "nanmin"}}
    \cup {<<"mov", f, g, k>> : f \in Forms, g \in {"sum", "prod"}, k \in {1, 2, 3}}
    \cup {<<"fill", f, mt[1], mt[2], sp>> : f \in Forms,
              mt \in {<<"constant", 7>>, <<"next", 0>>, <<"previous", 0>>, <<"nearest", 0>>, <<"linear", 0>>},
              sp \in {None, <<CNeg1, 3>>, <<1, 2>>}}
    \cup {<<"extrap", f, rho, c, lh[1], lh[2]>> : f \in Forms, rho \in {<<1>>, <<2, CNeg1>>}, c \in {0, 1},
              lh \in {<<1, 2>>, <<3, 4>>, <<2, 2>>}}
    \cup {<<"copy">>, <<"rebuild">>}
    \cup {<<"rw", "neg", 0>>, <<"rw", "pos", NaN>>}

BinaryOps ==
         {<<"overlay", f>> : f \in Forms} \cup {<<"underlay", f>> : f \in Forms}
    \cup {<<"hstack">>}
    \cup {<<"binser", f>> : f \in {"add", "sub", "mul"}}
FillFromOps == {<<"fill", f, "from_series", 0, sp>> : f \in Forms, sp \in {None, <<CNeg1, 3>>, <<1, 2>>}}

Pairs == IF PairMode = "small"
         THEN (S1 \X S1) \cup (S2 \X S1small) \cup (S1small \X S2)
         ELSE (S1 \X S1) \cup (S2 \X S1) \cup (S1 \X S2) \cup (S2 \X S2)

Init == /\ done = FALSE /\ post = <<>>
        /\ \/ /\ ca \in S1 /\ cb = NoB /\ op \in UnaryOps(1)
           \/ /\ ca \in S2 /\ cb = NoB /\ op \in UnaryOps(2)
           \/ /\ \E ab \in Pairs : ca = ab[1] /\ cb = ab[2]
              /\ op \in BinaryOps
           \/ /\ ca \in S1 \cup S2 /\ cb \in S1 /\ op \in FillFromOps

CanonOrNo(S) == IF S = NoSer THEN NoSer ELSE Canon(S)

Compute == /\ ~done /\ done' = TRUE
           /\ \E A \in {Uncanon(ca)} : \E B \in {Uncanon(cb)} : \E o \in {Apply(A, B, op)} :
                post' = [a |-> Canon(o.a), res |-> CanonOrNo(o.res), val |-> o.val, rej |-> o.rej,
                         exact_a |-> o.exact_a, exact_res |-> o.exact_res,
                         laws |-> /\ Law_Pure(A, B, op) /\ Law_WriteFrame(A, B, op) /\ Law_Read(A, B, op)
                                  /\ Law_Shift(A, B, op) /\ Law_Canon(o.a)
                                  /\ (o.res # NoSer => Law_Canon(o.res))
                                  /\ Uncanon(Canon(o.a)) = o.a]
           /\ UNCHANGED <<ca, cb, op>>
Next == Compute
Spec == Init /\ [][Next]_vars

Inv_Laws == done => post.laws
=============================================================================
