CONSTANTS
  NaN = NaN
  None = None
  NoSer = NoSer
  NoVal = NoVal
  AnyVal = AnyVal
  ULo <- TULo
  UHi <- TUHi
  Handles <- THandles
SPECIFICATION TSpec
INVARIANT TInv_Canon
CONSTRAINT Reach
POSTCONDITION Post
CHECK_DEADLOCK FALSE
