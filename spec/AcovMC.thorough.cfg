CONSTANTS
  Deep <- DeepOn
  NaN = NaN
SPECIFICATION Spec
INVARIANT Inv_Lyapunov
INVARIANT Inv_Scale
CHECK_DEADLOCK FALSE
