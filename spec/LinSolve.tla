---------------------------- MODULE LinSolve ----------------------------
(***************************************************************************)
(* Exact solution of a square integer linear system by fraction-free       *)
(* Gauss-Jordan elimination (Bareiss) with row pivoting.                   *)
(* A matrix is a sequence of rows.  Solve(A, b) returns                    *)
(*   [ok |-> TRUE, num |-> N, den |-> D]  with  x_i = N[i] / D[i]  exactly,*)
(* or [ok |-> FALSE] when A is singular.  TLCEval forces each intermediate *)
(* matrix to be evaluated once (TLC evaluates operator arguments lazily).  *)
(* TLC integers are 32-bit and TLC aborts on overflow, so callers keep     *)
(* dimensions and entries small.                                           *)
(***************************************************************************)
EXTENDS Integers, Sequences, TLC

Aug(A, b) == [i \in 1..Len(A) |-> [j \in 1..(Len(A) + 1) |-> IF j <= Len(A) THEN A[i][j] ELSE b[i]]]
SwapRows(M, a, b) == [i \in 1..Len(M) |-> IF i = a THEN M[b] ELSE IF i = b THEN M[a] ELSE M[i]]
HasPivot(M, k) == \E r \in k..Len(M) : M[r][k] # 0
PivotRow(M, k) == CHOOSE r \in k..Len(M) : M[r][k] # 0 /\ \A q \in k..(r - 1) : M[q][k] = 0
ElimStep(M, k, p) == [i \in 1..Len(M) |-> [j \in 1..(Len(M) + 1) |->
                        IF i = k THEN M[i][j]
                        ELSE (M[k][k] * M[i][j] - M[i][k] * M[k][j]) \div p]]
RECURSIVE Elim(_, _, _)
Elim(M, k, p) == IF k > Len(M) THEN [ok |-> TRUE, m |-> M]
                 ELSE IF ~HasPivot(M, k) THEN [ok |-> FALSE, m |-> M]
                 ELSE LET M1 == TLCEval(SwapRows(M, k, PivotRow(M, k))) IN
                      Elim(TLCEval(ElimStep(M1, k, p)), k + 1, M1[k][k])
Solve(A, b) == LET r == TLCEval(Elim(TLCEval(Aug(A, b)), 1, 1)) IN
               IF ~r.ok THEN [ok |-> FALSE]
               ELSE [ok |-> TRUE, num |-> [i \in 1..Len(A) |-> r.m[i][Len(A) + 1]],
                                  den |-> [i \in 1..Len(A) |-> r.m[i][i]]]

RECURSIVE DotN(_, _, _)
DotN(u, v, n) == IF n = 0 THEN 0 ELSE DotN(u, v, n - 1) + u[n] * v[n]
\* the defining property: A x = b, written without fractions (all den[i] are the same number, +-det A)
IsSolution(A, b, s) == s.ok => /\ \A i \in 1..Len(A) : s.den[i] = s.den[1] /\ s.den[i] # 0
                               /\ \A i \in 1..Len(A) : DotN(A[i], s.num, Len(A)) = s.den[1] * b[i]
=============================================================================
