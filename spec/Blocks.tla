----------------------------- MODULE Blocks -----------------------------
(***************************************************************************)
(* Block-recursive ordering of a square incidence matrix                   *)
(* (incidences/blazer.py: blaze).                                          *)
(*                                                                         *)
(* im[e][q] = TRUE iff equation e involves quantity q.  A block sequence   *)
(* is built by SolveBlock(E, Q): a set E of not-yet-solved equations and a *)
(* set Q of not-yet-determined quantities of the same size such that the   *)
(* equations of E involve only quantities of Q or of earlier blocks and    *)
(* the sub-matrix im[E, Q] has a perfect matching (structurally            *)
(* non-singular).  Finish is enabled once everything is solved.  Any       *)
(* behaviour ending in Finish is a valid sequential ordering - that is the *)
(* property; TLC shows on all small matrices that the partition invariant  *)
(* holds and that from every reachable state some step is enabled (the     *)
(* property is satisfiable for every matrix with a perfect matching).      *)
(***************************************************************************)
EXTENDS Integers, Sequences, FiniteSets, TLC

Idx(n) == 1..n

\* perfect matching of the sub-matrix im[E, Q] (|E| = |Q|), by recursive search
RECURSIVE HasPM(_, _, _)
HasPM(im, E, Q) == IF E = {} THEN TRUE
                   ELSE LET e == CHOOSE x \in E : TRUE IN
                        \E q \in Q : im[e][q] /\ HasPM(im, E \ {e}, Q \ {q})

Uses(im, n, e) == {q \in Idx(n) : im[e][q]}

CanSolve(im, n, doneE, doneQ, E, Q) ==
    /\ E # {} /\ E \subseteq Idx(n) \ doneE /\ Q \subseteq Idx(n) \ doneQ
    /\ Cardinality(E) = Cardinality(Q)
    /\ \A e \in E : Uses(im, n, e) \subseteq Q \cup doneQ
    /\ HasPM(im, E, Q)

VARIABLES im, n, doneE, doneQ, blocks, finished
vars == <<im, n, doneE, doneQ, blocks, finished>>

CONSTANT MaxN
Matrices(k) == {m \in [Idx(k) -> [Idx(k) -> BOOLEAN]] : HasPM(m, Idx(k), Idx(k))}

Init == /\ n \in 1..MaxN /\ im \in Matrices(n)
        /\ doneE = {} /\ doneQ = {} /\ blocks = <<>> /\ finished = FALSE
SolveBlock(E, Q) == /\ ~finished /\ CanSolve(im, n, doneE, doneQ, E, Q)
                    /\ doneE' = doneE \cup E /\ doneQ' = doneQ \cup Q
                    /\ blocks' = Append(blocks, <<E, Q>>)
                    /\ UNCHANGED <<im, n, finished>>
Finish == /\ ~finished /\ doneE = Idx(n) /\ doneQ = Idx(n)
          /\ finished' = TRUE /\ UNCHANGED <<im, n, doneE, doneQ, blocks>>
Done == finished /\ UNCHANGED vars
Next == (\E E \in SUBSET Idx(n), Q \in SUBSET Idx(n) : SolveBlock(E, Q)) \/ Finish \/ Done
Spec == Init /\ [][Next]_vars

\* the blocks solved so far partition the solved equations and quantities into square blocks whose
\* equations involve only quantities of their own or earlier blocks
Inv_Partition ==
    /\ Cardinality(doneE) = Cardinality(doneQ)
    /\ \A i, j \in 1..Len(blocks) : i # j => (blocks[i][1] \cap blocks[j][1] = {} /\ blocks[i][2] \cap blocks[j][2] = {})
    /\ UNION {blocks[i][1] : i \in 1..Len(blocks)} = doneE
    /\ UNION {blocks[i][2] : i \in 1..Len(blocks)} = doneQ
Inv_Sequential ==
    \A i \in 1..Len(blocks) :
        /\ Cardinality(blocks[i][1]) = Cardinality(blocks[i][2])
        /\ HasPM(im, blocks[i][1], blocks[i][2])
        /\ \A e \in blocks[i][1] : Uses(im, n, e) \subseteq UNION {blocks[k][2] : k \in 1..i}
\* the remaining matrix always keeps a perfect matching, which is why a further block always exists
Inv_RestMatchable == HasPM(im, Idx(n) \ doneE, Idx(n) \ doneQ)
=============================================================================
