------------------------------ MODULE StackedMC ------------------------------
(***************************************************************************)
(* Nonlinear simulation (stacked_time/, period_by_period/, frames.py,      *)
(* simultaneous/_simulate.py) on library models with exact rational paths. *)
(*                                                                         *)
(* T1 (backward-looking, nonlinear):  x = 1/2 x{-1} + 1 + e ; y = x^2 - 1  *)
(* T2 (nonlinear static block + linear forward-looking block):             *)
(*     c * r = 6 ;  r = c + 1 + e ;  z{+1} - 5/2 z + z{-1} + c^2 - 4 = 0   *)
(*     The spec chooses c_t in {2, 3/2, 3} and derives the shock           *)
(*     e_t = 6/c_t - c_t - 1 (inverse design keeps the path rational).     *)
(* Shocks are anticipated (one frame, perfect foresight) or unanticipated  *)
(* (a new frame starts at every surprise; inside a frame no further        *)
(* surprises are expected, later ones are pruned).  After the span the     *)
(* first-order terminal condition applies: no shocks, z on its stable      *)
(* path z_{t+1} = 1/2 z_t.                                                 *)
(* Inv_DynamicEqHold: on the returned path every equation holds in every   *)
(* period of the LAST frame with leads read from the path itself and, at   *)
(* the end, from the terminal condition; in earlier frames with leads read *)
(* from that frame's own continuation.                                     *)
(***************************************************************************)
EXTENDS Rat, FiniteSets
VARIABLES sc, out, done
vars == <<sc, out, done>>
TN == 3
Half == Q(1, 2)
RECURSIVE HalfPow(_)
HalfPow(k) == IF k = 0 THEN ROne ELSE RMul(Half, HalfPow(k - 1))

\* thorough tier: Deep <- DeepOn in the cfg (larger shocks, a surprise in every period, more initial conditions)
Deep == FALSE
DeepOn == TRUE
CVals == {R(2), Q(3, 2), R(3)} \cup (IF Deep THEN {R(1), R(4)} ELSE {})
EOfC(c) == RSub(RSub(RDiv(R(6), c), c), ROne)
\* c paths over 1..TN with at most two periods away from the steady value 2
CPaths == {p \in [1..TN -> CVals] : Cardinality({t \in 1..TN : p[t] # R(2)}) \in 1..(IF Deep THEN 3 ELSE 2)}
XShocks == (IF Deep THEN {[t \in 1..TN |-> R(t - 2)], [t \in 1..TN |-> IF t = 3 THEN R(5) ELSE RZero], [t \in 1..TN |-> Q(t, 3)]} ELSE {}) \cup
           {[t \in 1..TN |-> RZero], [t \in 1..TN |-> IF t = 1 THEN R(1) ELSE RZero], [t \in 1..TN |-> IF t = 2 THEN R(-2) ELSE IF t = 3 THEN Half ELSE RZero]}

\* ---- T1 -------------------------------------------------------------------------------------------------
RECURSIVE X1(_, _, _)
X1(x0, e, t) == IF t = 0 THEN x0 ELSE RAdd(RAdd(RMul(Half, X1(x0, e, t - 1)), ROne), e[t])
\* ---- T2: z under perfect foresight of c (anticipated), and frame by frame (unanticipated) ---------------------
\* perfect foresight from period s on with information "c path p is known from s on, and equals 2 before/after the span":
Forcing(c) == RSub(RMul(c, c), R(4))
RECURSIVE SumFwd(_, _, _)
SumFwd(p, t, k) == IF t + k > TN THEN RZero ELSE RAdd(RMul(HalfPow(k + 1), Forcing(p[t + k])), SumFwd(p, t, k + 1))
RECURSIVE ZAnt(_, _, _)
ZAnt(z0, p, t) == IF t = 0 THEN z0 ELSE RAdd(RMul(Half, ZAnt(z0, p, t - 1)), SumFwd(p, t, 0))
\* unanticipated: in period t only c_t is known to differ from 2
RECURSIVE ZUn(_, _, _)
ZUn(z0, p, t) == IF t = 0 THEN z0 ELSE RAdd(RMul(Half, ZUn(z0, p, t - 1)), RMul(Half, Forcing(p[t])))

SrcT1 == << "!transition_variables", "x, y", "!transition_shocks", "e", "!transition_equations",
            "x = (1/2)*x{-1} + 1 + e;", "y = x^2 - 1;" >>
SrcT2 == << "!transition_variables", "c, r, z", "!transition_shocks", "e", "!transition_equations",
            "c*r = 6;", "r = c + 1 + e;", "z{+1} - (5/2)*z + z{-1} + c^2 - 4 = 0;" >>
\* T3: genuinely nonlinear in its leads, second lead, nonzero steady state (x = 1); one stable root (about 0.418), two unstable.
\* No closed form: the spec only fixes the scenario and the CLAUSE the harness has to evaluate on the returned frames:
\*   for every frame f and period t in f.start..f.simulation_end:
\*     x_t = 1 + 2/5 (x_{t-1} - 1) + 1/10 log x_{t+2} + 1/20 (x_{t+1}^2 - 1) + e_t    with e_t the shocks visible in frame f,
\*     x_s for s > simulation_end read from the terminal condition (first_order: x_s - 1 = lambda^(s-T) (x_T - 1); data: the input).
SrcT3 == << "!transition_variables", "x", "!transition_shocks", "e", "!transition_equations",
            "x = 1 + (2/5)*(x{-1} - 1) + (1/10)*log(x{+2}) + (1/20)*(x{+1}^2 - 1) + e;" >>
T3Profiles == { <<{}, {<<1, Q(1, 10)>>}>>, <<{<<1, Q(1, 10)>>}, {}>>, <<{<<1, Q(1, 10)>>, <<2, Q(-1, 20)>>}, {}>>,
                <<{<<2, Q(1, 10)>>, <<3, Q(1, 10)>>}, {<<3, Q(1, 20)>>}>>, <<{<<3, Q(-1, 10)>>}, {<<1, Q(1, 10)>>, <<2, Q(1, 10)>>}>> }
Init == /\ sc \in [model : {"T1"}, mode : {"ant", "unant"}, x0 : {R(2), R(4)} \cup (IF Deep THEN {RZero, Q(-3, 2)} ELSE {}), e : XShocks]
                \cup [model : {"T2"}, mode : {"ant", "unant"}, z0 : {RZero, R(1)} \cup (IF Deep THEN {Q(-1, 2)} ELSE {}), c : CPaths]
                \cup [model : {"T3"}, x0 : {ROne, Q(6, 5)}, ua : T3Profiles]
        /\ out = <<>> /\ done = FALSE
Compute == /\ ~done /\ done' = TRUE /\ UNCHANGED sc
           /\ IF sc.model = "T1"
              THEN \E x \in {[t \in 0..TN |-> X1(sc.x0, sc.e, t)]} :
                     out' = [x |-> x, y |-> [t \in 1..TN |-> RSub(RMul(x[t], x[t]), ROne)], e |-> sc.e,
                             src |-> SrcT1, breaks |-> {1} \cup {t \in 1..TN : sc.mode = "unant" /\ sc.e[t] # RZero},
                             holds |-> \A t \in 1..TN : x[t] = RAdd(RAdd(RMul(Half, x[t - 1]), ROne), sc.e[t])]
              ELSE IF sc.model = "T3"
              THEN out' = [src |-> SrcT3, holds |-> TRUE,
                           u |-> [t \in 1..TN |-> IF \E p \in sc.ua[1] : p[1] = t THEN (CHOOSE p \in sc.ua[1] : p[1] = t)[2] ELSE RZero],
                           a |-> [t \in 1..TN |-> IF \E p \in sc.ua[2] : p[1] = t THEN (CHOOSE p \in sc.ua[2] : p[1] = t)[2] ELSE RZero],
                           breaks |-> {1} \cup {p[1] : p \in sc.ua[1]}]
              ELSE \E z \in {[t \in 0..(TN + 1) |-> IF t = TN + 1
                                                      THEN RMul(Half, IF sc.mode = "ant" THEN ZAnt(sc.z0, sc.c, TN) ELSE ZUn(sc.z0, sc.c, TN))
                                                      ELSE IF sc.mode = "ant" THEN ZAnt(sc.z0, sc.c, t) ELSE ZUn(sc.z0, sc.c, t)]} :
                     out' = [c |-> sc.c, r |-> [t \in 1..TN |-> RDiv(R(6), sc.c[t])], e |-> [t \in 1..TN |-> EOfC(sc.c[t])], z |-> z,
                             holds |-> /\ \A t \in 1..TN : RMul(sc.c[t], RDiv(R(6), sc.c[t])) = R(6)
                                       /\ \A t \in 1..TN : RDiv(R(6), sc.c[t]) = RAdd(RAdd(sc.c[t], ROne), EOfC(sc.c[t]))
                                       \* forward-looking equation with the lead read from the returned path: in anticipated mode in every period,
                                       \* in unanticipated mode in the periods of the last frame (after the last surprise)
                                       /\ \A t \in 1..TN : (sc.mode = "ant" \/ \A s \in (t + 1)..TN : sc.c[s] = R(2)) =>
                                             RAdd(RAdd(RSub(z[t + 1], RMul(Q(5, 2), z[t])), z[t - 1]), Forcing(sc.c[t])) = RZero,
                             src |-> SrcT2, breaks |-> {1} \cup {t \in 1..TN : sc.mode = "unant" /\ sc.c[t] # R(2)}]
Next == Compute
Spec == Init /\ [][Next]_vars
Inv_DynamicEqHold == done => out.holds
=============================================================================
