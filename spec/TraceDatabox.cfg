CONSTANTS
  NaN = NaN
  None = None
  NoSer = NoSer
  NoVal = NoVal
  AnyVal = AnyVal
  NoItem = NoItem
  ULo <- TULo
  UHi <- TUHi
  Handles <- THandles
SPECIFICATION TSpec
INVARIANT Inv_Typed
PROPERTY Prop_HeapFrame
PROPERTY Prop_BoxFrame
PROPERTY Prop_NamesFrame
CONSTRAINT Reach
POSTCONDITION Post
CHECK_DEADLOCK FALSE
