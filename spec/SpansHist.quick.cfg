CONSTANTS
  NoSpan = NoSpan
  None = None
  WLo <- WLoQ
  WHi = 7
SPECIFICATION Spec
INVARIANT Inv_Enumerates
INVARIANT Inv_Reverse
INVARIANT Inv_Shift
INVARIANT Inv_Resolve
PROPERTY Prop_OpenEnds
CONSTRAINT InWindow
VIEW View
CHECK_DEADLOCK FALSE
