CONSTANT MaxN = 3
SPECIFICATION Spec
INVARIANT Inv_Partition
INVARIANT Inv_Sequential
INVARIANT Inv_RestMatchable
