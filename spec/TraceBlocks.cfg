SPECIFICATION TSpec
INVARIANT Inv_TracePartition
CONSTRAINT Reach
POSTCONDITION Post
CHECK_DEADLOCK FALSE
