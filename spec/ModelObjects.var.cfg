CONSTANTS
  None = None
  Handles = {"h1", "h2", "h3"}
  Kind = "var"
SPECIFICATION Spec
INVARIANT Inv_Typed
PROPERTY Prop_Independence
PROPERTY Prop_DupEquivalent
CHECK_DEADLOCK FALSE
