CONSTANTS
  NaN = NaN
  None = None
  NoSer = NoSer
  NoVal = NoVal
  AnyVal = AnyVal
  ULo <- TULo
  UHi <- TUHi
  Handles <- THandles
SPECIFICATION TSpecD
INVARIANT TInv_Canon
CONSTRAINT Reach
POSTCONDITION Post
CHECK_DEADLOCK FALSE
