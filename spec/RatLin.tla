------------------------------ MODULE RatLin ------------------------------
(* Gauss-Jordan elimination over exact rationals (Rat.tla) for small systems; RSolve(A, b) = [ok, x]. *)
EXTENDS Rat

RAug(A, b) == [i \in 1..Len(A) |-> [j \in 1..(Len(A) + 1) |-> IF j <= Len(A) THEN A[i][j] ELSE b[i]]]
RSwap(M, a, b) == [i \in 1..Len(M) |-> IF i = a THEN M[b] ELSE IF i = b THEN M[a] ELSE M[i]]
RHasPivot(M, k) == \E r \in k..Len(M) : M[r][k] # RZero
RPivotRow(M, k) == CHOOSE r \in k..Len(M) : M[r][k] # RZero /\ \A q \in k..(r - 1) : M[q][k] = RZero
RElimStep(M, k) == LET piv == M[k][k] IN
    [i \in 1..Len(M) |-> [j \in 1..(Len(M) + 1) |->
        IF i = k THEN RDiv(M[k][j], piv) ELSE RSub(M[i][j], RMul(M[i][k], RDiv(M[k][j], piv)))]]
RECURSIVE RElim(_, _)
RElim(M, k) == IF k > Len(M) THEN [ok |-> TRUE, m |-> M]
               ELSE IF ~RHasPivot(M, k) THEN [ok |-> FALSE, m |-> M]
               ELSE RElim(TLCEval(RElimStep(TLCEval(RSwap(M, k, RPivotRow(M, k))), k)), k + 1)
RSolve(A, b) == LET r == TLCEval(RElim(TLCEval(RAug(A, b)), 1)) IN
                IF ~r.ok THEN [ok |-> FALSE] ELSE [ok |-> TRUE, x |-> [i \in 1..Len(A) |-> r.m[i][Len(A) + 1]]]
RIdent(n) == [i \in 1..n |-> [j \in 1..n |-> IF i = j THEN ROne ELSE RZero]]
RECURSIVE RMatPow(_, _)
RMatPow(A, k) == IF k = 0 THEN RIdent(Len(A)) ELSE RMatMul(A, RMatPow(A, k - 1))
=============================================================================
