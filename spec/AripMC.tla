---------------------------- MODULE AripMC ----------------------------
(* Scenario enumerator for Arip.tla. *)
EXTENDS Arip
VARIABLES sc, out, done
vars == <<sc, out, done>>
CNeg2 == -2

\* low-frequency data patterns; the rate form needs an integer high-frequency rate rho:
\* (last/first)^(1/(low periods between)) converted by ^(1/w): first 1, last 4^(gaps) with w = 2 gives rho = 2
Freqs == {<<"Y", "H", 2>>, <<"H", "Q", 2>>, <<"Y", "Q", 4>>}
DiffData == {<<3, 7>>, <<5, 1, 9>>, <<2, NaN, 8>>, <<4, 6, 5>>, <<6>>, <<1, 2, 4, 3>>}
RateData == {<<1, 4>>, <<2, 8>>, <<3, 12>>}
Aggs == {"sum", "mean", "first", "last"}
NoTgt(n) == [j \in 1..n |-> NaN]
Tgts(n) == {NoTgt(n)} \cup {[j \in 1..n |-> IF j = k THEN 2 ELSE NaN] : k \in {1, 2, n}}
              \cup {[j \in 1..n |-> IF j \in {1, 2} THEN j + 1 ELSE NaN]}

\* c = (last - first)/(index distance) * (1/w) = p/q for the diff form; rho for the rate form
FirstObs(y) == CHOOSE i \in 1..Len(y) : y[i] # NaN /\ \A k \in 1..(i - 1) : y[k] = NaN
LastObs(y)  == CHOOSE i \in 1..Len(y) : y[i] # NaN /\ \A k \in (i + 1)..Len(y) : y[k] = NaN
Scen == {[fr |-> fr, form |-> "diff", y |-> y, agg |-> a, tgt |-> t] :
            fr \in Freqs, y \in DiffData, a \in Aggs, t \in Tgts(2)}   \* placeholder, refined in Pick
Init == sc \in {[kind |-> "head", fr |-> fr, form |-> fm, y |-> y] :
                   fr \in Freqs, fm \in {"diff"}, y \in DiffData}
              \cup {[kind |-> "head", fr |-> fr, form |-> "rate", y |-> y] : fr \in {<<"Y", "H", 2>>, <<"H", "Q", 2>>}, y \in RateData}
        /\ out = <<>> /\ done = FALSE
Pick == /\ sc.kind = "head" /\ UNCHANGED <<out, done>>
        /\ Len(sc.y) * sc.fr[3] <= 8
        /\ \E a \in Aggs, t \in Tgts(Len(sc.y) * sc.fr[3]) :
             sc' = [kind |-> "arip", fr |-> sc.fr, form |-> sc.form, y |-> sc.y, agg |-> a, tgt |-> t]
\* the drift c (diff form) and the rate rho (rate form) are estimated from the low-frequency observations that are
\* imposed as aggregates, i.e. excluding low periods whose high-frequency periods are all given as targets
YEff(s) == LET w == s.fr[3] IN [i \in 1..Len(s.y) |->
               IF \A j \in 1..w : s.tgt[(i - 1) * w + j] # NaN THEN NaN ELSE s.y[i]]
HasObs(y) == \E i \in 1..Len(y) : y[i] # NaN
Prob(s) == LET w == s.fr[3]  y == YEff(s)
               d == IF HasObs(y) THEN LastObs(y) - FirstObs(y) ELSE 0 IN
    IF s.form = "diff"
    THEN [L |-> Len(y), w |-> w, y |-> s.y, agg |-> s.agg, rho |-> 1,
          p |-> IF d = 0 THEN 0 ELSE y[LastObs(y)] - y[FirstObs(y)], q |-> IF d = 0 THEN 1 ELSE d * w, tgt |-> s.tgt]
    ELSE [L |-> Len(y), w |-> w, y |-> s.y, agg |-> s.agg, rho |-> IF d = 0 THEN 1 ELSE 2, p |-> 0, q |-> 1, tgt |-> s.tgt]
\* the rate data are built so that (last/first)^(1/d) = 4 = rho^w with w = 2, rho = 2
RateOk(s) == s.form = "diff" \/ (LET y == s.y d == LastObs(y) - FirstObs(y) IN d > 0 /\ y[LastObs(y)] = y[FirstObs(y)] * PowI(4, d))
Compute == /\ sc.kind = "arip" /\ ~done /\ done' = TRUE /\ UNCHANGED sc
           /\ \E r \in {AripSolve(Prob(sc))} : out' = r
Next == Pick \/ Compute
Spec == Init /\ [][Next]_vars
Inv_Solved == (done /\ out.ok) => out.check
Inv_RateData == sc.kind = "arip" => RateOk(sc)
=============================================================================
