----------------------------- MODULE LinearRE -----------------------------
(***************************************************************************)
(* First-order (linear rational-expectations) simulation over ModelLib.    *)
(*                                                                         *)
(* A scenario fixes the model, the initial window (x_0, x_{-1}), dated     *)
(* unanticipated shocks u (a surprise in its period) and anticipated       *)
(* shocks a (all known from period 1 on).  One step = one period:          *)
(*   x_t = T x_{t-1} + K + R(0) u_t + sum_k R(k) a_{t+k}.                  *)
(* Inv_StructuralHolds: in every simulated period every structural         *)
(* equation has zero residual when leads are read from Expect, the         *)
(* continuation of that same path with known anticipated shocks and no     *)
(* further surprises - this is property C01, and it also validates the     *)
(* reduced-form certificate of the library.                                *)
(***************************************************************************)
EXTENDS ModelLib

VARIABLES sc, path, t, fin
lvars == <<sc, path, t, fin>>

TN == 4                       \* simulated periods 1..TN
NVars(m) == Len(m.vars)
NSh(m)   == Len(m.shocks)

\* shock profiles: function period -> vector (sequence over shocks) of rationals
ZeroProf(m) == [s \in 1..(TN + H + 2) |-> RZeroVec(NSh(m))]
ShockAt(prof, s) == IF s \in DOMAIN prof THEN prof[s] ELSE <<>>

\* impact of the anticipated profile seen from period s: sum_k R(k) a_{s+k}
RECURSIVE AntImpact(_, _, _, _)
AntImpact(id, a, s, k) == IF k > H THEN RZeroVec(Len(Model(id).vars))
                          ELSE RVecAdd(RMatVec(Rk(id, k), IF s + k \in DOMAIN a THEN a[s + k] ELSE RZeroVec(Len(Model(id).shocks))),
                                       AntImpact(id, a, s, k + 1))
\* one period of the reduced form
StepX(id, xprev, u, a, s, dev) ==
    LET m == Model(id) IN
    RVecAdd(RVecAdd(RMatVec(m.T, xprev), IF dev THEN RZeroVec(NVars(m)) ELSE m.K),
            RVecAdd(RMatVec(Rk(id, 0), u), AntImpact(id, a, s, 0)))
\* expectation at the end of period s of x_{s+j} (j >= 1): continue with the anticipated shocks only
RECURSIVE Expect(_, _, _, _, _, _)
Expect(id, xs, a, s, j, dev) == IF j = 0 THEN xs
                                ELSE StepX(id, Expect(id, xs, a, s, j - 1, dev), RZeroVec(Len(Model(id).shocks)), a, s + j, dev)

\* value of x_{s+shift} as seen in period s: history for shift <= 0, expectation for leads
XAt(id, p, a, s, shift, dev) == IF shift <= 0 THEN p[s + shift] ELSE Expect(id, p[s], a, s, shift, dev)
\* residual of structural equation eq in period s; shocks enter with their total value u_s + a_s
RECURSIVE SumTx(_, _, _, _, _, _, _), SumTe(_, _, _)
SumTx(id, tx, p, a, s, dev, i) == IF i > Len(tx) THEN RZero
    ELSE RAdd(RMul(tx[i][1], XAt(id, p, a, s, tx[i][3], dev)[tx[i][2]]), SumTx(id, tx, p, a, s, dev, i + 1))
SumTe(te, e, i) == IF i > Len(te) THEN RZero ELSE RAdd(RMul(te[i][1], e[te[i][2]]), SumTe(te, e, i + 1))
Residual(id, eq, p, u, a, s, dev) ==
    RAdd(RAdd(SumTx(id, eq.tx, p, a, s, dev, 1), SumTe(eq.te, RVecAdd(u[s], a[s]), 1)), IF dev THEN RZero ELSE eq.c)

\* steady state: a path that the reduced form x = T x{-1} + K reproduces (a fixed point when nothing grows), see the library check below
SteadyOk(id, xprev, x) == RVecAdd(RMatVec(Model(id).T, xprev), Model(id).K) = x

\* measurement variables from the path
MeasAt(id, p, w, s, dev) == LET m == Model(id) IN
    [i \in 1..Len(m.mvars) |->
        RAdd(RAdd(SumTx(id, m.meqs[i].tx, p, ZeroProf(m), s, dev, 1), IF dev THEN RZero ELSE m.meqs[i].d),
             SumTe(m.meqs[i].tw, w[s], 1))]
=============================================================================
