---------------------------- MODULE ModelLangMC ----------------------------
(* Base models, syntactic choices and the renderer of whole model sources for ModelLang.tla. *)
EXTENDS ModelLang
CONSTANTS QuickMod, QuickSel      \* keep the choice vectors whose index is QuickSel modulo QuickMod (1, 0 = all)
VARIABLES sc, out, done
vars == <<sc, out, done>>
CNeg1 == -1
CNeg2 == -2

V(n, s) == <<"var", n, s>>
P(n) == <<"par", n>>
N(i) == Num(R(i))
Eqn(d, l, r, sl, sr) == [desc |-> d, lhs |-> l, rhs |-> r, hasSteady |-> sl # <<>>, slhs |-> sl, srhs |-> sr, fac |-> "none"]
EqF(d, l, r, f) == [desc |-> d, lhs |-> l, rhs |-> r, hasSteady |-> FALSE, slhs |-> <<>>, srhs |-> <<>>, fac |-> f]

\* the flag decides the constant of the y equation (rendered through !if when factored)
ModelA(flag) == [
    tv |-> << <<"x_n", "Output">>, <<"k", "Capital">>, <<"y", "">>, <<"ca", "">>, <<"cb", "">> >>,
    sh |-> << <<"e", "">> >>, pa |-> << <<"a", "">>, <<"b", "Slope">> >>, mv |-> << <<"o", "Observed">> >>,
    logs |-> {"k", "y", "ca", "cb", "o"}, flag |-> flag,
    teq |-> << [EqF("Eq one", V("x_n", 0), <<"add", <<"mul", P("a"), V("x_n", CNeg1)>>, V("e", 0)>>, "subst") EXCEPT
                    !.hasSteady = TRUE, !.slhs = V("x_n", 0), !.srhs = N(1)],
               Eqn("", V("k", 0), <<"sub", <<"add", <<"add", Mac("diff_log", V("y", 0), Dflt), Mac("mov_avg", V("x_n", 1), CNeg2)>>,
                                                  <<"pow", V("y", 0), N(2)>> >>, <<"pow", P("b"), N(2)>> >>, <<>>, <<>>),
               EqF("Third & 'last'", V("y", 0), <<"add", Mac("pct", V("k", 0), CNeg2), IF flag THEN N(1) ELSE N(2)>>, "if"),
               EqF("", V("ca", 0), <<"add", <<"mul", P("a"), V("x_n", 0)>>, N(1)>>, "for"),
               EqF("", V("cb", 0), <<"add", <<"mul", P("b"), V("x_n", 0)>>, N(1)>>, "for") >>,
    meq |-> << Eqn("", V("o", 0), <<"add", V("x_n", 0), V("k", 1)>>, <<>>, <<>>) >> ]
ModelB == [
    tv |-> << <<"x_n", "">>, <<"k", "">>, <<"y", "Why">>, <<"ca", "">>, <<"cb", "">> >>,
    sh |-> << <<"e", "Shock">> >>, pa |-> << <<"a", "">>, <<"b", "">> >>, mv |-> << <<"o", "">> >>,
    logs |-> {"y"}, flag |-> TRUE,
    teq |-> << EqF("", V("x_n", 0), <<"add", <<"mul", P("a"), V("x_n", CNeg1)>>, V("e", 0)>>, "subst"),
               Eqn("Macros", V("k", 0), <<"add", <<"add", <<"add", Mac("shift", V("x_n", 0), CNeg2), Mac("diff", V("x_n", 0), Dflt)>>,
                                                        <<"add", Mac("roc", V("y", 0), CNeg1), Mac("mov_sum", V("k", CNeg1), Dflt)>> >>,
                                               \* compound arguments inside products: the expansion has to stay one factor
                                               <<"add", <<"mul", N(2), Mac("shift", <<"add", V("x_n", 0), V("y", 0)>>, CNeg1)>>,
                                                        <<"mul", N(3), Mac("diff", <<"sub", V("x_n", 0), V("y", 0)>>, Dflt)>> >> >>, <<>>, <<>>),
               EqF("", V("y", 0), <<"add", <<"add", Mac("mov_prod", V("y", CNeg1), 2), Mac("mov_avg", V("x_n", 0), 3)>>,
                                        <<"add", Mac("diff", <<"fn", "log", V("x_n", 0)>>, CNeg1), N(1)>> >>, "if"),
               EqF("", V("ca", 0), <<"add", <<"mul", P("a"), V("x_n", 0)>>, N(1)>>, "for"),
               EqF("", V("cb", 0), <<"add", <<"mul", P("b"), V("x_n", 0)>>, N(1)>>, "for") >>,
    meq |-> << Eqn("Meas", V("o", 0), <<"mul", V("y", 0), Mac("roc", V("x_n", 0), Dflt)>>, <<>>, <<>>) >> ]
\* every loggable variable is a log-variable: rendered as !all-but with an empty list
ModelC == [ModelB EXCEPT !.logs = {"x_n", "k", "y", "ca", "cb", "o"}]
\* pseudofunctions inside pseudofunctions (the meaning is Expand applied inside out)
ModelD == [
    tv |-> << <<"x_n", "">>, <<"k", "">>, <<"y", "">>, <<"ca", "">>, <<"cb", "">> >>,
    sh |-> << <<"e", "">> >>, pa |-> << <<"a", "">>, <<"b", "">> >>, mv |-> << <<"o", "">> >>,
    logs |-> {"y"}, flag |-> TRUE,
    teq |-> << EqF("", V("x_n", 0), <<"add", <<"mul", P("a"), V("x_n", CNeg1)>>, V("e", 0)>>, "none"),
               Eqn("", V("k", 0), <<"add", Mac("diff", Mac("diff", V("x_n", 0), Dflt), Dflt), Mac("mov_sum", Mac("diff", V("k", CNeg1), CNeg1), CNeg2)>>, <<>>, <<>>),
               Eqn("", V("y", 0), <<"add", Mac("pct", Mac("roc", V("y", 0), CNeg1), CNeg1), N(1)>>, <<>>, <<>>),
               EqF("", V("ca", 0), <<"add", <<"mul", P("a"), V("x_n", 0)>>, N(1)>>, "none"),
               EqF("", V("cb", 0), <<"add", <<"mul", P("b"), V("x_n", 0)>>, N(1)>>, "none") >>,
    meq |-> << Eqn("", V("o", 0), V("y", 0), <<>>, <<>>) >> ]
Models == [A1 |-> ModelA(TRUE), A2 |-> ModelA(FALSE), B |-> ModelB, C |-> ModelC, D |-> ModelD]

Choices == [kw : {"under", "hyphen", "short"}, br : {"curly", "square"}, plus : BOOLEAN, eq : {"plain", "colon"}, pw : {"caret", "stars"},
            sep : {"comma", "space", "nl"}, cm : 0..2, logstyle : {"list", "allbut"}, mac : {"long", "short"}, dflt : BOOLEAN,
            fac : {"plain", "for", "forctx", "if", "subst", "all"}, sp : {"", " "}]

\* ---- whole-source rendering -----------------------------------------------------------------------------
Kw(name, ch) ==         \* name with underscores, e.g. "transition_variables"
    LET parts == CASE name = "transition_variables" -> <<"transition", "variables">> [] name = "transition_shocks" -> <<"transition", "shocks">>
                   [] name = "transition_equations" -> <<"transition", "equations">> [] name = "measurement_variables" -> <<"measurement", "variables">>
                   [] name = "measurement_equations" -> <<"measurement", "equations">> [] name = "log_variables" -> <<"log", "variables">>
                   [] name = "all_but" -> <<"all", "but">> [] name = "parameters" -> <<"parameters">> [] name = "substitutions" -> <<"substitutions">> IN
    IF Len(parts) = 1 THEN "!" \o parts[1]
    ELSE IF ch.kw = "short" /\ parts[1] = "transition" THEN "!" \o parts[2]
    ELSE "!" \o parts[1] \o (IF ch.kw = "under" THEN "_" ELSE "-") \o parts[2]
Quote(d) == IF d = "" THEN "" ELSE "\"" \o d \o "\" "
Sep(ch) == CASE ch.sep = "comma" -> ", " [] ch.sep = "space" -> " " [] ch.sep = "nl" -> ""
\* names of a declaration block as lines (one line, or one line per name)
RECURSIVE JoinQ(_, _, _)
JoinQ(q, ch, i) == IF i > Len(q) THEN "" ELSE (IF i = 1 THEN "" ELSE Sep(ch)) \o Quote(q[i][2]) \o q[i][1] \o JoinQ(q, ch, i + 1)
NameLines(q, ch) == IF ch.sep = "nl" THEN [i \in 1..Len(q) |-> "    " \o Quote(q[i][2]) \o q[i][1]] ELSE << "    " \o JoinQ(q, ch, 1) >>
Cmt(ch, i) == IF ch.cm = 1 THEN (IF i % 2 = 0 THEN "  % a comment = 1;" ELSE "  # another !comment") ELSE ""

UseFor(ch) == ch.fac \in {"for", "forctx", "all"}
UseIf(ch) == ch.fac \in {"if", "all"}
UseSubst(ch) == ch.fac \in {"subst", "all"}
\* the transition variables: ca, cb are declared through a !for loop when that factoring is chosen
TvLines(m, ch) == IF ~UseFor(ch) THEN NameLines(m.tv, ch)
                  ELSE NameLines(SubSeq(m.tv, 1, 3), ch)
                       \o (IF ch.fac = "forctx" THEN << "    !for ?w = <names> !do", "        c?w", "    !end" >>
                           ELSE << "    !for ? = a, b !do c? !end" >>)
LogLines(m, ch) == LET loggable == [i \in 1..(Len(m.tv) + Len(m.mv)) |-> IF i <= Len(m.tv) THEN m.tv[i][1] ELSE m.mv[i - Len(m.tv)][1]]
                       sel == SelectSeq(loggable, LAMBDA n : IF ch.logstyle = "list" THEN n \in m.logs ELSE n \notin m.logs) IN
                   << Kw("log_variables", ch) \o (IF ch.logstyle = "allbut" THEN " " \o Kw("all_but", ch) ELSE "") >>
                   \o NameLines([i \in 1..Len(sel) |-> <<sel[i], "">>], [ch EXCEPT !.sep = IF ch.sep = "nl" THEN "nl" ELSE ch.sep])
\* one equation; decorations: description, steady variant, continuation line, comment
EqText(q, ch) == TText(q.lhs, ch) \o ch.sp \o EqSign(ch) \o ch.sp \o TText(q.rhs, ch)
                 \o (IF q.hasSteady THEN " !!" \o ch.sp \o TText(q.slhs, ch) \o EqSign(ch) \o TText(q.srhs, ch) ELSE "")
EqLines(q, ch, i) ==
    IF q.fac = "subst" /\ UseSubst(ch)
    THEN << "    " \o Quote(q.desc) \o TText(q.lhs, ch) \o EqSign(ch) \o "($s$" \o "+" \o TText(q.rhs[3], ch) \o ")"
            \o (IF q.hasSteady THEN " !!" \o ch.sp \o TText(q.slhs, ch) \o EqSign(ch) \o TText(q.srhs, ch) ELSE "") \o ";" \o Cmt(ch, i) >>
    ELSE IF q.fac = "if" /\ ch.fac = "forctx" /\ q.rhs[3][1] = "num"
    THEN << "    " \o Quote(q.desc) \o TText(q.lhs, ch) \o EqSign(ch) \o "(" \o TText(q.rhs[2], ch) \o "+<cst>);" \o Cmt(ch, i) >>
    ELSE IF q.fac = "if" /\ UseIf(ch)
    \* (with everything factored the description comes from the context, through a Jinja expression)
    THEN << "    " \o (IF ch.fac = "all" /\ q.desc # "" THEN "\"{{ third }}\" " ELSE Quote(q.desc)) \o TText(q.lhs, ch) \o EqSign(ch) \o "(" \o TText(q.rhs[2], ch) \o "+",
            \* (with everything factored, an !if without !else precedes its sibling with !else)
            "        " \o (IF ch.fac = "all" THEN "!if True !then 0+ !end " ELSE "")
            \o "!if flag !then " \o TText(IF q.rhs[3] = N(2) THEN N(1) ELSE q.rhs[3], ch) \o " !else " \o (IF q.rhs[3] = N(2) THEN "2" ELSE "7") \o " !end );" >>
    ELSE IF ch.cm = 2
    THEN << "    " \o Quote(q.desc) \o TText(q.lhs, ch) \o " ...", "        " \o EqSign(ch) \o " " \o TText(q.rhs, ch) \o " ... continued",
            "        " \o (IF q.hasSteady THEN "!!" \o ch.sp \o TText(q.slhs, ch) \o EqSign(ch) \o TText(q.srhs, ch) ELSE "") \o ";" >>
    ELSE << "    " \o Quote(q.desc) \o EqText(q, ch) \o ";" \o Cmt(ch, i) >>
RECURSIVE EqBlock(_, _, _)
EqBlock(qs, ch, i) ==
    IF i > Len(qs) THEN <<>>
    ELSE IF qs[i].fac = "for" /\ UseFor(ch)
    THEN (IF i + 1 <= Len(qs) /\ qs[i + 1].fac = "for"        \* the two instances of the template are written once
          THEN (IF ch.fac = "forctx"
                THEN << "    !for ?w = <names> !do", "        c?w" \o EqSign(ch) \o "((?w*x_n)+1);", "    !end" >>
                ELSE << "    !for ? = a, b !do", "        c?" \o ch.sp \o EqSign(ch) \o "((?*x_n)+1);", "    !end" >>)
               \o EqBlock(qs, ch, i + 2)
          ELSE EqBlock(qs, ch, i + 1))
    ELSE EqLines(qs[i], ch, i) \o EqBlock(qs, ch, i + 1)
\* the order in which the parameters are declared is theirs in the model: reversed when the text is blank-padded (the equations, and
\* their text, stay the same while every parameter gets another position)
PaDecl(m, ch) == IF ch.sp = " " THEN [i \in 1..Len(m.pa) |-> m.pa[Len(m.pa) + 1 - i]] ELSE m.pa
Render(m, ch) ==
       (IF ch.cm = 2 THEN << "%{ a block comment #{ wrapping one of the other style #}", "   !variables zz  x_n = 1;", "%}" >> ELSE <<>>)
    \o << Kw("transition_variables", ch) \o Cmt(ch, 1) >> \o TvLines(m, ch)
    \o LogLines(m, ch)
    \o << Kw("transition_shocks", ch) >> \o NameLines(m.sh, ch)
    \o << Kw("parameters", ch) >> \o NameLines(PaDecl(m, ch), ch)
    \o (IF UseSubst(ch) THEN << Kw("substitutions", ch), "    s " \o EqSign(ch) \o " " \o TText(m.teq[1].rhs[2], ch) \o ";" >> ELSE <<>>)
    \o << Kw("transition_equations", ch) >>
    \o (IF ch.cm = 2 THEN << "#{ disabled: %{ an older remark %}", "    x_n = 0.5*k + 1;", "#}" >> ELSE <<>>)
    \o EqBlock(m.teq, ch, 1)
    \o << Kw("measurement_variables", ch) >> \o NameLines(m.mv, ch)
    \o << Kw("measurement_equations", ch) >> \o EqBlock(m.meq, ch, 1)

\* ---- the meaning handed to the harness --------------------------------------------------------------------
Meaning(m) == [tv |-> m.tv, sh |-> m.sh, pa |-> m.pa, mv |-> m.mv, logs |-> m.logs, flag |-> m.flag,
               eqs |-> [i \in 1..(Len(m.teq) + Len(m.meq)) |->
                          LET q == IF i <= Len(m.teq) THEN m.teq[i] ELSE m.meq[i - Len(m.teq)] IN
                          [desc |-> q.desc, lhs |-> Expand(q.lhs), rhs |-> Expand(q.rhs),
                           slhs |-> IF q.hasSteady THEN Expand(q.slhs) ELSE Expand(q.lhs), srhs |-> IF q.hasSteady THEN Expand(q.srhs) ELSE Expand(q.rhs)]]]

Ix(S, x) == Cardinality({y \in S : y < x})        \* position of x in a set of strings / numbers (TLC orders them)
BIx(b) == IF b THEN 1 ELSE 0
ChoiceIdx(c) == BIx(c.br = "square") + 2 * BIx(c.plus) + 4 * BIx(c.eq = "colon") + 8 * BIx(c.pw = "stars")
                + 16 * (CASE c.sep = "comma" -> 0 [] c.sep = "space" -> 1 [] c.sep = "nl" -> 2) + 48 * c.cm
                + 144 * BIx(c.logstyle = "allbut") + 288 * BIx(c.mac = "short") + 576 * BIx(c.dflt) + 1152 * BIx(c.sp = " ")
                + 7 * (CASE c.fac = "plain" -> 0 [] c.fac = "for" -> 1 [] c.fac = "forctx" -> 2 [] c.fac = "if" -> 3 [] c.fac = "subst" -> 4 [] c.fac = "all" -> 5)
                + 3 * (CASE c.kw = "under" -> 0 [] c.kw = "hyphen" -> 1 [] c.kw = "short" -> 2)
Init == sc \in [mid : {"A1", "A2", "B", "C"}, kw : {"under", "hyphen", "short"}, fac : {"plain", "for", "forctx", "if", "subst", "all"}]
                \cup [mid : {"D"}, kw : {"under"}, fac : {"plain"}]
        /\ out = <<>> /\ done = FALSE
\* the remaining choices are made in a second step (all workers enumerate them)
Pick == /\ ~done /\ "ch" \notin DOMAIN sc /\ UNCHANGED <<out, done>>
        /\ \E c \in Choices : c.kw = sc.kw /\ c.fac = sc.fac /\ ChoiceIdx(c) % QuickMod = QuickSel /\ (sc.mid = "D" => (c.cm = 0 /\ c.sep = "comma" /\ c.logstyle = "list")) /\ sc' = [mid |-> sc.mid, kw |-> sc.kw, fac |-> sc.fac, ch |-> c]
Compute == /\ ~done /\ "ch" \in DOMAIN sc /\ done' = TRUE /\ UNCHANGED sc
           /\ \E m \in {Models[sc.mid]} :
                out' = [text |-> Render(m, sc.ch), paorder |-> [i \in 1..Len(m.pa) |-> PaDecl(m, sc.ch)[i][1]],
                        expanded |-> \A i \in 1..(Len(m.teq) + Len(m.meq)) :
                                        LET q == IF i <= Len(m.teq) THEN m.teq[i] ELSE m.meq[i - Len(m.teq)] IN ~HasMac(Expand(q.rhs)) /\ ~HasMac(Expand(q.lhs))]
\* the meanings of the base models, in a run of their own
InitM == sc \in [mid : {"A1", "A2", "B", "C", "D"}] /\ out = <<>> /\ done = FALSE
ComputeM == ~done /\ done' = TRUE /\ UNCHANGED sc /\ out' = [meaning |-> Meaning(Models[sc.mid]), expanded |-> TRUE]
SpecM == InitM /\ [][ComputeM]_vars
Next == Pick \/ Compute
Spec == Init /\ [][Next]_vars
\* macro expansion is total: no macro node survives
Inv_ExpandTotal == done => out.expanded
\* no text is a rendering of two models with different meanings (here: the three base models)
ASSUME Inv_UnambiguousSample ==
    \A c \in {[kw |-> "under", br |-> "curly", plus |-> TRUE, eq |-> "plain", pw |-> "caret", sep |-> "comma", cm |-> 0, logstyle |-> "list",
               mac |-> "long", dflt |-> FALSE, fac |-> f, sp |-> ""] : f \in {"plain", "if", "all"}} :
       \A a, b \in {"A1", "A2", "B", "C"} : (a # b /\ Meaning(Models[a]) # Meaning(Models[b])) =>
            (Render(Models[a], c) # Render(Models[b], c) \/ (c.fac \in {"if", "all"} /\ {a, b} = {"A1", "A2"}))
=============================================================================
