------------------------------ MODULE Arip ------------------------------
(***************************************************************************)
(* disaggregate(method="arip"): the documented autoregressive smoothing    *)
(* problem (series/arip.py), solved exactly.                               *)
(*                                                                         *)
(* High-frequency unknowns x_1..x_n (n = L * w: L low periods, w periods   *)
(* within each).  "diff" form: minimise sum (x_{t+1} - x_t - c)^2;         *)
(* "rate" form: minimise sum ((x_{t+1} - rho x_t)/sigma_{t+1})^2 with      *)
(* sigma_t = rho^(t-1).  With z_t = x_t / rho^(t-1) the rate criterion is  *)
(* sum (z_{t+1} - z_t)^2, so both forms are the same quadratic problem in  *)
(* z with weights g_t = rho^(t-1) (g = 1 for "diff"):                      *)
(*     minimise sum (z_{t+1} - z_t - c)^2                                  *)
(*     subject to  sum_j Z_j g_j z_j = y_i   for every observed low period *)
(*                 g_j z_j = target_j        for every target value        *)
(* c = p/q is rational; with Zq = q z all data are integers.  The KKT      *)
(* system is solved exactly by LinSolve.                                   *)
(***************************************************************************)
EXTENDS LinSolve

CONSTANT NaN

RECURSIVE PowI(_, _)
PowI(b, e) == IF e = 0 THEN 1 ELSE b * PowI(b, e - 1)

AggVec(agg, w) == [j \in 1..w |-> CASE agg \in {"sum", "mean"} -> 1 [] agg = "first" -> (IF j = 1 THEN 1 ELSE 0)
                                      [] agg = "last" -> (IF j = w THEN 1 ELSE 0)]
AggScale(agg, w) == IF agg = "mean" THEN w ELSE 1      \* mean: sum x = w * y

\* problem: [L, w, y (low data, NaN allowed), agg, rho (integer >= 1), p, q (c = p/q), tgt (Seq over 1..n of value or NaN)]
ObsLow(P) == {i \in 1..P.L : P.y[i] # NaN}
TgtSet(P) == {j \in 1..(P.L * P.w) : P.tgt[j] # NaN}
\* a low period whose high-frequency periods are all given as targets is not imposed as an aggregate
FullLow(P) == {i \in 1..P.L : \A j \in 1..P.w : P.tgt[(i - 1) * P.w + j] # NaN}
ConLow(P) == ObsLow(P) \ FullLow(P)
SeqOfSet(S) == LET RECURSIVE F(_)
                   F(T) == IF T = {} THEN <<>> ELSE LET m == CHOOSE x \in T : \A y \in T : x <= y IN <<m>> \o F(T \ {m})
               IN F(S)

KKT(P) ==
    LET n  == P.L * P.w
        cl == SeqOfSet(ConLow(P))
        ct == SeqOfSet(TgtSet(P))
        m  == Len(cl) + Len(ct)
        g(j) == PowI(P.rho, j - 1)
        \* constraint row r (1..m) coefficient on z_j, and right-hand side (times q)
        crow(r, j) == IF r <= Len(cl)
                      THEN (IF ((j - 1) \div P.w) + 1 = cl[r] THEN AggVec(P.agg, P.w)[((j - 1) % P.w) + 1] * g(j) ELSE 0)
                      ELSE (IF j = ct[r - Len(cl)] THEN g(j) ELSE 0)
        crhs(r) == IF r <= Len(cl) THEN P.q * AggScale(P.agg, P.w) * P.y[cl[r]] ELSE P.q * P.tgt[ct[r - Len(cl)]]
        \* D'D for first differences, and D'(p 1)
        f(i, j) == IF i = j THEN (IF i = 1 \/ i = n THEN 1 ELSE 2) ELSE IF i - j = 1 \/ j - i = 1 THEN -1 ELSE 0
        rhsz(i) == IF i = 1 THEN -P.p ELSE IF i = n THEN P.p ELSE 0
    IN [A |-> [i \in 1..(n + m) |-> [j \in 1..(n + m) |->
                 IF i <= n /\ j <= n THEN f(i, j)
                 ELSE IF i <= n THEN crow(j - n, i)
                 ELSE IF j <= n THEN crow(i - n, j) ELSE 0]],
        b |-> [i \in 1..(n + m) |-> IF i <= n THEN rhsz(i) ELSE crhs(i - n)],
        n |-> n]

\* exact high-frequency values x_j = rho^(j-1) Zq_j / q as <<numerator, denominator>>
AripSolve(P) == LET k == TLCEval(KKT(P)) s == TLCEval(Solve(k.A, k.b)) IN
    IF ~s.ok THEN [ok |-> FALSE]
    ELSE [ok |-> TRUE, x |-> [j \in 1..k.n |-> <<PowI(P.rho, j - 1) * s.num[j], s.den[j] * P.q>>],
          check |-> IsSolution(k.A, k.b, s)]
=============================================================================
