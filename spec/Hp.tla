------------------------------- MODULE Hp -------------------------------
(***************************************************************************)
(* Constrained Hodrick-Prescott filter (series/_hp.py), solved exactly.    *)
(*                                                                         *)
(* Filter span 1..n.  y[t] is the observation or NaN; the trend minimises  *)
(*     sum over observed t of (y_t - tau_t)^2                              *)
(*       + lam * sum_{t=3..n} (tau_t - 2 tau_{t-1} + tau_{t-2})^2          *)
(* subject to tau_t = lev[t] where lev[t] # NaN and tau_t - tau_{t-1} =    *)
(* chg[t] where chg[t] # NaN (t >= 2).  The optimality (KKT) conditions    *)
(* form a square integer system solved by LinSolve; tau_t = num[t]/den[t]. *)
(***************************************************************************)
EXTENDS LinSolve, FiniteSets

CONSTANT NaN

SetToSeq(S) == LET RECURSIVE F(_)
                   F(T) == IF T = {} THEN <<>> ELSE LET m == CHOOSE x \in T : \A z \in T : x <= z IN <<m>> \o F(T \ {m})
               IN F(S)
\* second-difference operator: row r (1..n-2) has 1, -2, 1 in columns r, r+1, r+2
KEntry(r, j) == IF j = r THEN 1 ELSE IF j = r + 1 THEN -2 ELSE IF j = r + 2 THEN 1 ELSE 0
RECURSIVE KtK(_, _, _, _)
KtK(n, i, j, r) == IF r > n - 2 THEN 0 ELSE KEntry(r, i) * KEntry(r, j) + KtK(n, i, j, r + 1)

HpKKT(P) ==
    LET n  == Len(P.y)
        lv == SetToSeq({t \in 1..n : P.lev[t] # NaN})
        cg == SetToSeq({t \in 2..n : P.chg[t] # NaN})
        m  == Len(lv) + Len(cg)
        obs(t) == IF P.y[t] = NaN THEN 0 ELSE 1
        crow(r, j) == IF r <= Len(lv) THEN (IF j = lv[r] THEN 1 ELSE 0)
                      ELSE LET t == cg[r - Len(lv)] IN IF j = t THEN 1 ELSE IF j = t - 1 THEN -1 ELSE 0
        crhs(r) == IF r <= Len(lv) THEN P.lev[lv[r]] ELSE P.chg[cg[r - Len(lv)]]
    IN [A |-> [i \in 1..(n + m) |-> [j \in 1..(n + m) |->
                 IF i <= n /\ j <= n THEN (IF i = j THEN obs(i) ELSE 0) + P.lam * KtK(n, i, j, 1)
                 ELSE IF i <= n THEN crow(j - n, i)
                 ELSE IF j <= n THEN crow(i - n, j) ELSE 0]],
        b |-> [i \in 1..(n + m) |-> IF i <= n THEN (IF P.y[i] = NaN THEN 0 ELSE P.y[i]) ELSE crhs(i - n)],
        n |-> n]

HpSolve(P) == LET k == TLCEval(HpKKT(P)) s == TLCEval(Solve(k.A, k.b)) IN
    IF ~s.ok THEN [ok |-> FALSE]
    ELSE [ok |-> TRUE, num |-> SubSeq(s.num, 1, k.n), den |-> SubSeq(s.den, 1, k.n), check |-> IsSolution(k.A, k.b, s)]

\* laws of C14 that follow for particular inputs
\* a straight line with every point observed and no constraint is returned unchanged
IsLine(P) == /\ \A t \in 1..Len(P.y) : P.y[t] # NaN /\ P.lev[t] = NaN /\ P.chg[t] = NaN
             /\ \A t \in 3..Len(P.y) : P.y[t] - 2 * P.y[t - 1] + P.y[t - 2] = 0
Law_LineFixed(P, s) == (s.ok /\ IsLine(P)) => \A t \in 1..Len(P.y) : s.num[t] = s.den[t] * P.y[t]
\* constraints are met exactly
Law_Feasible(P, s) == s.ok =>
    /\ \A t \in 1..Len(P.y) : P.lev[t] # NaN => s.num[t] = s.den[t] * P.lev[t]
    /\ \A t \in 2..Len(P.y) : P.chg[t] # NaN => s.num[t] * s.den[t - 1] - s.num[t - 1] * s.den[t] = P.chg[t] * s.den[t] * s.den[t - 1]
=============================================================================
