#!/venv/bin/python
"""Regenerate MANIFEST.json from the table below (one entry per claimed property)."""
import json, os, subprocess
VERIF = os.path.dirname(os.path.dirname(os.path.abspath(__file__)))
props = [json.loads(l) for l in open(os.path.join(VERIF, "properties.jsonl"))]

CLAIMED = {
    "C04": dict(
        text="ModelLang.tla specifies the language generatively: structured models are the meaning, Expand gives the documented meaning of every "
             "pseudofunction, Render produces the source for each combination of 12 syntactic choices (keyword spellings/shortcuts, brackets, "
             "= / :=, ^ / **, separators, comments and continuations, !log-variables list / !all-but, pseudofunction spellings and default shifts, "
             "!for anonymous/named/contextual, !if / !else incl. an !if without !else before a sibling with one, $substitutions$, !! variants, descriptions incl. one "
             "supplied through a Jinja expression from the context, declaration order of the parameters); TLC checks that expansion is total and that "
             "the base models are never confused. Every rendered text is parsed by Simultaneous.from_string and compared with the meaning (names by "
             "kind and order, descriptions, log status, every dynamic and steady equation on random data against the expanded trees); all "
             "renderings of one model must yield the same model.",
        note="Trusted: TLC, the harness' tree evaluator. Bounds: 4 structured models, 124k renderings (quick: every 40th choice vector, all "
             "alternatives covered). Macro arguments with more than one level of parentheses, Jinja beyond one {{ }} expression, autoswaps, pre/post-processors not covered. One known finding (a pseudofunction nested in another is not expanded).",
        design="5/C04", technique="TLA+ generative spec (ModelLang) checked by TLC; every TLC-rendered source replayed into irispie's parser"),
    "C02": dict(
        text="Aldi.tla defines derivative trees by the textbook rules (incl. two user context functions known by their definition) and, independently, "
             "forward-mode dual numbers; on the rational fragment TLC evaluates both exactly and checks that they agree for every enumerated tree and "
             "occurrence. Every tree becomes an equation of a model (source text from the spec) and is observed at all three places the property names: "
             "systemize() (A/B cells through the implementation's own token labels), the stacked-time evaluator's eval_func/eval_jacob over three "
             "periods with different data in every column (whole rows compared, so placement is decided too), and the flat and nonflat steady "
             "evaluators' eval_jacob (levels and changes, time 0 and time k blocks, chain rule for the log-variable), in systemize() of the SECOND variant of a "
             "two-variant model with its own steady values, and - the same tree one period "
             "earlier as a measurement equation - in the F and G blocks of the measurement system; a construct is either differentiated to the spec's "
             "value or rejected. The stacked-time Jacobian WITH the first-order terminal condition is decided on the linear library (leads, second lead, "
             "second lag): one full Newton step from an arbitrary starting point must land on the spec's exact path.",
        note="Trusted: TLC, the harness' tree evaluator with math/scipy primitives. Bounds: trees of depth <= 2 (quick: seeded 6% of the depth-2 ones), "
             "one evaluation point per observer (three per tree for the stacked-time Jacobian), positive bases for ^, kinks excluded; user functions are "
             "differentiated by finite differences, compared at 2e-6.",
        design="5/C02", technique="TLA+ spec (Aldi) model-checked by TLC on the rational fragment; every TLC-generated tree replayed into irispie's systemize(), stacked-time and steady evaluators"),
    "C03": dict(
        text="KalmanMC.tla builds the joint Gaussian distribution of states, measurement variables and shocks of three periods from the library's "
             "reduced form (unconditional start = exact Lyapunov solution) and obtains predicted/updated/smoothed means and variances, one-step "
             "prediction errors, their covariances, determinants and quadratic forms as exact conditional moments (rational linear solves); TLC "
             "checks non-negativity and the data-reproduction/equation identities on them. kalman_filter(return_info=True) is compared group by "
             "group, period by period, with these moments, and the likelihood, its contributions (zero without observations) and var_scale with "
             "the exact prediction-error decomposition, in level and deviation mode; with rescale_variance the likelihood concentrated at the maximum-likelihood "
             "scale, the contributions at the rescaled variances and the rescaled smoothed moments, also on a two-variant model whose variants are rescaled separately; "
             "time-varying standard deviations supplied as data (stds_from_data) enter the joint distribution as an extra transition- or measurement-shock variance in single periods. For unit-root models (no exact moments) the recursion clauses are evaluated on the output: prediction "
             "step, update without observation, last period, predicted measurement.",
        note="Trusted: TLC, numpy. Bounds: 4 stationary library models (1-2 states, 1-2 observables, lagged state in the measurement equation), 3 periods, "
             "3-4 missing-data masks, 2x2 variance settings. Unit-root (diffuse) initialisation is not covered by exact moments.",
        design="5/C03", technique="TLA+ spec (KalmanMC over GaussSS) model-checked by TLC in exact rational arithmetic; every TLC-computed scenario replayed into irispie"),
    "C08": dict(
        text="On the exact conditional moments of KalmanMC.tla TLC checks that smoothed measurement variables equal the data where observed (zero "
             "variance) and that the smoothed means satisfy every measurement equation with the smoothed measurement shocks and every transition "
             "equation with the smoothed shocks. On kalman_filter's output the same clauses are evaluated with the structural form emitted by the "
             "spec, values are compared with the spec, the model is re-simulated from the smoothed initial condition and shocks, deviation mode "
             "is compared with level mode minus steady state, under three histories of the solved model; clause-only scenarios add a unit-root "
             "model observed in levels, forward-looking models with anticipated shocks given as data, measurement-shock means given as data, and a model with log transition "
             "variables and a plain measurement variable; models with two observables are also "
             "run with their measurement equations rendered as a simultaneous block (ModelLib.SourceB: same meaning, non-symmetric Jacobian).",
        note="Trusted: TLC, numpy. Bounds as C03; for the unit-root and anticipated-shock scenarios only the clauses (not exact moments) are decided. "
             "Transition equations and re-simulation are checked from the second filter period on.",
        design="5/C08", technique="TLA+ spec (KalmanMC over GaussSS) model-checked by TLC; TLC-computed scenarios and the spec-emitted structural form replayed into irispie"),
    "C15": dict(
        text="GaussSS.tla obtains the stationary covariance of each library model as the exact solution of its Lyapunov equation (rational "
             "Gauss-Jordan), builds C(k) = T^k Omega and the measurement block (lagged states, shared measurement shocks), and marks variables "
             "loaded on a unit root as NaN; TLC checks the Lyapunov identity and the s^2 scaling law on every scenario. get_acov, get_acorr, "
             "get_acov_dimension_names and rescale_stds are compared entry by entry through the reported names, also with the scenarios of one model "
             "as the variants of ONE multi-variant model (every variant rescaled).",
        note="Trusted: TLC, scipy Lyapunov solver/numpy. Bounds: library models L1, L2, L3, L9 and the unit-root model L5, orders 0..2, 4 std settings; "
             "the scale law is additionally exercised at scales 1e-3 and 1e-7 against the exact values.",
        design="5/C15", technique="TLA+ spec (GaussSS over RatLin/ModelLib) model-checked by TLC in exact rational arithmetic; every TLC-computed scenario replayed into irispie"),
    "C01": dict(
        text="ModelLib.tla holds small linear RE models (structural equations, measurement block) with a reduced-form certificate that is not "
             "trusted: LinearRE.tla simulates period by period and TLC checks in exact rational arithmetic, on every behaviour, that every "
             "structural equation has zero residual with leads read from the model-consistent continuation (the property itself), that the steady "
             "state - a fixed point, or a path for the linearised balanced-growth model - is reproduced by the reduced form, and that level = steady + deviation; root certificates are checked against the characteristic polynomials. "
             "The model source emitted by the spec is parsed, solved and simulated by irispie (a second time with force_split_frames=True); whole paths and root counts are compared; two library "
             "models of the same shape are also run as the two parameter variants of ONE parametric linear model (variant k must follow its own spec path); a fifth of the "
             "scenarios is repeated on the model declared deterministic, a third with the measurement equations rendered as a simultaneous block.",
        note="Trusted: TLC, scipy QZ/numpy primitives. Bounds: the library (rational roots, <= 2 states, leads and lags up to 2, log-variables, measurement "
             "with lagged states, a unit root with drift, one complex-conjugate unstable pair), 4 periods, shocks in {-1,1,2} (thorough: 5 initial windows x 8 x 8 shock profiles). Larger models and arbitrary parameters are out of bound.",
        design="5/C01", technique="TLA+ spec (ModelLib, LinearRE) model-checked by TLC in exact rational arithmetic; every TLC-generated behaviour replayed into irispie"),
    "C05": dict(
        text="SteadyMC.tla holds a library of models with their exact steady solutions (levels and changes) as certificates that are not trusted: TLC "
             "checks in exact rational arithmetic that every steady equation is zero on the path level + change*k (level*change^k for log-variables) "
             "at k = 0..3 (Inv_SteadyEqHold) and that quantities fixed or swapped by a steady plan keep their values (Inv_PlanRespected). The source "
             "emitted by the spec is solved by solve_steady in every configuration (split_into_blocks default/True/False, one and two variants, the default and the "
             "scipy_root solver, further starting values where the solution is unique); "
             "levels, changes and endogenized parameters are compared with the certificate and every steady equation is re-evaluated on the stored "
             "path at several dates with the harness' own tree evaluator.",
        note="Trusted: TLC, the harness' tree evaluator. Bounds: 11 library instances (flat nonlinear two-block; balanced growth with log-variables "
             "and fix_level; linear growth; linear forward-looking; log-linear with lag/lead 2 under linear=True; exogenize-variable/endogenize-parameter "
             "plan; flat mode with an exogenous variable carrying a stale change; linear growth with a unit root, drift and measurement equations; a simultaneous core followed by a recursive tail two levels deep; "
             "a cubic whose sum of squares has a local minimum away from the only real root; a trend whose change only the plan pins down (SteadyPlan.fix: level and change)), "
             "one instance also as two variants with different growth rates, flat flag "
             "given at creation or at solve time. The statement is conditional on solve_steady completing; Newton convergence is not decided. One known finding (linear models ignore "
             "steady plans).",
        design="5/C05", technique="TLA+ spec (SteadyMC) model-checked by TLC in exact rational arithmetic; every TLC-verified instance replayed into irispie's solve_steady"),
    "C06": dict(
        text="LinearREMC.tla (library incl. a model with a second lead) supplies the exact first-order path, checked by TLC against every structural "
             "equation; StackedMC.tla supplies nonlinear models whose exact rational solution is designed backwards from the path (anticipated shocks = "
             "one frame with perfect foresight, unanticipated = one frame per surprise with later surprises pruned), with Inv_DynamicEqHold checked by "
             "TLC, plus a clause-only model that is nonlinear in its first and second lead. Every scenario is run through simulate(method=stacked_time) "
             "under terminal x initial_guess in {first_order, data}^2 and period_by_period for backward-looking models: the path is compared with the "
             "spec path (= first-order path for the linear models), the reported frames with the spec's partition, each frame's databox with the slices "
             "written back, measurement variables with their inputs, and every equation is re-evaluated frame by frame with the shocks visible in the "
             "frame and the terminal condition in force. Two library models are also run as the two variants of ONE parametric model on a two-variant databox whose "
             "variants have their surprises in different periods (own frames per variant) and which carries stale parameter entries that must not be used; the short method "
             "names are configurations of their own, and surprises scaled by 1e-9 must still start their frames.",
        note="Trusted: TLC, numpy, the neqs Newton solver (success is a precondition; step_tolerance disabled because neqs stops exactly solved systems with "
             "'cannot make further progress'). Bounds: 6 linear/log-linear models x 144 level scenarios of 4 periods, nonlinear T1/T2/T3 of 3 periods; "
             "no deviation mode (stacked time has none); plans under stacked_time are exercised in C07.",
        design="5/C06", technique="TLA+ specs (LinearREMC, StackedMC) model-checked by TLC in exact rational arithmetic; every TLC-computed scenario replayed into irispie's stacked-time and period-by-period simulators"),
    "C07": dict(
        text="PlansMC.tla takes targets from an ordinary LinearRE simulation, endogenizes the same shocks (anticipated or unanticipated, prior "
             "input 0 or 1/2), solves for the instruments through the exact impact matrix and TLC checks that they are the original shocks and that "
             "the planned path satisfies the structural equations; every non-singular scenario is run through SimulationPlan + simulate(plan=...) "
             "under method first_order (also frame by frame, force_split_frames=True) and, in level mode, stacked_time, and compared (targets hit, shocks recovered, whole path, "
             "other shocks unchanged); two scenarios with the same plan are also run as the two variants of one input databox, a sixth of the scenarios on the model declared "
             "deterministic and a sixth with a plan that had a further pair registered and taken out again (status=False) while the databox keeps the stale target.",
        note="Trusted: TLC, numpy primitives, the neqs solver for stacked_time. Bounds: library models L1, L2, L3, L6 (log-variables), L9; <= 2 (target, instrument) pairs (also with the first shock as the later instrument). Anticipated plans "
             "are combined with anticipated base shocks only (mixing them with later surprises is not specified). Two known findings (stacked_time ignores "
             "unanticipated targets dated differently from their instrument; frame-by-frame first_order fails when a frame break separates an unanticipated instrument from its target).",
        design="5/C07", technique="TLA+ spec (PlansMC over LinearRE) model-checked by TLC; every TLC-computed scenario replayed into irispie"),
    "C18": dict(
        text="Ols.tla lays out the VAR regressors, selects exactly the complete periods and solves the normal equations exactly (LinSolve); TLC "
             "verifies the solution, the orthogonality of residuals to every regressor and the recovery of noise-free VARs. Every scenario is "
             "replayed through RedVAR.estimate (coefficients, residuals, covariance with and without dof correction), simulate with the estimated "
             "residuals, and the companion-form mean, eigenvalues, largest modulus / stability flag and autocovariances. Prior dummy observations "
             "(Minnesota and mean priors) are rows of the same normal equations in the spec and are passed as prior_obs to estimate; every second estimate is merged into the "
             "output databox of an earlier estimate of another specification (target_db).",
        note="Trusted: TLC, numpy (companion-form eigenvalues/Lyapunov of the spec's exact coefficients). Bounds: <= 2 endogenous, <= 2 exogenous, order <= 2, "
             "T <= 8 (thorough 10), 6-11 missing patterns, priors with integer parameters. Resampling not covered. One known finding (simulate with order >= 2).",
        design="5/C18", technique="TLA+ spec (Ols over LinSolve) model-checked by TLC; every TLC-computed scenario replayed into irispie"),
    "C14": dict(
        text="Hp.tla states the constrained Hodrick-Prescott problem and solves its optimality conditions exactly (fraction-free elimination in "
             "TLA+); TLC verifies on every scenario that the solution satisfies the KKT system, meets the constraints exactly and returns a straight "
             "line unchanged. Every scenario (observation patterns, level/change constraints inside and outside the data, output spans, log mode, "
             "two-variant stacks) is replayed through hpf / hpf_trend / hpf_gap: trend = exact optimum, trend+gap = data, span only clips. Lonf.tla states "
             "the optimality conditions of the l1 trend filter and finds the optimum exactly by enumerating sign patterns of D x (each pattern an integer "
             "linear system); TLC checks that a consistent pattern exists and that all consistent patterns give the same trend; lonf (orders 1, 2) is "
             "compared with it, one and two variants, with the smoothing weight varied between calls of the same shape.",
        note="Trusted: TLC, numpy.linalg.solve, the QP solver daqp (lonf compared at 1e-6). Bounds: 2-5 data periods, lambda in {1,4} (thorough {1,2,4}), KKT dimension <= 7 "
             "(32-bit integers), one or two change constraints; lonf: 3-6 periods of complete data, lambda in {1,2,5} (thorough also 3, 20).",
        design="5/C14", technique="TLA+ spec (Hp over LinSolve) model-checked by TLC; every TLC-computed scenario replayed into irispie"),
    "C20": dict(
        text="ModelObjects.tla keeps, per handle, the sequence of variant records [parameters, steady-for, solved-for] and the tolerance setting; "
             "assign/steady/solve/alter_num_variants/override_tolerance/copy/pickle/dill/save-load are actions; independence (an action changes only its own handle) and duplicate "
             "equivalence are action properties checked by TLC on every generated step. Simulated behaviours are replayed on a Simultaneous "
             "growth model with log-variables and a !steady-autovalues parameter, on a Sequential model (with reorder_equations as a further action) and on a RedVAR (estimate as the solve step); after every step every variant of every handle is compared with a "
             "fresh single-variant reference resolved from the record (steady levels/changes, solution matrices, simulations).",
        note="Trusted: TLC (simulation mode: sampled behaviours). Bounds: 3 handles, <= 3 variants, 2 parameters x 3 values, depth 14. RedVAR.simulate is "
             "not part of the machine. Two known findings (portable round trip; standard pickle of Sequential).",
        design="5/C20", technique="TLA+ spec (ModelObjects) with action properties checked by TLC on simulated behaviours; behaviours replayed into irispie"),
    "C19": dict(
        text="Databox.tla models databoxes over a heap of item objects (deep copies allocate, shallow copies share, databox-level overlay/"
             "underlay/clip/prepend act in place, CSV and dataslate round trips create fresh objects with the same content on the selected "
             "names/span); the frame conditions of the property are action properties checked by TLC on every step of every generated "
             "behaviour; simulated behaviours over three handles are replayed through irispie (real CSV files and Dataslates) and after every "
             "step names, contents, descriptions, frequencies and the object-sharing structure of all handles are compared. In the other direction a "
             "seeded driver builds random databoxes (all six frequencies, 1-3 variants, NaN and infinite values, empty series, numbers, lists, descriptions "
             "with commas and quotes) and applies random operations incl. CSV round trips with round / frequency_span / delimiter / nan_str / start_period_only / ISO-date options and dataslate round trips with initial-condition columns that are dropped again; TLC "
             "validates every recorded history against the actions of Databox.tla (TraceDatabox.tla), the CSV step relationally (values read back are "
             "multiples of 10^-round within half a unit); corrupted histories must be rejected at the corrupted line.",
        note="Trusted: TLC (simulation mode: behaviours are sampled, not exhaustive). Bounds: 9 initial items (Q/M/I series, 1-2 variants, an empty "
             "series, a number), depth 9; 200 (quick) / 1200 (thorough) recorded histories of 12 steps. Renames onto existing names are not generated.",
        design="5/C19", technique="TLA+ spec (Databox) with action properties checked by TLC on simulated behaviours; behaviours replayed into irispie; histories recorded from irispie validated by TLC against the trace spec"),
    "C17": dict(
        text="SeqSim.tla is the simulator as a state machine, one step per (equation, period) in either execution order, with simulate and "
             "exogenize branches and exact transforms; TLC checks after every step that the equation just processed holds with its residual, at the "
             "end that all equations hold when no value was read before being computed, that exogenized variables take the implied value, and the "
             "frame condition. Every scenario (source text emitted by the spec, also written in rotated order and restored by reorder_equations) "
             "is run through Sequential.simulate and the whole output compared with the spec's final state.",
        note="Trusted: TLC, numpy exp/log. Bounds: 7 models of 2-3 equations (one with its deepest lag in an identity), 3 periods, lags <= 2, plans with <= 2 exogenized variables (transform shifts -1 and -2), values integer or exp(integer).",
        design="5/C17", technique="TLA+ spec (SeqSim) model-checked by TLC; every TLC-generated scenario/behaviour replayed into irispie"),
    "C16": dict(
        text="Blocks.tla specifies a valid block ordering as a state machine (SolveBlock enabled only for a square, structurally non-singular "
             "block whose equations involve own or earlier quantities; Finish when all is solved); TLC checks the partition/sequential-validity "
             "invariants and deadlock-freedom on all matrices with a perfect matching up to n = 3 (4 thorough). The block sequence returned by "
             "blaze() for every matrix n <= 4 and sampled n <= 8, and the outcome of Sequential.sequentialize() for every dependency digraph "
             "n <= 3 and sampled n <= 6, are recorded as traces and validated by TLC against TraceBlocks.tla.",
        note="Trusted: TLC; structural non-singularity is taken as existence of a perfect matching. Quick tier sends a seeded sixth of the 4x4 matrices to TLC.",
        design="5/C16", technique="TLA+ spec (Blocks) model-checked by TLC; traces recorded from blaze()/sequentialize() validated by TLC against the trace spec"),
    "C12": dict(
        text="Convert.tla defines aggregation/disaggregation through calendar membership (Calendar.tla) with the documented methods in exact "
             "arithmetic; TLC checks that groups tile the source and that aggregate(disaggregate(x)) = x for the matching method pairs on every "
             "scenario; Arip.tla solves the documented constrained smoothing problem exactly (fraction-free elimination of the KKT system, "
             "solution verified by TLC). Every scenario is replayed through irispie.aggregate/disaggregate.",
        note="Trusted: TLC, the TLA+ calendar. Bounds: starts in every segment / around month, quarter, year ends and leap days (incl. daily samples ending on 31 December of a leap year), 2-4 lengths, "
             "7 missing/variant patterns; arip with <= 8 high-frequency periods, integer-rate data for the rate form. min/max with a partly "
             "missing group unspecified. One known finding (regular -> DAILY disaggregation).",
        design="5/C12", technique="TLA+ spec (Convert, Arip over Calendar/LinSolve) model-checked by TLC; every TLC-computed scenario replayed into irispie"),
    "C10": dict(
        text="Series.tla defines every public operation as a transformer of the (period, variant) -> value map; TLC checks the laws of the "
             "property (write frame, read, purity of functional forms, canonical trimmed span, shift exactness) on every small series state x "
             "operation instance and isolation between handles on operation histories; all these transitions and simulated histories over "
             "three handles (incl. the in-place writer replace_where and a series rebuilt from another one's start and data array) are replayed through irispie.Series and compared cell by cell, with storage aliasing observed directly. In the other direction "
             "a seeded driver applies random operations (windows of 40 periods, values -9..9, 1-4 variants, 4 handles, 30 steps, six frequencies) to real "
             "Series objects, logs every handle after every step, and TLC validates each recorded history against SeriesHist's own step relation "
             "(TraceSeries.tla); a history with one corrupted field must be rejected at exactly that line (checked on every run).",
        note="Trusted: TLC, numpy element-wise primitives. Bounds: values {NaN,2,-3}, 3-4 period windows, 1-2 variants, about 180 operation "
             "instances; histories of depth 12; 250 (quick) / 1500 (thorough) recorded histories. Spans after clip and element-wise methods need only cover the observations.",
        design="5/C10", technique="TLA+ spec (Series) model-checked by TLC; TLC-computed transitions and simulated histories replayed into irispie; histories recorded from irispie validated by TLC against the trace spec"),
    "C13": dict(
        text="Temporal.tla states the documented formulas in exact arithmetic on powers of two and TLC checks on every enumerated scenario that "
             "cumulating a change with the original as initial condition returns the original (forward and backward, shifts -1..-4); every "
             "scenario (6 frequencies, integer and keyword shifts, annualised variants, helpers, cumulations) is replayed through irispie.",
        note="Trusted: TLC, numpy log/exp/power. Bounds: 7 input series of 9 periods across a year end, 1-2 variants, interior and edge NaNs. "
             "diff_log/pct with tty in start-of-year periods are unspecified; daily annualised variants on one non-decreasing series (2^(365 j) must stay in double precision).",
        design="5/C13", technique="TLA+ spec (Temporal) model-checked by TLC; every TLC-computed scenario replayed into irispie"),
    "C09": dict(
        text="TLC checks the order/arithmetic/tiling/accessor/keyword-shift laws on every enumerated period (Calendar.tla) and the "
             "enumeration/reverse/shift/resolve laws on every span state and on all mutation histories inside a window (Spans*.tla); "
             "every computed scenario, every (span state, operation) transition and thousands of simulated mutation histories are "
             "replayed through irispie and compared observation by observation. In the other direction a seeded driver applies random span operations "
             "(six frequencies, wide windows, steps, contextual ends) to real Span objects, logs the observed span after every step, and TLC validates each recorded "
             "history against the span actions (TraceSpans.tla); a corrupted history must be rejected at the corrupted line. Exhaustive inside the bounds, nothing beyond them.",
        note="Trusted: TLC, the TLA+ calendar definitions (leap rule, month lengths), Python's date.toordinal as the numbering of days; "
             "bounds: sample years incl. 1900/2000/2100 and calendar edges, 17 offsets, span serial window, steps +-1..3.",
        design="5/C09", technique="TLA+ spec (Calendar, Spans) model-checked by TLC; TLC-generated scenarios and behaviours replayed into irispie; histories recorded from irispie validated by TLC against the trace spec"),
    "C11": dict(
        text="TLC checks round-trip, containment, monotonicity and coarse-fine-coarse laws plus injectivity of the text forms on the "
             "calendar specification; every enumerated period is replayed through all irispie conversions (SDMX incl. auto-detection, "
             "repr, ISO, (y,s), (y,m,d), Python dates, refrequent to 5 frequencies x 3 positions) and compared with the spec's output.",
        note="Trusted: TLC and the TLA+ calendar definitions. 'middle' of yearly/half-yearly periods is only required to be a day of the "
             "period, consistently reported. Bounds: the configured year windows.",
        design="5/C11", technique="TLA+ spec (Calendar) model-checked by TLC; every TLC-computed scenario replayed into irispie"),
}

REASON_PENDING = "check not built yet (work in progress; see DESIGN.md section 10)"
NOT_APPLICABLE = {}

hooks = subprocess.run("git -C /repo log --format=%h --grep='^hook:'", shell=True, stdout=subprocess.PIPE, text=True).stdout.split()
m = {
    "version": 1,
    "setup_cmd": "cd /verif && /venv/bin/python -W ignore -m harness.setup",
    "hooks": {"guard": "IRISPIE_VERIF",
              "enable": "export IRISPIE_VERIF=1 (pure-Python package imported from /repo/src by /venv/bin/python; no build step)",
              "baseline_off_cmd": "cd /repo && env -u IRISPIE_VERIF /venv/bin/python -m pytest -ra -q -p no:cacheprovider --timeout=900 --continue-on-collection-errors",
              "source_commits": hooks, "add_only": True},
    "engines": [{"name": "tlc", "path": "/opt/veriftools/tla/tla2tools.jar", "serves_properties": sorted(CLAIMED),
                 "kind_free_text": "explicit TLA+ specifications under /verif/spec checked by TLC; TLC-generated behaviours replayed into irispie "
                                   "and irispie traces validated by TLC (harness under /verif/harness)"}],
    "checks": [],
    "notes": "All checks: ./check <id> --tier quick|thorough; exit 0 held / 1 VIOLATION / 2 machinery failure. See DESIGN.md.",
    "not_applicable": [],
}
for p in props:
    pid = p["id"]
    if pid in CLAIMED:
        c = CLAIMED[pid]
        m["checks"].append({
            "property_id": pid,
            "quick_cmd": "./check %s --tier quick" % pid,
            "thorough_cmd": "./check %s --tier thorough" % pid,
            "evidence_file": "/verif/evidence/%s.json" % pid,
            "replay_cmd_template": "./check %s --replay {path}" % pid,
            "engine": "tlc",
            "level_claimed": {"category": "model_checking", "text": c["text"], "design_ref": c["design"]},
            "level_note": c["note"],
            "technique": c["technique"],
        })
    else:
        m["not_applicable"].append({"property_id": pid, "reason": NOT_APPLICABLE.get(pid, REASON_PENDING)})
json.dump(m, open(os.path.join(VERIF, "MANIFEST.json"), "w"), indent=1)
print("claimed:", sorted(CLAIMED))
