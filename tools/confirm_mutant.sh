#!/bin/sh
# confirm_mutant.sh <worktree> <n> : confirm in the scratch worktree that mutant n (out/mutant<n>.diff, out/demo<n>.py)
# (a) applies, (b) makes the demo fail, (c) leaves the repository's test suite at the baseline, (d) demo passes without it.
wt=$1; n=$2
cd "$wt" || exit 2
git checkout -q -- src tests 2>/dev/null
run() { PYTHONPATH=$wt/src /venv/bin/python -W ignore "$@"; }
run out/demo$n.py >/dev/null 2>&1; base=$?
git apply out/mutant$n.diff || { echo "RESULT $wt $n apply-failed"; exit 1; }
run out/demo$n.py >/dev/null 2>&1; mut=$?
summary=$(PYTHONPATH=$wt/src /venv/bin/python -m pytest -q -p no:cacheprovider --timeout=900 --continue-on-collection-errors 2>&1 | tail -1)
git checkout -q -- src tests
rm -f tmp*.spc
echo "RESULT $wt mutant$n demo_without=$base demo_with=$mut tests: $summary"
