#!/venv/bin/python
"""import_mutants.py Cxx : copy the confirmed seeded changes of a sub-agent from /tmp/wt_Cxx/out into /verif/seeded/."""
import sys, os, shutil, json, re
pid = sys.argv[1]
suffix = sys.argv[2] if len(sys.argv) > 2 else ""
src = "/tmp/wt_%s%s/out" % (pid, suffix)
log = open("/tmp/confirm_%s%s.log" % (pid, suffix)).read()
notes = open(os.path.join(src, "notes.md")).read() if os.path.exists(os.path.join(src, "notes.md")) else ""
for n in (1, 2, 3):
    if not os.path.exists("%s/mutant%d.diff" % (src, n)):
        continue
    m = re.search(r"RESULT \S+ mutant%d demo_without=(\d+) demo_with=(\d+) tests: (.*)" % n, log)
    if not m:
        print("no confirmation for", pid, n); continue
    ok = m.group(1) == "0" and m.group(2) != "0" and "254 passed" in m.group(3)
    if not ok:
        print("NOT confirmed:", pid, n, m.group(0)); continue
    d = "/verif/seeded/%s%s_m%d" % (pid, suffix, n)
    os.makedirs(d, exist_ok=True)
    shutil.copy("%s/mutant%d.diff" % (src, n), d + "/patch.diff")
    shutil.copy("%s/demo%d.py" % (src, n), d + "/demo.py")
    meta = {"property": pid, "source": "independent sub-agent given only the property text and a scratch worktree",
            "needs_to_manifest": "see notes.md (section for mutant %d)" % n,
            "confirmed": {"demo_exit_without_change": int(m.group(1)), "demo_exit_with_change": int(m.group(2)),
                          "test_suite_with_change": m.group(3).strip(),
                          "how": "tools/confirm_mutant.sh in the scratch worktree: git apply, run demo, run full pytest suite, revert, run demo"}}
    json.dump(meta, open(d + "/meta.json", "w"), indent=1)
    open(d + "/notes.md", "w").write(notes)
    print("imported", d)
