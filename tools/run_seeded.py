#!/venv/bin/python
"""Apply each seeded change under /verif/seeded/<name>/patch.diff to /repo, run the quick check of the property it
breaks, undo the change, and record whether the check raised an alarm.  Usage: run_seeded.py [name ...] [--tier T]"""
import json, os, subprocess, sys, time

VERIF = os.path.dirname(os.path.dirname(os.path.abspath(__file__)))
SEEDED = os.path.join(VERIF, "seeded")


def sh(cmd, **kw):
    return subprocess.run(cmd, shell=True, stdout=subprocess.PIPE, stderr=subprocess.STDOUT, text=True, **kw)


def main():
    args = [a for a in sys.argv[1:] if not a.startswith("--")]
    tier = "quick"
    for a in sys.argv[1:]:
        if a.startswith("--tier="):
            tier = a.split("=", 1)[1]
    names = args or sorted(d for d in os.listdir(SEEDED) if os.path.isdir(os.path.join(SEEDED, d)))
    if sh("git -C /repo status --porcelain --untracked-files=no").stdout.strip():
        print("refusing: /repo has uncommitted changes")
        return 2
    rows = []
    for name in names:
        d = os.path.join(SEEDED, name)
        meta = json.load(open(os.path.join(d, "meta.json")))
        pid = meta.get("check_with", meta["property"])      # a change may sit in the anchored code of another property
        a = sh("git -C /repo apply %s/patch.diff" % d)
        if a.returncode != 0:    # context lines may have been touched by a fix: commit; retry with less context
            a = sh("git -C /repo apply -C1 %s/patch.diff" % d)
        if a.returncode != 0:
            rows.append((name, pid, "apply-failed", a.stdout.strip()[:200]))
            print("%-14s %s apply-failed %s" % (name, pid, rows[-1][3]), flush=True)
            continue
        t0 = time.time()
        try:
            r = sh("cd %s && ./check %s --tier %s" % (VERIF, pid, tier), timeout=7200)
        finally:
            sh("git -C /repo checkout -- .")
        viol = [l for l in r.stdout.splitlines() if l.startswith("VIOLATION")]
        what = [l.strip() for l in r.stdout.splitlines() if l.strip().startswith("what:")]
        verdict = {0: "MISSED", 1: "caught", 2: "machinery-failure"}.get(r.returncode, "exit %d" % r.returncode)
        rows.append((name, pid, verdict, (what[0] if what else r.stdout.strip().splitlines()[-1] if r.stdout.strip() else "")[:220]))
        print("%-14s %s %-18s %5.0fs %s" % (name, pid, verdict, time.time() - t0, rows[-1][3]), flush=True)
    return 0


if __name__ == "__main__":
    sys.exit(main())
